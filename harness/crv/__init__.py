"""crv - conformance harness binding the TLA+ specification suite in /verif/spec to commonroad-io."""
