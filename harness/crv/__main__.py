import sys
from .core import main
sys.exit(main(sys.argv))
