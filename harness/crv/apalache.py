"""Inductive-invariant checks with Apalache (apalache-mc 0.58, symbolic, SMT): safety for UNBOUNDED histories.

TLC explores the MC_ models up to a step bound / depth.  The APA_<M>.tla modules are typed transcriptions of the same
models without the bound, plus an inductive invariant IndInv.  Three obligations make IndInv (and everything it implies)
hold after ANY number of steps:

    init   Init => IndInv                      check --init=Init    --inv=IndInv  --length=0
    step   IndInv /\\ Next => IndInv'           check --init=IndInit --inv=IndInv  --length=1
    prop   IndInv => state properties          check --init=IndInit --inv=PropInv --length=0
    act    IndInv /\\ Next => action properties check --init=IndInit --inv=PropAct --length=1   (where the law is about a step)

and for every deviation constant one run with that constant TRUE (--cinit=CInitDevK) that must END IN A COUNTEREXAMPLE
(otherwise the inductive argument would be vacuous).  Nothing here judges a property of the library; a timeout or an
out-of-memory of the solver is reported as "inconclusive" and never fails a check.
"""
import concurrent.futures
import json
import os
import re
import shutil
import signal
import subprocess
import time

from . import tlc

APALACHE = shutil.which("apalache-mc") or "/opt/veriftools/apalache/bin/apalache-mc"
OUT = os.path.join(tlc.OUT, "apalache")

# (name, init predicate, invariant, length[, next-state operator])
_STD = [("init", "Init", "IndInv", 0), ("step", "IndInit", "IndInv", 1), ("prop", "IndInit", "PropInv", 0)]
_ACT = ("act", "IndInit", "PropAct", 1)
# module -> obligations on the unchanged model, and per deviation constant (cinit predicate) the obligation that must fail
SPECS = {
    "APA_ScenarioStore": {
        "cinit": "CInit", "obligations": _STD + [_ACT],
        # Impl => Contract for every step from an IndInv state (PropRefines of MC_ScenarioStore); 26 min measured, run only
        # with extra=True / VERIF_APALACHE_EXTRA=1 / `python -m crv.apalache APA_ScenarioStore --extra`
        "optional": [("refine", "IndInit", "InvRefines", 1, "NextRef")],
        "devs": [("CInitDev1", "step", "DEV_ListRemoveInterKeepsIncoming"), ("CInitDev2", "act", "DEV_PartialIntersection"),
                 ("CInitDev3", "act", "DEV_PartialNetwork"), ("CInitDev4", "step", "DEV_AddNetOnNonEmpty"),
                 ("CInitDev5", "step", "DEV_HangingFreesNamedIds")]},
    "APA_Writers": {
        "cinit": "CInit", "obligations": _STD + [_ACT],
        "devs": [("CInitDev1", "act", "DEV_GlobalPrecision"), ("CInitDev2", "step", "DEV_AccumulatingRoot"),
                 ("CInitDev3", "act", "DEV_NoTruncate"), ("CInitDev4", "act", "DEV_NetworkCached"),
                 ("CInitDev5", "act", "DEV_FailedWriteKeepsDoc")]},
    "APA_Cache": {
        "cinit": "CInit", "obligations": _STD + [_ACT],
        "devs": [("CInitDev1", "step", "DEV_NoInvalidateOnPredictionTR"), ("CInitDev2", "step", "DEV_NoReindexOnNetworkTR"),
                 ("CInitDev3", "step", "DEV_NoInvalidateCycle"), ("CInitDev4", "step", "DEV_MergeRebuildOnlyIfAll"),
                 ("CInitDev5", "step", "DEV_SetterSkipsSameObject")]},
    "APA_TrafficLight": {
        "cinit": "CInit", "obligations": _STD + [_ACT],
        "devs": [("CInitDev1", "prop", "DEV_TruncatedRemainder")]},
}


# ---- drift guard: the APA_ modules are hand transcriptions of MC_<M>.tla; a later change of the MC model must be visible ----
_RE_DEF = re.compile(r"^([A-Za-z_]\w*)(\([^)]*\))?\s*==", re.M)
_RE_COMMENT = re.compile(r"\(\*.*?\*\)|\\\*[^\n]*", re.S)


def _defs(text):
    """top-level definitions of a module: name -> body text (comments removed)"""
    text = _RE_COMMENT.sub("", text)
    ms = list(_RE_DEF.finditer(text))
    return {m.group(1): text[m.end():(ms[i + 1].start() if i + 1 < len(ms) else len(text))] for i, m in enumerate(ms)}


def mc_actions(mc_text):
    """names used in the disjuncts of Next whose own definition is an action (mentions a primed variable or UNCHANGED)"""
    d = _defs(mc_text)
    used = set(re.findall(r"[A-Za-z_]\w*", d.get("Next", "")))
    return sorted(n for n in used if n in d and n != "Next" and ("'" in d[n] or "UNCHANGED" in d[n]))


def drift(module):
    """Compare MC_<M>.tla with the `\\* COVERS: {json}` line of APA_<M>.tla.  Returns a list of messages (empty = in step)."""
    with open(os.path.join(tlc.SPEC, module + ".tla")) as f:
        apa = f.read()
    m = re.search(r"^\\\*\s*COVERS:\s*(\{.*\})\s*$", apa, re.M)
    if not m:
        return ["drift: %s declares no COVERS line" % module]
    cov = json.loads(m.group(1))
    mc = cov.get("mc", "MC_" + module[4:])
    with open(os.path.join(tlc.SPEC, mc + ".tla")) as f:
        mc_text = f.read()
    msgs = []

    def cmp(kind, have, declared):
        for x in sorted(set(have) - set(declared)):
            msgs.append("drift: %s has %s %s that %s does not cover" % (mc, kind, x, module))
        for x in sorted(set(declared) - set(have)):
            msgs.append("drift: %s covers %s %s that %s no longer has" % (module, kind, x, mc))
    cmp("action", mc_actions(mc_text), cov.get("actions", []))
    cmp("deviation constant", set(re.findall(r"\bDEV_\w+", _RE_COMMENT.sub("", mc_text))), cov.get("devs", []))
    if "tokens" in cov:       # token universe of the functional core (<M>.tla: `NAME |-> T(...)`)
        with open(os.path.join(tlc.SPEC, mc[3:] + ".tla")) as f:
            core = _RE_COMMENT.sub("", f.read())
        cmp("token", set(re.findall(r"\b(\w+)\s*\|->\s*T\(", core)), cov["tokens"])
    return msgs


def run(module, init, inv, length, cinit=None, tag="run", timeout=900, xmx="6g", nxt=None):
    """One apalache-mc check. status: holds | counterexample | timeout | out-of-memory | error."""
    short = module[4:] if module.startswith("APA_") else module
    out_dir = os.path.join(OUT, short, tag)
    shutil.rmtree(out_dir, ignore_errors=True)
    os.makedirs(out_dir, exist_ok=True)
    cmd = [APALACHE, "check", "--no-deadlock", "--init=" + init, "--inv=" + inv, "--length=%d" % length, "--out-dir=" + out_dir,
           "--run-dir=" + os.path.join(out_dir, "last")]
    if cinit:
        cmd.append("--cinit=" + cinit)
    if nxt:
        cmd.append("--next=" + nxt)
    cmd.append(module + ".tla")
    env = dict(os.environ)
    env["JVM_ARGS"] = "-Xmx%s" % xmx
    t0 = time.time()
    p = subprocess.Popen(cmd, cwd=tlc.SPEC, stdout=subprocess.PIPE, stderr=subprocess.STDOUT, text=True, env=env,
                         start_new_session=True)
    try:
        out, _ = p.communicate(timeout=timeout)
        status = None
    except subprocess.TimeoutExpired:
        try:
            os.killpg(p.pid, signal.SIGKILL)
        except ProcessLookupError:
            pass
        out, _ = p.communicate()
        status = "timeout"
    wall = round(time.time() - t0, 1)
    if status is None:
        if p.returncode == 0 and "The outcome is: NoError" in out:
            status = "holds"
        elif p.returncode == 12 and "The outcome is: Error" in out:
            status = "counterexample"
        elif "heap" in out or "OutOfMemory" in out or "out of memory" in out.lower():
            status = "out-of-memory"
        else:
            status = "error"
    with open(os.path.join(out_dir, "stdout.log"), "w") as f:
        f.write(out)
    return {"module": module, "init": init, "inv": inv, "length": length, "cinit": cinit, "status": status,
            "wall_s": wall, "rc": p.returncode, "out_dir": out_dir, "tail": out[-1500:]}


def check_inductive(module, timeout=900, parallel=4, xmx="6g", devs=True, extra=None):
    """Run the obligations of SPECS[module] (and the deviation variants).

    Returns dict(ok, wall_s, verdicts, note):
      verdicts  {obligation or DEV name: "holds" | "counterexample" | "inconclusive: timeout" | ...}
      drift     messages of the drift guard (MC_<M> actions / DEV_ constants / tokens vs. the COVERS line of APA_<M>); reported,
                never a failure
      ok        False only for a counterexample on the unchanged model, a deviation variant that passes, or a tool error
                (all three are machinery errors); timeouts / out-of-memory leave ok True and are named in `note`.
    """
    spec = SPECS[module]
    try:
        drifted = drift(module)
    except (OSError, ValueError) as ex:
        drifted = ["drift: guard could not compare %s with its MC model (%s)" % (module, ex)]
    if extra is None:
        extra = os.environ.get("VERIF_APALACHE_EXTRA") == "1"
    obl = {o[0]: o for o in spec["obligations"] + (spec.get("optional", []) if extra else [])}
    jobs = [(name, o[1], o[2], o[3], spec["cinit"], name, o[4] if len(o) > 4 else None) for name, o in obl.items()]
    if devs:
        for cinit, which, dev in spec["devs"]:
            o = obl[which]
            jobs.append((dev, o[1], o[2], o[3], cinit, dev, o[4] if len(o) > 4 else None))
    t0 = time.time()
    res = {}
    with concurrent.futures.ThreadPoolExecutor(max_workers=parallel) as ex:
        slow = {o[0] for o in spec.get("optional", [])}         # measured: refine 26 min
        futs = {ex.submit(run, module, j[1], j[2], j[3], j[4], j[5], max(timeout, 3000) if j[0] in slow else timeout,
                          "16g" if j[0] in slow else xmx, j[6]): j[0] for j in jobs}
        for f in concurrent.futures.as_completed(futs):
            res[futs[f]] = f.result()
    verdicts, ok, problems, inconclusive = {}, True, [], []
    for name, _i, _v, _l, _c, _t, _n in jobs:
        r = res[name]
        st = r["status"]
        is_dev = name not in obl
        if st in ("timeout", "out-of-memory"):
            verdicts[name] = "inconclusive: %s (%.0fs)" % (st, r["wall_s"])
            inconclusive.append(name)
        elif st == "error":
            verdicts[name] = "error (rc %s)" % r["rc"]
            ok = False
            problems.append("%s: apalache error: %s" % (name, r["tail"][-400:]))
        elif is_dev:
            verdicts[name] = "%s (%.0fs)" % ("counterexample, as documented" if st == "counterexample" else "NO counterexample", r["wall_s"])
            if st != "counterexample":
                ok = False
                problems.append("%s=TRUE passes: the inductive argument no longer excludes the deviation" % name)
        else:
            verdicts[name] = "%s (%.0fs)" % (st, r["wall_s"])
            if st != "holds":
                ok = False
                problems.append("%s: counterexample on the unchanged model, see %s" % (name, r["out_dir"]))
    note = "; ".join(problems + drifted + (["inconclusive: " + ", ".join(inconclusive)] if inconclusive else []))
    return {"ok": ok, "wall_s": round(time.time() - t0, 1), "verdicts": verdicts, "note": note, "drift": drifted}


def append_run(ctx, module, **kw):
    """Thorough tier only: run the inductive check and append it to ctx.mc_runs.  Counterexample on the unchanged model /
    passing deviation variant / tool error -> MachineryError; timeout / out-of-memory -> 'inconclusive', check goes on."""
    if not getattr(ctx, "thorough", False):
        return None
    r = check_inductive(module, **kw)
    main = [k for k in r["verdicts"] if not k.startswith("DEV_")]
    if not r["ok"]:
        verdict = "FAILED: " + r["note"]
    elif r.get("drift"):      # the obligations below are about a transcription that no longer matches the MC model
        verdict = "inconclusive: " + "; ".join(r["drift"]) + " -- obligations on the wrapper as it is: " \
                  + ", ".join("%s %s" % (k, v) for k, v in r["verdicts"].items())
    elif any(v.startswith("inconclusive") for v in r["verdicts"].values()):
        verdict = "inconclusive: " + ", ".join("%s %s" % (k, v.split(": ", 1)[1]) for k, v in r["verdicts"].items()
                                              if v.startswith("inconclusive")) \
                  + "; " + ", ".join("%s %s" % (k, r["verdicts"][k]) for k in main if not r["verdicts"][k].startswith("inconclusive"))
    else:
        verdict = "inductive invariant holds for unbounded histories (" + ", ".join("%s %s" % (k, r["verdicts"][k]) for k in main) \
                  + "); deviation variants refuted: " + ", ".join(k for k in r["verdicts"] if k.startswith("DEV_"))
    ctx.mc_runs.append({"module": module, "cfg": "apalache inductive", "verdict": verdict, "wall_s": r["wall_s"],
                        "verdicts": r["verdicts"]})
    if not r["ok"]:
        raise tlc.MachineryError("Apalache inductive check of %s failed: %s" % (module, r["note"]))
    return r


if __name__ == "__main__":
    import json
    import sys
    _kw = {"timeout": int(os.environ.get("VERIF_APALACHE_TIMEOUT", "900"))}
    print(json.dumps(check_inductive(sys.argv[1], devs="--nodev" not in sys.argv, extra="--extra" in sys.argv or None, **_kw),
                     indent=1))
