"""Shared driver code for C01 / C02 / C03 (spec: Codec.tla, Xsd2020a.tla; trace spec: Trace_Codec.tla).

  gamma   descriptor (record of tokens, printed by MC_Codec) -> Scenario + PlanningProblemSet, PUBLIC constructors only
  alpha   Scenario + PlanningProblemSet -> LEAVES  [kind, key, path, value]  through public accessors only
  project read-back leaves with every real replaced by its closeness class w.r.t. the original leaf
          ("exact" bit identical / "within_tol" |x'-x| < 10^-d, exact Fraction arithmetic / "out_of_tol";
           "is:zero" / "is:other" when the original has no such leaf)
  xsd_event  written XML bytes -> element entries for Xsd2020a!DocRule + lxml's verdict (cross-check only)

Nothing here judges: expected read-back leaves, carried fields, expressibility and schema verdicts are computed by TLC.
The enumeration / number-token tables of Codec.tla are the source of truth: MC_Codec prints them (TABLE line) and
`check_tables` refuses to run when the Python value tables below disagree.
"""
import json
import os
import re
import shutil
import struct
import sys
import tempfile
import warnings
from fractions import Fraction

from crv import tlc
from crv.core import use_repo

# ======================================================================================================================
# XML abstraction (C03)
# ======================================================================================================================
_RE_INT = re.compile(r"[+-]?\d+")
_RE_DEC = re.compile(r"[+-]?(\d+\.\d*|\.\d+)")
_RE_EXP = re.compile(r"[+-]?(\d+(\.\d*)?|\.\d+)[eE][+-]?\d+")
_RE_TIME = re.compile(r"\d\d:\d\d:\d\d(\.\d+)?(Z|[+-]\d\d:\d\d)?")
_RE_DATE = re.compile(r"-?\d{4,}-\d\d-\d\d(Z|[+-]\d\d:\d\d)?")


def lex(text):
    """(lexical class, kept text) of a text, see Xsd2020a.tla header."""
    raw = text or ""
    t = raw.strip(" \t\r\n")
    if t == "":
        return "empty", ""
    if _RE_INT.fullmatch(t):
        v = int(t)
        tc = "int+" if v > 0 else ("int0" if v == 0 else "int-")
        return tc, t[:20]               # kept: trafficSignID values such as "274" are integers lexically
    if _RE_DEC.fullmatch(t):
        v = Fraction(t)
        return ("dec+" if v > 0 else ("dec0" if v == 0 else "dec-")), (t if len(t) <= 8 else "")   # "274.1" is a sign id
    if _RE_EXP.fullmatch(t):
        return "exp", ""
    low = t.lower().lstrip("+-")
    if low in ("inf", "infinity"):
        return "inf", ""
    if low == "nan":
        return "nan", ""
    if t in ("true", "false"):
        return "bool", t
    if _RE_TIME.fullmatch(t):
        return "time", ""
    if _RE_DATE.fullmatch(t):
        return "date", ""
    return "other", raw[:80]


_schema = None


def _get_schema():
    global _schema
    if _schema is None:
        from lxml import etree
        from crv import core
        p = os.path.join(core.REPO, "commonroad", "scenario_definition", "xml_definition_files",
                         "XML_commonRoad_XSD.xsd")
        _schema = etree.XMLSchema(etree.parse(p))
    return _schema


def _canon_int(t):
    t = (t or "").strip()
    return str(int(t)) if _RE_INT.fullmatch(t) else t


def abstract_xml(data):
    """bytes -> (element entries in document order, identical entries merged; ids; refs; lxml verdict)."""
    from lxml import etree
    root = etree.fromstring(data)
    els, seen, ids, refs = [], set(), [], []

    def walk(el, path):
        if not isinstance(el.tag, str):
            return
        p = path + [str(el.tag)]
        kids = [c for c in el if isinstance(c.tag, str)]
        if kids:
            tc, tx = "", ""
        else:
            tc, tx = lex(el.text)
        at = []
        for k, v in el.attrib.items():
            c, x = lex(v)
            at.append([str(k), c, x])
            if k == "id":
                ids.append([p, _canon_int(v)])
            if k == "ref":
                refs.append(_canon_int(v))
        ent = {"p": p, "ch": [str(c.tag) for c in kids], "tc": tc, "tx": tx, "at": at}
        key = json.dumps(ent, sort_keys=True)
        if key not in seen:
            seen.add(key)
            els.append(ent)
        for c in kids:
            walk(c, p)

    walk(root, [])
    sch = _get_schema()
    verdict = "valid" if sch.validate(root) else "invalid"
    detail = "" if verdict == "valid" else str(sch.error_log[0].message)[:200]
    return els, ids, refs, verdict, detail


def xsd_event(data, sig, reader):
    els, ids, refs, verdict, detail = abstract_xml(data)
    return {"op": "xsd", "sig": sig, "exc": "", "els": els, "ids": ids, "refs": refs, "lxml": verdict, "detail": detail,
            "reader": reader}


# ======================================================================================================================
# tables: Codec.tla is the source of truth (TABLE line of any MC_Codec run); the Python values must match
# ======================================================================================================================
NUM = {"zero": 0.0, "one": 1.0, "tenth": 0.1, "half": 0.5, "ordinary": 12.345678, "tiny": 1e-6, "small": 9.9e-5,
       "big": 1e5, "long": 123456.789012, "neg": -2.25, "angle": 0.7853981633974483,
       # near twins (Codec!NearPairs): closer than 1e-10 to their partner, other doubles
       "negzero": -0.0, "ordinary2": 12.345678000001, "one2": 1.0000000000001, "half2": 0.50000000000001, "p3": 0.3,
       "p3b": 0.30000000000000004, "angle2": 0.78539816339745}
GEO_REF = {"None": None, "utm": "+proj=utm +zone=32 +ellps=WGS84"}
AUTHOR, AFFILIATION, SOURCE = "crv-author", "crv-affiliation", "crv-source"
COMPONENTS = ["obstacle", "planning", "lanelet", "sign", "light", "intersection", "header", "numbers"]
RUNS = ["obstacle", "small", "numbers", "reuse"]      # TLC runs: "small" = planning, lanelet, sign, light, intersection, header
_TABLE_FILE = os.path.join(tlc.OUT, "gen", "codec_tables.json")
_tables = None


def tables_from_output(out):
    for p in tlc.printed_tuples(out, "TABLE"):
        return json.loads(tlc.tla_unquote(p))
    raise tlc.MachineryError("MC_Codec did not print its TABLE line:\n" + out[-1500:])


def save_tables(t):
    os.makedirs(os.path.dirname(_TABLE_FILE), exist_ok=True)
    with open(_TABLE_FILE, "w") as f:
        json.dump(t, f)


def tables():
    global _tables
    if _tables is None:
        if not os.path.exists(_TABLE_FILE):
            r = tlc.run_tlc("MC_Codec", "GEN_Codec_light.cfg", "codec_tables", workers=1, timeout=600)
            save_tables(tables_from_output(r["out"]))
        with open(_TABLE_FILE) as f:
            t = json.load(f)
        t["attr_order"] = [r[0] for r in t["attrs"]]
        t["attr_short"] = {r[0]: r[1] for r in t["attrs"]}
        t["enum_names"] = {k: [r[0] for r in v] for k, v in t["enums"].items()}
        _tables = t
    return _tables


def check_tables(t, notes):
    """The spec's tables against the library, the XSD and the *_pb2 descriptors.  Disagreement about what the code base
    defines = the spec must be updated (machinery failure); nothing here is a property verdict."""
    use_repo()
    import dataclasses
    import enum as _enum
    from lxml import etree
    import commonroad.scenario.state as S
    import commonroad.scenario.traffic_sign as TS
    from commonroad.common.common_lanelet import LaneletType, LineMarking, RoadUser
    from commonroad.scenario.obstacle import ObstacleType
    from commonroad.scenario.scenario import Tag, TimeOfDay, Underground, Weather
    from commonroad.scenario.traffic_light import TrafficLightDirection, TrafficLightState
    from commonroad.scenario_definition.protobuf_format.generated_scripts import (lanelet_pb2, location_pb2, obstacle_pb2,
                                                                                  scenario_tags_pb2, traffic_light_pb2,
                                                                                  traffic_sign_pb2)
    from crv import core
    bad = []
    lib = {"LineMarking": LineMarking, "LaneletType": LaneletType, "RoadUser": RoadUser, "ObstacleType": ObstacleType,
           "Tag": Tag, "TimeOfDay": TimeOfDay, "Weather": Weather, "Underground": Underground,
           "TrafficLightDirection": TrafficLightDirection, "TrafficLightState": TrafficLightState}
    for k, e in lib.items():
        mine = sorted((r[0], r[1]) for r in t["enums"][k])
        theirs = sorted((m.name, str(m.value)) for m in e)
        if mine != theirs:
            bad.append("enum %s: spec %r library %r" % (k, mine, theirs))
    pb = {"LineMarking": lanelet_pb2.LineMarkingEnum.LineMarking, "LaneletType": lanelet_pb2.LaneletTypeEnum.LaneletType,
          "RoadUser": lanelet_pb2.RoadUserEnum.RoadUser, "ObstacleType": obstacle_pb2.ObstacleTypeEnum.ObstacleType,
          "Tag": scenario_tags_pb2.TagEnum.Tag, "TimeOfDay": location_pb2.TimeOfDayEnum.TimeOfDay,
          "Weather": location_pb2.WeatherEnum.Weather, "Underground": location_pb2.UndergroundEnum.Underground,
          "TrafficLightDirection": traffic_light_pb2.TrafficLightDirectionEnum.TrafficLightDirection,
          "TrafficLightState": traffic_light_pb2.TrafficLightStateEnum.TrafficLightState}
    for k, e in pb.items():
        if sorted(t["pbenums"][k]) != sorted(e.keys()):
            bad.append("pb enum %s: spec %r .proto %r" % (k, sorted(t["pbenums"][k]), sorted(e.keys())))
    if sorted(t["numtoks"]) != sorted(NUM):
        bad.append("number tokens: spec %r python %r" % (t["numtoks"], sorted(NUM)))
    if sorted(t["positive"]) != sorted(k for k, v in NUM.items() if v > 0):
        bad.append("positive tokens")
    import math
    if sorted(t["angletoks"]) != sorted(k for k, v in NUM.items() if abs(v) <= 2 * math.pi):
        bad.append("angle tokens")
    for a, b in t["near"]:
        if not (abs(NUM[a] - NUM[b]) < 1e-10 and struct.pack("<d", NUM[a]) != struct.pack("<d", NUM[b])):
            bad.append("near pair %s %s" % (a, b))
    for lo, hi in t["intervals"]:
        if not NUM[lo] < NUM[hi]:
            bad.append("interval pair %s %s" % (lo, hi))
    # state classes
    mine = [(c, list(a)) for c, a in t["classes"]]
    theirs = [(c.__name__, [f.name for f in dataclasses.fields(c) if f.name != "time_step"]) for c in S.SpecificStateClasses]
    if [(c, sorted(a)) for c, a in mine] != [(c, sorted(a)) for c, a in theirs]:
        bad.append("state classes: spec %r library %r" % (mine, theirs))
    # state attributes: XSD element names and protobuf fields
    xsd = etree.parse(os.path.join(core.REPO, "commonroad", "scenario_definition", "xml_definition_files",
                                   "XML_commonRoad_XSD.xsd"))
    ns = {"xs": "http://www.w3.org/2001/XMLSchema"}
    xs_state = set(xsd.xpath("//xs:complexType[@name='state']//xs:element/@name", namespaces=ns)) - {"time"}
    if {r[2] for r in t["attrs"] if r[2]} != xs_state:
        bad.append("state attributes vs XSD: %r" % sorted({r[2] for r in t["attrs"] if r[2]} ^ xs_state))
    pb_state = {f.name for f in obstacle_pb2.State.DESCRIPTOR.fields} - {"point", "shape", "time_step"} | {"position"}
    if {r[0] for r in t["attrs"] if r[3]} != pb_state:
        bad.append("state attributes vs obstacle.proto: %r" % sorted({r[0] for r in t["attrs"] if r[3]} ^ pb_state))
    all_attrs = {f.name for c in S.SpecificStateClasses for f in dataclasses.fields(c)} - {"time_step"}
    if not all_attrs <= {r[0] for r in t["attrs"]}:
        notes.append("SPEC-DRIFT state attributes not in Codec!AttrT: %r" % sorted(all_attrs - {r[0] for r in t["attrs"]}))
    if [r[0] for r in t["signals"]] != [s for s in S.SignalState.__slots__ if s != "time_step"]:
        bad.append("signal slots")
    # XSD enumerations
    for name, vals in t["xsd"].items():
        if name == "version":
            continue
        if name == "trafficLightDirection":
            got = xsd.xpath("//xs:complexType[@name='trafficLight']//xs:element[@name='direction']//xs:enumeration/@value",
                            namespaces=ns)
        else:
            got = xsd.xpath("//xs:simpleType[@name='%s']//xs:enumeration/@value" % name, namespaces=ns)
        if sorted(vals) != sorted(str(v) for v in got):
            bad.append("XSD enumeration %s differs: %r" % (name, sorted(set(vals) ^ set(map(str, got)))))
    xs_tags = xsd.xpath("//xs:complexType[@name='tag']//xs:element/@name", namespaces=ns)
    if sorted(t["xsdtags"]) != sorted(map(str, xs_tags)):
        bad.append("XSD tags")
    # traffic sign sample
    for s in t["signids"]:
        cls = getattr(TS, s["c"], None)
        if cls is None or s["n"] not in cls.__members__ or str(cls[s["n"]].value) != s["v"]:
            bad.append("sign id %r" % (s,))
            continue
        pbe = getattr(getattr(traffic_sign_pb2, s["c"] + "Enum"), s["c"])
        if (s["n"] in pbe.keys()) != bool(s["pb"]):
            bad.append("sign id %r: .proto membership is %s" % (s, s["n"] in pbe.keys()))
    for c, classes in t["countries"].items():
        if TS.TrafficSignIDCountries[c].__name__ not in classes:
            bad.append("country %s: reader class %s" % (c, TS.TrafficSignIDCountries[c].__name__))
    if bad:
        raise tlc.MachineryError("Codec.tla tables disagree with the code base (update the spec):\n  " + "\n  ".join(bad))


# ======================================================================================================================
# gamma: descriptor -> real objects (public constructors only)
# ======================================================================================================================
def num(tok):
    return NUM[tok]


def g_shape(sh):
    import numpy as np
    from commonroad.geometry.shape import Circle, Polygon, Rectangle, ShapeGroup
    k = sh["k"]
    if k == "rect":
        return Rectangle(num(sh["l"]), num(sh["w"]), np.array([num(sh["cx"]), num(sh["cy"])]), num(sh["o"]))
    if k == "circle":
        return Circle(num(sh["r"]), np.array([num(sh["cx"]), num(sh["cy"])]))
    if k == "poly":
        v = num(sh["s"])
        pts = [(0.0, 0.0), (v, 0.0), (v, v), (0.0, v)] if sh["n"] == 4 else [(0.0, 0.0), (v, 0.0), (0.0, v)]
        return Polygon(np.array(pts))
    if k == "group":
        return ShapeGroup([g_shape(p) for p in sh["parts"]])
    raise ValueError("shape kind %r" % (k,))


def g_time(t):
    from commonroad.common.util import Interval
    return int(t["t"]) if t["k"] == "exact" else Interval(int(t["lo"]), int(t["hi"]))


def g_value(a, v, goal_lanelets=None):
    import numpy as np
    from commonroad.common.util import AngleInterval, Interval
    from commonroad.geometry.shape import ShapeGroup
    k = v["k"]
    if k == "exact":
        return np.array([num(v["x"]), num(v["y"])]) if a == "position" else num(v["x"])
    if k == "interval":
        return (AngleInterval if a == "orientation" else Interval)(num(v["lo"]), num(v["hi"]))
    if k == "region":
        return g_shape(v["sh"])
    if k == "lanelets":
        return ShapeGroup([la.polygon for la in goal_lanelets])        # what both readers build for lanelet goals
    raise ValueError("value kind %r" % (k,))


def g_state(st, goal_lanelets=None):
    import commonroad.scenario.state as S
    kw = {"time_step": g_time(st["t"])}
    for e in st["a"]:
        kw[e["n"]] = g_value(e["n"], e["v"], goal_lanelets)
    return getattr(S, st["c"])(**kw)


def g_signal(sg):
    from commonroad.scenario.state import SignalState
    kw = {"time_step": g_time(sg["t"])}
    for e in sg["b"]:
        kw[e["n"]] = bool(e["v"])
    return SignalState(**kw)


def g_prediction(pred):
    from commonroad.prediction.prediction import Occupancy, SetBasedPrediction, TrajectoryPrediction
    from commonroad.scenario.trajectory import Trajectory
    if pred["k"] == "traj":
        return TrajectoryPrediction(Trajectory(pred["t0"], [g_state(s) for s in pred["states"]]), g_shape(pred["sh"]))
    if pred["k"] == "set":
        return SetBasedPrediction(pred["t0"], [Occupancy(g_time(o["t"]), g_shape(o["sh"])) for o in pred["occs"]])
    return None


def g_obstacle(o):
    """Optional constructor arguments are passed only when the descriptor sets them: a descriptor without signal states
    and prediction yields the default-argument object."""
    from commonroad.scenario.obstacle import (DynamicObstacle, EnvironmentObstacle, ObstacleType, PhantomObstacle,
                                              StaticObstacle)
    role = o["role"]
    if role == "phantom":
        p = g_prediction(o["pred"])
        return PhantomObstacle(o["id"]) if p is None else PhantomObstacle(o["id"], p)
    typ = ObstacleType[o["type"]]
    if role == "environment":
        return EnvironmentObstacle(o["id"], typ, g_shape(o["sh"]))
    kw = {}
    if o["iss"]:
        kw["initial_signal_state"] = g_signal(o["iss"][0])
    if not o["g"]["serNone"]:
        kw["signal_series"] = [g_signal(s) for s in o["ser"]]
    if role == "static":
        return StaticObstacle(o["id"], typ, g_shape(o["sh"]), g_state(o["init"]), **kw)
    p = g_prediction(o["pred"])
    if p is not None:
        kw["prediction"] = p
    return DynamicObstacle(o["id"], typ, g_shape(o["sh"]), g_state(o["init"]), **kw)


def lanelet_geometry(la):
    import numpy as np
    v, i = num(la["geo"]), la["id"]
    xs = [v * j for j in range(1, la["nv"] + 1)]
    right = np.array([[x, v * 3 * i] for x in xs])
    left = np.array([[x, v * (3 * i + 1)] for x in xs])
    return left, right


def g_lanelet(la):
    from commonroad.common.common_lanelet import LaneletType, LineMarking, RoadUser, StopLine
    from commonroad.scenario.lanelet import Lanelet
    left, right = lanelet_geometry(la)
    kw = {"line_marking_left_vertices": LineMarking[la["lml"]], "line_marking_right_vertices": LineMarking[la["lmr"]]}
    if la["pred"]:
        kw["predecessor"] = list(la["pred"])
    if la["succ"]:
        kw["successor"] = list(la["succ"])
    if la["adjL"]:
        kw["adjacent_left"], kw["adjacent_left_same_direction"] = la["adjL"][0]["id"], bool(la["adjL"][0]["same"])
    if la["adjR"]:
        kw["adjacent_right"], kw["adjacent_right_same_direction"] = la["adjR"][0]["id"], bool(la["adjR"][0]["same"])
    if la["stop"]:
        s = la["stop"][0]
        skw = {}
        if not s["g"]["srefNone"]:
            skw["traffic_sign_ref"] = set(s["sref"])
        if not s["g"]["lrefNone"]:
            skw["traffic_light_ref"] = set(s["lref"])
        if s["pts"]:
            kw["stop_line"] = StopLine(right[-1].copy(), left[-1].copy(), LineMarking[s["lm"]], **skw)
        else:                                      # no points: "at the end of the lanelet" (2020a format)
            kw["stop_line"] = StopLine(None, None, LineMarking[s["lm"]], **skw)
    if la["types"]:
        kw["lanelet_type"] = {LaneletType[t] for t in la["types"]}
    if la["uow"]:
        kw["user_one_way"] = {RoadUser[t] for t in la["uow"]}
    if la["ubi"]:
        kw["user_bidirectional"] = {RoadUser[t] for t in la["ubi"]}
    if la["signs"]:
        kw["traffic_signs"] = set(la["signs"])
    if la["lights"]:
        kw["traffic_lights"] = set(la["lights"])
    return Lanelet(left, (left + right) / 2.0, right, la["id"], **kw)


def g_pos(pos):
    import numpy as np
    return np.array([num(pos[0]["x"]), num(pos[0]["y"])]) if pos else None


def g_sign(s):
    import commonroad.scenario.traffic_sign as TS
    els = []
    for e in s["els"]:
        member = getattr(TS, e["id"]["c"])[e["id"]["n"]]
        els.append(TS.TrafficSignElement(member, list(e["av"])) if e["av"] else TS.TrafficSignElement(member))
    kw = {"virtual": True} if s["virt"] else {}
    return TS.TrafficSign(s["id"], els, set(s["first"]), g_pos(s["pos"]), **kw)


def g_light(t):
    from commonroad.scenario.traffic_light import (TrafficLight, TrafficLightCycle, TrafficLightCycleElement,
                                                   TrafficLightDirection, TrafficLightState)
    els = [TrafficLightCycleElement(TrafficLightState[c["c"]], c["d"]) for c in t["cyc"]]
    kw = {}
    if t["dir"] != "ALL":
        kw["direction"] = TrafficLightDirection[t["dir"]]
    if t["g"]["cycNone"]:
        light = TrafficLight(t["id"], g_pos(t["pos"]), **kw)             # default-argument light: no cycle at all
    else:
        cyc = TrafficLightCycle(els, time_offset=t["off"]) if t["off"] else TrafficLightCycle(els)
        if not t["act"] and els:
            kw["active"] = False
        light = TrafficLight(t["id"], g_pos(t["pos"]), cyc, **kw)
    if not els:                                  # the constructor switches a light without cycle elements off:
        light.active = bool(t["act"])            # the flag is set through the public setter
    return light


def g_intersection(x):
    from commonroad.scenario.intersection import Intersection, IntersectionIncomingElement
    incs = []
    for i in x["incs"]:
        kw = {}
        for key, arg in (("lan", "incoming_lanelets"), ("r", "successors_right"), ("s", "successors_straight"),
                         ("l", "successors_left")):
            if i[key]:
                kw[arg] = set(i[key])
        if i["lo"]:
            kw["left_of"] = i["lo"]
        incs.append(IntersectionIncomingElement(i["id"], **kw))
    if x["g"]["crossNone"]:
        return Intersection(x["id"], incs)
    return Intersection(x["id"], incs, set(x["cross"]))


def g_planning_problem(p, network):
    from commonroad.planning.goal import GoalRegion
    from commonroad.planning.planning_problem import PlanningProblem
    states, lan = [], {}
    for i, gl in enumerate(p["goals"]):
        lls = [network.find_lanelet_by_id(l) for l in gl["lan"]]
        states.append(g_state(gl["st"], lls))
        if gl["lan"]:
            lan[i] = list(gl["lan"])
    goal = GoalRegion(states) if p["g"]["lanNone"] else GoalRegion(states, lan)
    return PlanningProblem(p["id"], g_state(p["init"]), goal)


def g_location(h):
    from commonroad.common.util import Time
    from commonroad.scenario.scenario import (Environment, GeoTransformation, Location, TimeOfDay, Underground, Weather)
    geo = env = None
    if h["geo"]:
        g = h["geo"][0]
        geo = GeoTransformation(GEO_REF[g["ref"]], num(g["xt"]), num(g["yt"]), num(g["zr"]), num(g["sc"]))
    if h["env"]:
        e = h["env"][0]
        env = Environment(Time(e["hh"], e["mm"]), TimeOfDay[e["tod"]], Weather[e["w"]], Underground[e["u"]])
    return Location(h["gid"], num(h["lat"]), num(h["lon"]), geo, env)


def gamma(desc):
    """-> (scenario, planning problem set, keyword arguments for CommonRoadFileWriter)"""
    use_repo()
    from commonroad.planning.planning_problem import PlanningProblemSet
    from commonroad.scenario.scenario import Scenario, ScenarioID, Tag
    h = desc["hdr"]
    tags = {Tag[t] for t in h["tags"]}
    sid = ScenarioID(country_id=h["cid"])
    if h["g"]["via"] == "scenario":
        sc = Scenario(num(h["dt"]), sid, author=AUTHOR, tags=tags, affiliation=AFFILIATION, source=SOURCE,
                      location=g_location(h))
        wkw = {}
    else:
        sc = Scenario(num(h["dt"]), sid)
        wkw = {"author": AUTHOR, "affiliation": AFFILIATION, "source": SOURCE, "tags": tags, "location": g_location(h)}
    for la in desc["lanelets"]:
        sc.add_objects(g_lanelet(la))
    for s in desc["signs"]:
        sc.add_objects(g_sign(s), set())
    for t in desc["lights"]:
        sc.add_objects(g_light(t), set())
    for x in desc["inters"]:
        sc.add_objects(g_intersection(x))
    for o in desc["obstacles"]:
        sc.add_objects(g_obstacle(o))
    pps = PlanningProblemSet([g_planning_problem(p, sc.lanelet_network) for p in desc["pps"]])
    return sc, pps, wkw


# ======================================================================================================================
# alpha: real objects -> leaves [kind, key, path, value] (public accessors only); mirrors Codec!Leaves
# ======================================================================================================================
class Real(float):
    """marks a real-valued leaf"""


def _exc(ex):
    return "exc:" + type(ex).__name__


def _idstr(ids):
    if ids is None:
        return ""
    return ",".join(str(i) for i in sorted(int(x) for x in ids))


def _namestr(enum_name, members):
    if members is None:
        return ""
    have = {m.name for m in members}
    return ",".join(n for n in tables()["enum_names"][enum_name] if n in have)


def _is_none(x):
    return "1" if x is None else "0"


class _Leaves(list):
    def lf(self, K, Y, P, v):
        self.append([K, Y, P, v])

    def re(self, K, Y, P, v):
        if v is None:
            self.append([K, Y, P, "None"])
        else:
            try:
                self.append([K, Y, P, Real(v)])
            except Exception as ex:
                self.append([K, Y, P, _exc(ex)])

    def xy(self, K, Y, P, p):
        if p is None:
            self.re(K, Y + "/x", P, None)
            self.re(K, Y + "/y", P, None)
        else:
            self.re(K, Y + "/x", P, p[0])
            self.re(K, Y + "/y", P, p[1])


def _shape_kind(sh):
    from commonroad.geometry.shape import Circle, Polygon, Rectangle, ShapeGroup
    if isinstance(sh, Rectangle):
        return "rect"
    if isinstance(sh, Circle):
        return "circle"
    if isinstance(sh, Polygon):
        return "poly"
    if isinstance(sh, ShapeGroup):
        return "group:" + "+".join(_shape_kind(s).split(":")[0] for s in sh.shapes)
    return "other:" + type(sh).__name__


def _ring(poly):
    v = [list(p) for p in poly.vertices]
    if len(v) > 1 and v[0] == v[-1]:
        v = v[:-1]
    return v


def a_simple_shape(L, K, Y, P, sh):
    k = _shape_kind(sh)
    if k == "rect":
        L.re(K, Y, P + ".len", sh.length)
        L.re(K, Y, P + ".wid", sh.width)
        L.re(K, Y, P + ".ori", sh.orientation)
        L.xy(K, Y, P + ".ctr", sh.center)
    elif k == "circle":
        L.re(K, Y, P + ".rad", sh.radius)
        L.xy(K, Y, P + ".ctr", sh.center)
    elif k == "poly":
        ring = _ring(sh)
        L.lf(K, Y, P + ".vtx.n", str(len(ring)))
        for j, p in enumerate(ring, 1):
            L.xy(K, "%s/%d" % (Y, j), P + ".vtx", p)


def a_shape(L, K, Y, P, sh):
    k = _shape_kind(sh)
    L.lf(K, Y, P + ".kind", k)
    if k.startswith("group"):
        for i, part in enumerate(sh.shapes, 1):
            a_simple_shape(L, K, "%s/g%d" % (Y, i), P, part)
    else:
        a_simple_shape(L, K, Y, P, sh)


def a_time(L, K, Y, S, t):
    from commonroad.common.util import Interval
    if isinstance(t, Interval):
        L.lf(K, Y, S + ".time.kind", "interval")
        L.lf(K, Y, S + ".time", "%s..%s" % (_int(t.start), _int(t.end)))
    elif t is None:
        L.lf(K, Y, S + ".time.kind", "None")
    else:
        L.lf(K, Y, S + ".time.kind", "exact")
        L.lf(K, Y, S + ".time", _int(t))


def _int(x):
    try:
        return str(int(x)) if int(x) == x else repr(x)
    except Exception:
        return repr(x)


def a_state(L, K, Y, S, st, lanelet_goal=False):
    import numpy as np
    from commonroad.common.util import Interval
    from commonroad.geometry.shape import Shape
    T = tables()
    a_time(L, K, Y, S, getattr(st, "time_step", None))
    have = set(st.attributes)                    # fields, not computed properties (PMState.orientation, ...)
    for a in T["attr_order"]:
        v = getattr(st, a, None) if a in have else None
        if v is None:
            continue
        P = S + "." + T["attr_short"][a]
        if a == "position" and lanelet_goal:
            L.lf(K, Y, P + ".kind", "lanelets")
        elif isinstance(v, Shape):
            L.lf(K, Y, P + ".kind", "region")
            a_shape(L, K, Y, S + ".region", v)
        elif isinstance(v, Interval):
            L.lf(K, Y, P + ".kind", "interval")
            L.re(K, Y + "/lo", P, v.start)
            L.re(K, Y + "/hi", P, v.end)
        elif a == "position" and isinstance(v, (np.ndarray, list, tuple)):
            L.lf(K, Y, P + ".kind", "exact")
            L.xy(K, Y, P, v)
        elif isinstance(v, (int, float, np.floating, np.integer)):
            L.lf(K, Y, P + ".kind", "exact")
            L.re(K, Y, P, v)
        else:
            L.lf(K, Y, P + ".kind", "other:" + type(v).__name__)


def a_signal(L, K, Y, S, sg):
    a_time(L, K, Y, S, getattr(sg, "time_step", None))
    for slot, short in tables()["signals"]:
        if hasattr(sg, slot):
            v = getattr(sg, slot)
            L.lf(K, Y, S + "." + short, "None" if v is None else str(int(bool(v))))


def a_obstacle(L, o):
    from commonroad.prediction.prediction import SetBasedPrediction, TrajectoryPrediction
    K, Y = "obstacle", str(o.obstacle_id)
    role = o.obstacle_role.value
    L.lf(K, Y, "role", role)
    if role != "phantom":
        L.lf(K, Y, "type", o.obstacle_type.name)
        a_shape(L, K, Y, "shape", o.obstacle_shape)
    if role in ("static", "dynamic"):
        sI, sS = ("staticSignal", "staticSeries") if role == "static" else ("initialSignalState", "signalSeries")
        a_state(L, K, Y, "initialState", o.initial_state)
        iss = o.initial_signal_state
        L.lf(K, Y, sI + ".present", "0" if iss is None else "1")
        if iss is not None:
            a_signal(L, K, Y, sI, iss)
        ser = o.signal_series
        L.lf(K, Y, sS + ".isNone", _is_none(ser))
        L.lf(K, Y, sS + ".n", str(len(ser or [])))
        for i, s in enumerate(ser or [], 1):
            a_signal(L, K, "%s/s%d" % (Y, i), sS, s)
    if role in ("dynamic", "phantom"):
        p = o.prediction
        if isinstance(p, TrajectoryPrediction):
            L.lf(K, Y, "prediction.kind", "traj")
            L.lf(K, Y, "trajectory.t0", _int(p.trajectory.initial_time_step))
            L.lf(K, Y, "trajectory.n", str(len(p.trajectory.state_list)))
            for i, s in enumerate(p.trajectory.state_list, 1):
                a_state(L, K, "%s/t%d" % (Y, i), "trajectory", s)
            a_shape(L, K, Y, "prediction.shape", p.shape)
        elif isinstance(p, SetBasedPrediction):
            L.lf(K, Y, "prediction.kind", "set")
            L.lf(K, Y, "occupancySet.t0", _int(p.initial_time_step))
            L.lf(K, Y, "occupancySet.n", str(len(p.occupancy_set)))
            for i, oc in enumerate(p.occupancy_set, 1):
                a_time(L, K, "%s/o%d" % (Y, i), "occupancySet", oc.time_step)
                a_shape(L, K, "%s/o%d" % (Y, i), "occupancySet.shape", oc.shape)
        else:
            L.lf(K, Y, "prediction.kind", "none" if p is None else "other:" + type(p).__name__)


def a_lanelet(L, la):
    K, Y = "lanelet", str(la.lanelet_id)
    for P, verts, lm in (("leftBound", la.left_vertices, la.line_marking_left_vertices),
                         ("rightBound", la.right_vertices, la.line_marking_right_vertices)):
        L.lf(K, Y, P + ".n", str(len(verts)))
        for j, p in enumerate(verts, 1):
            L.xy(K, "%s/%d" % (Y, j), P, p)
        L.lf(K, Y, P + ".lineMarking", "None" if lm is None else lm.name)
    L.lf(K, Y, "predecessor", _idstr(la.predecessor))
    L.lf(K, Y, "successor", _idstr(la.successor))
    for P, adj, same in (("adjacentLeft", la.adj_left, la.adj_left_same_direction),
                         ("adjacentRight", la.adj_right, la.adj_right_same_direction)):
        L.lf(K, Y, P, "None" if adj is None else str(adj))
        L.lf(K, Y, P + ".drivingDir", "None" if same is None else ("same" if same else "opposite"))
    sl = la.stop_line
    L.lf(K, Y, "stopLine.present", "0" if sl is None else "1")
    if sl is not None:
        has = sl.start is not None and sl.end is not None
        L.lf(K, Y, "stopLine.hasPoints", "1" if has else "0")
        if has:
            L.xy(K, Y + "/s", "stopLine", sl.start)
            L.xy(K, Y + "/e", "stopLine", sl.end)
        L.lf(K, Y, "stopLine.lineMarking", "None" if sl.line_marking is None else sl.line_marking.name)
        L.lf(K, Y, "stopLine.trafficSignRef", _idstr(sl.traffic_sign_ref))
        L.lf(K, Y, "stopLine.trafficSignRef.isNone", _is_none(sl.traffic_sign_ref))
        L.lf(K, Y, "stopLine.trafficLightRef", _idstr(sl.traffic_light_ref))
        L.lf(K, Y, "stopLine.trafficLightRef.isNone", _is_none(sl.traffic_light_ref))
    L.lf(K, Y, "laneletType", _namestr("LaneletType", la.lanelet_type))
    L.lf(K, Y, "userOneWay", _namestr("RoadUser", la.user_one_way))
    L.lf(K, Y, "userBidirectional", _namestr("RoadUser", la.user_bidirectional))
    L.lf(K, Y, "trafficSignRef", _idstr(la.traffic_signs))
    L.lf(K, Y, "trafficLightRef", _idstr(la.traffic_lights))


def a_pos(L, K, Y, pos):
    L.lf(K, Y, "position.present", "0" if pos is None else "1")
    if pos is not None:
        L.xy(K, Y, "position", pos)


def a_sign(L, s):
    K, Y = "trafficSign", str(s.traffic_sign_id)
    L.lf(K, Y, "element.n", str(len(s.traffic_sign_elements)))
    for i, e in enumerate(s.traffic_sign_elements, 1):
        Ye = "%s/e%d" % (Y, i)
        m = e.traffic_sign_element_id
        L.lf(K, Ye, "element.idClass", type(m).__name__)
        L.lf(K, Ye, "element.idName", m.name)
        L.lf(K, Ye, "element.idValue", str(m.value))
        L.lf(K, Ye, "element.additionalValue", "|".join(str(v) for v in e.additional_values))
    a_pos(L, K, Y, s.position)
    L.lf(K, Y, "virtual", "None" if s.virtual is None else str(int(bool(s.virtual))))
    L.lf(K, Y, "firstOccurrence", _idstr(s.first_occurrence))


def a_light(L, t):
    K, Y = "trafficLight", str(t.traffic_light_id)
    cyc = t.traffic_light_cycle
    els = [] if cyc is None or cyc.cycle_elements is None else cyc.cycle_elements
    L.lf(K, Y, "cycle.isNone", _is_none(cyc))           # no cycle == empty cycle with offset 0 (Codec!NoneFlags)
    L.lf(K, Y, "cycle.n", str(len(els)))
    for i, c in enumerate(els, 1):
        L.lf(K, "%s/c%d" % (Y, i), "cycle.color", c.state.name)
        L.lf(K, "%s/c%d" % (Y, i), "cycle.duration", _int(c.duration))
    L.lf(K, Y, "timeOffset", "0" if cyc is None else ("None" if cyc.time_offset is None else _int(cyc.time_offset)))
    a_pos(L, K, Y, t.position)
    L.lf(K, Y, "direction", "None" if t.direction is None else t.direction.name)
    L.lf(K, Y, "active", "None" if t.active is None else str(int(bool(t.active))))


def a_intersection(L, x):
    K, Y = "intersection", str(x.intersection_id)
    L.lf(K, Y, "incoming.n", str(len(x.incomings)))
    for inc in sorted(x.incomings, key=lambda i: i.incoming_id):
        Yi = "%s/%d" % (Y, inc.incoming_id)
        L.lf(K, Yi, "incoming.incomingLanelet", _idstr(inc.incoming_lanelets))
        L.lf(K, Yi, "incoming.successorsRight", _idstr(inc.successors_right))
        L.lf(K, Yi, "incoming.successorsStraight", _idstr(inc.successors_straight))
        L.lf(K, Yi, "incoming.successorsLeft", _idstr(inc.successors_left))
        L.lf(K, Yi, "incoming.isLeftOf", "None" if inc.left_of is None else str(inc.left_of))
    L.lf(K, Y, "crossing", _idstr(x.crossings))


def a_planning_problem(L, p):
    K, Y = "planning", str(p.planning_problem_id)
    a_state(L, K, Y, "initialState", p.initial_state)
    goal = p.goal
    L.lf(K, Y, "goalState.n", str(len(goal.state_list)))
    lan = goal.lanelets_of_goal_position
    for i, st in enumerate(goal.state_list):
        ids = None if lan is None else lan.get(i) if hasattr(lan, "get") else None
        Yg = "%s/g%d" % (Y, i + 1)
        a_state(L, K, Yg, "goalState", st, lanelet_goal=bool(ids))
        L.lf(K, Yg, "goalState.lanelets", _idstr(ids))
    L.lf(K, Y, "goalLanelets.isNone", _is_none(lan))


def a_header(L, sc):
    K, Y = "header", "0"
    L.re(K, Y, "dt", sc.dt)
    L.lf(K, Y, "benchmarkId", str(sc.scenario_id))
    L.lf(K, Y, "author", str(sc.author))
    L.lf(K, Y, "affiliation", str(sc.affiliation))
    L.lf(K, Y, "source", str(sc.source))
    L.lf(K, Y, "tags", "None" if sc.tags is None else _namestr("Tag", sc.tags))
    loc = sc.location
    if loc is None:
        L.lf(K, Y, "location.geoNameId", "None")
        L.re(K, Y, "location.gpsLatitude", None)
        L.re(K, Y, "location.gpsLongitude", None)
        L.lf(K, Y, "geo.present", "0")
        L.lf(K, Y, "env.present", "0")
        return
    L.lf(K, Y, "location.geoNameId", _int(loc.geo_name_id))
    L.re(K, Y, "location.gpsLatitude", loc.gps_latitude)
    L.re(K, Y, "location.gpsLongitude", loc.gps_longitude)
    g = loc.geo_transformation
    L.lf(K, Y, "geo.present", "0" if g is None else "1")
    if g is not None:
        ref = [k for k, v in GEO_REF.items() if v == g.geo_reference or (v is None and g.geo_reference == 0)]
        L.lf(K, Y, "geo.reference", ref[0] if ref else "other:" + repr(g.geo_reference)[:30])
        L.re(K, Y, "geo.xTranslation", g.x_translation)
        L.re(K, Y, "geo.yTranslation", g.y_translation)
        L.re(K, Y, "geo.zRotation", g.z_rotation)
        L.re(K, Y, "geo.scaling", g.scaling)
    e = loc.environment
    L.lf(K, Y, "env.present", "0" if e is None else "1")
    if e is not None:
        L.lf(K, Y, "env.time", "None" if e.time is None else "%s:%s" % (_int(e.time.hours), _int(e.time.minutes)))
        L.lf(K, Y, "env.timeOfDay", "None" if e.time_of_day is None else e.time_of_day.name)
        L.lf(K, Y, "env.weather", "None" if e.weather is None else e.weather.name)
        L.lf(K, Y, "env.underground", "None" if e.underground is None else e.underground.name)


def alpha(sc, pps, header_from=None):
    """header_from: metadata the writer was given directly (via = "writer") is described by these writer arguments"""
    L = _Leaves()
    a_header(L, header_from if header_from is not None else sc)
    net = sc.lanelet_network
    for la in sorted(net.lanelets, key=lambda x: x.lanelet_id):
        a_lanelet(L, la)
    for s in sorted(net.traffic_signs, key=lambda x: x.traffic_sign_id):
        a_sign(L, s)
    for t in sorted(net.traffic_lights, key=lambda x: x.traffic_light_id):
        a_light(L, t)
    for x in sorted(net.intersections, key=lambda x: x.intersection_id):
        a_intersection(L, x)
    for o in sorted(sc.obstacles, key=lambda x: x.obstacle_id):
        a_obstacle(L, o)
    for pid in sorted(pps.planning_problem_dict):
        a_planning_problem(L, pps.planning_problem_dict[pid])
    return L


# ---- projection ------------------------------------------------------------------------------------------------------
def _bits(x):
    return struct.pack("<d", float(x))


def closeness(o, b, d):
    import math
    if _bits(o) == _bits(b):
        return "re:exact"
    if not (math.isfinite(o) and math.isfinite(b)):
        return "re:out_of_tol"
    return "re:within_tol" if abs(Fraction(float(b)) - Fraction(float(o))) < Fraction(1, 10 ** d) else "re:out_of_tol"


def as_orig(leaves):
    return [[K, Y, P, "r" if isinstance(v, Real) else v] for K, Y, P, v in leaves]


def project(orig, back, d):
    ref = {(K, Y, P): v for K, Y, P, v in orig if isinstance(v, Real)}
    out = []
    for K, Y, P, v in back:
        if isinstance(v, Real):
            o = ref.get((K, Y, P))
            if o is None:
                v = "re:zero" if float(v) == 0.0 else "re:other"
            else:
                v = closeness(float(o), float(v), d)
        out.append([K, Y, P, v])
    return out


# ======================================================================================================================
# executing one case
# ======================================================================================================================
_tmp = None


def _tmpdir():
    """per-process scratch directory under /verif/out, removed at exit"""
    global _tmp
    if _tmp is None or not os.path.isdir(_tmp):
        import atexit
        from multiprocessing import util
        base = os.path.join(tlc.OUT, "codec_tmp")
        os.makedirs(base, exist_ok=True)
        _tmp = tempfile.mkdtemp(prefix="p%d_" % os.getpid(), dir=base)
        atexit.register(shutil.rmtree, _tmp, True)                                    # main process
        util.Finalize(None, shutil.rmtree, args=(_tmp, True), exitpriority=10)         # pool workers skip atexit
    return _tmp


def _quiet():
    import logging
    warnings.simplefilter("ignore")
    logging.disable(logging.CRITICAL)


class _WriterHeader:
    """what the writer was told about the scenario when the metadata is passed to the writer, not stored in the scenario"""

    def __init__(self, sc, wkw):
        self.dt, self.scenario_id = sc.dt, sc.scenario_id
        self.author, self.affiliation, self.source = wkw["author"], wkw["affiliation"], wkw["source"]
        self.tags, self.location = wkw["tags"], wkw["location"]


def _where(ex):
    """exception type @ innermost function of the library (qualified name) - the abstract cause of a crash"""
    tb, best = ex.__traceback__, None
    while tb is not None:
        code = tb.tb_frame.f_code
        if "/commonroad/" in code.co_filename:
            best = getattr(code, "co_qualname", code.co_name)
        tb = tb.tb_next
    return "%s@%s" % (type(ex).__name__, best) if best else type(ex).__name__


TRANSLATION = (3.0, -2.0)          # lattice vector of the edit "translate"


_NUM_KEYS = {"l", "w", "o", "cx", "cy", "r", "s", "x", "y", "lo", "hi", "xt", "yt", "zr", "sc", "lat", "lon", "dt", "geo"}


def near_twin(desc):
    """the descriptor with every number token replaced by its Codec!NearPairs partner (written first in route "twin")"""
    swap = {}
    for a, b in tables()["near"]:
        swap[a], swap[b] = b, a

    def walk(x, key=None):
        if isinstance(x, dict):
            return {k: walk(v, k) for k, v in x.items()}
        if isinstance(x, list):
            return [walk(v, key) for v in x]
        if isinstance(x, str) and key in _NUM_KEYS:
            return swap.get(x, x)
        return x
    return walk(desc)


def apply_edit(sc, pps, desc, edited, edit):
    """Edit the real objects IN PLACE so that they become what `edited` (= Codec!EditOf(desc, reuse), printed by TLC)
    describes: objects whose id is new are built and added, objects whose id vanished are removed, a changed traffic light
    offset is set; "translate" moves the lanelet network.  Trace_Codec checks alpha(edited objects) = Leaves(EditOf)."""
    import numpy as np
    if edit in ("none", "retry"):
        return
    if edit == "translate":
        sc.lanelet_network.translate_rotate(np.array(TRANSLATION), 0.0)
        return
    def ids(lst):
        return {x["id"] for x in lst}
    for key, build, add in (("lanelets", g_lanelet, lambda o: sc.add_objects(o)),
                            ("signs", g_sign, lambda o: sc.add_objects(o, set())),
                            ("lights", g_light, lambda o: sc.add_objects(o, set())),
                            ("inters", g_intersection, lambda o: sc.add_objects(o)),
                            ("obstacles", g_obstacle, lambda o: sc.add_objects(o))):
        for x in edited[key]:
            if x["id"] not in ids(desc[key]):
                add(build(x))
    for o in desc["obstacles"]:
        if o["id"] not in ids(edited["obstacles"]):
            sc.remove_obstacle(sc.obstacle_by_id(o["id"]))
    net = sc.lanelet_network                      # removals go through the Scenario API: it cleans the references in place
    for x in desc["signs"]:
        if x["id"] not in ids(edited["signs"]):
            sc.remove_traffic_sign(net.find_traffic_sign_by_id(x["id"]))
    for x in desc["lights"]:
        if x["id"] not in ids(edited["lights"]):
            sc.remove_traffic_light(net.find_traffic_light_by_id(x["id"]))
    for x in desc["lanelets"]:
        if x["id"] not in ids(edited["lanelets"]):
            sc.remove_lanelet(net.find_lanelet_by_id(x["id"]))
    old = {t["id"]: t for t in desc["lights"]}
    for t in edited["lights"]:
        if t["id"] in old and t["off"] != old[t["id"]]["off"]:
            light = [x for x in sc.lanelet_network.traffic_lights if x.traffic_light_id == t["id"]][0]
            light.traffic_light_cycle.time_offset = t["off"]
    for q in edited["pps"]:
        if q["id"] not in ids(desc["pps"]):
            pps.add_planning_problem(g_planning_problem(q, sc.lanelet_network))


def roundtrip(desc, d, fmt, reuse=None, edited=None):
    import contextlib
    import io
    with contextlib.redirect_stdout(io.StringIO()):         # the writers print "Replace file ..." when they overwrite
        return _roundtrip(desc, d, fmt, reuse, edited)


def _roundtrip(desc, d, fmt, reuse=None, edited=None):
    """-> dict(orig=leaves of the objects at the time of the last write, back=leaves read back or None,
               exc="" | "write" | "read", why=exception summary, data=written bytes or None).
    reuse = [{"route", "edit", "w2", "first"}]; route "writer": write#1, edit the objects in place, write#2 with the SAME
    writer object (w2 = "scenario": write_scenario_to_file), write#2 is read back; route "reader": write#1, a reader object
    is bound to the path and opened once, the edited objects are written to the same path, the SAME reader opens again.  Exceptions of gamma / alpha / apply_edit propagate (driver bugs)."""
    use_repo()
    _quiet()
    from commonroad.common.file_reader import CommonRoadFileReader
    from commonroad.common.file_writer import CommonRoadFileWriter, OverwriteExistingFile
    from commonroad.common.util import FileFormat
    sc, pps, wkw = gamma(desc)
    ff = FileFormat.XML if fmt == "xml" else FileFormat.PROTOBUF
    ext = ".xml" if fmt == "xml" else ".pb"
    path, path1 = os.path.join(_tmpdir(), "case" + ext), os.path.join(_tmpdir(), "first" + ext)
    for p_ in (path, path1):
        if os.path.exists(p_):
            os.remove(p_)
    res = {"orig": None, "back": None, "exc": "", "why": "", "data": None}
    try:
        route = reuse[0]["route"] if reuse else ""
        header = lambda: _WriterHeader(sc, wkw) if wkw else None
        new_writer = lambda: CommonRoadFileWriter(sc, pps, decimal_precision=d, file_format=ff, **wkw)
        reader = None

        def early(kind, ex):
            """a write / read that raises BEFORE the edit: the event still describes the edited objects"""
            if reuse:
                apply_edit(sc, pps, desc, edited[0], reuse[0]["edit"])
            res["orig"] = alpha(sc, pps, header_from=header())
            res["exc"], res["why"] = kind, _where(ex)
            return res
        if route == "twin":                               # another scenario, another writer object, same process
            sct, ppst, wkwt = gamma(near_twin(desc))
            try:
                CommonRoadFileWriter(sct, ppst, decimal_precision=d, file_format=ff, **wkwt).write_to_file(
                    path1, OverwriteExistingFile.ALWAYS)
            except Exception as ex:
                return early("write", ex)
        retry = bool(reuse) and reuse[0]["edit"] == "retry"
        if retry:                                         # write#1 goes into a directory that does not exist yet
            missing = os.path.join(_tmpdir(), "not_yet_there")
            shutil.rmtree(missing, ignore_errors=True)
            path = os.path.join(missing, "case" + ext)
        try:
            writer = new_writer()
            if retry:
                try:
                    writer.write_to_file(path, OverwriteExistingFile.ALWAYS)
                except Exception:
                    pass                                  # expected (any exception class); the retry below must be clean
                os.makedirs(missing, exist_ok=True)
            elif route == "writer":
                writer.write_to_file(path1, OverwriteExistingFile.ALWAYS)
            elif route == "reader":                       # write#1 goes to the path the reader object is bound to
                writer.write_to_file(path, OverwriteExistingFile.ALWAYS)
        except Exception as ex:
            return early("write", ex)
        if route == "reader":
            try:
                reader = CommonRoadFileReader(path, file_format=ff)
                if reuse[0]["first"] == "open":
                    reader.open()
                else:
                    reader.open_lanelet_network()
            except Exception as ex:
                return early("read", ex)
            writer = new_writer()                         # the rewrite is done by a fresh writer: only the READER is reused
        if reuse:
            apply_edit(sc, pps, desc, edited[0], reuse[0]["edit"])
        res["orig"] = alpha(sc, pps, header_from=header())
        try:
            if route == "reader" and reuse[0]["edit"] == "none":
                pass                                      # nothing rewritten: the second open() must agree with the file
            elif reuse and reuse[0]["w2"] == "scenario":
                writer.write_scenario_to_file(path, OverwriteExistingFile.ALWAYS)
            else:
                writer.write_to_file(path, OverwriteExistingFile.ALWAYS)
            with open(path, "rb") as f:
                res["data"] = f.read()
        except Exception as ex:
            res["exc"], res["why"] = "write", _where(ex)
            return res
        try:
            sc2, pps2 = (reader if reader is not None else CommonRoadFileReader(path, file_format=ff)).open()
        except Exception as ex:
            res["exc"], res["why"] = "read", _where(ex)
            return res
        res["back"] = alpha(sc2, pps2)
        return res
    finally:
        for p_ in (path, path1):
            if os.path.exists(p_):
                os.remove(p_)
        shutil.rmtree(os.path.join(_tmpdir(), "not_yet_there"), ignore_errors=True)


def roundtrip_event(case, fmt):
    desc, d, comp = case["desc"], case["d"], case["comp"]
    reuse = case.get("reuse") or []
    r = roundtrip(desc, d, fmt, reuse, case.get("edited"))
    back = project(r["orig"], r["back"], d) if r["back"] is not None else []
    sig = fmt + ("@reused-%s" % reuse[0]["route"] if reuse else "")   # the clause names the leaf; sig the setting ...
    if r["exc"]:
        sig += "/" + r["why"]                                     # ... and the cause of a crash
    return {"op": "xml_roundtrip" if fmt == "xml" else "pb_roundtrip", "sig": sig, "d": d, "desc": desc, "reuse": reuse,
            "orig": as_orig(r["orig"]), "back": back, "exc": r["exc"]}


def xsd_case_event(case):
    """None when the writer produced no document (a crash of the writer is C01's clause Total/write, not C03's)"""
    reuse = case.get("reuse") or []
    r = roundtrip(case["desc"], case["d"], "xml", reuse, case.get("edited"))
    if r["exc"] == "write" or r.get("data") is None:       # (also: the run stopped before the document to validate was written)
        return None
    sig = "xsd" + ("@reused-%s" % reuse[0]["route"] if reuse else "")
    ev = xsd_event(r["data"], sig, "ok" if r["exc"] == "" else "exc")
    if r["exc"]:
        ev["sig"] = "%s/%s" % (sig, r["why"])
    return ev


# ======================================================================================================================
# model checking, case generation (shared by the three drivers)
# ======================================================================================================================
def _parallel(jobs):
    import concurrent.futures as cf
    with cf.ThreadPoolExecutor(max_workers=len(jobs)) as ex:
        return [f.result() for f in [ex.submit(j) for j in jobs]]


def model_check(ctx, schema_only=False):
    # DEV_*: the contract is not vacuous - the implementation models of two repaired defects break Impl => Contract
    jobs = [lambda: ctx.mc_expect("MC_Codec", "DEV_Codec_1.cfg", "LawImplConforms", workers=1),    # XML writer without <horn>
            lambda: ctx.mc_expect("MC_Codec", "DEV_Codec_2.cfg", "LawImplConforms", workers=1)]    # reader stops at first unset
    jobs += [(lambda c=c: ctx.mc("MC_Codec", "MC_Codec_%s.cfg" % c, coverage=False, workers=8,
                                 extra=("-seed", str(ctx.seed + 1)))) for c in RUNS + ["mixed", "mixedx"]]
    _parallel(jobs)


def gen_cases(ctx, fmt, quota=False, full_files_only=False):
    """All cases of the per-component GEN runs the spec declares expressible in `fmt`, plus the seeded mixed draw."""
    shutil.rmtree(os.path.join(tlc.OUT, "codec_tmp"), ignore_errors=True)       # leftovers of an interrupted run
    suffix = "_t" if ctx.thorough else ""
    cfgs = ["GEN_Codec_%s.cfg" % c for c in RUNS if c != "numbers"] + ["GEN_Codec_numbers%s.cfg" % suffix,
                                                                            "GEN_Codec_mixed%s%s.cfg" % ("x" if fmt == "xml" else "", suffix)]
    outs = _parallel([(lambda cfg=cfg: tlc.generate("MC_Codec", cfg, "%s_%s" % (ctx.prop, cfg.replace(".cfg", "")),
                                                    extra=("-seed", str(ctx.seed + 1)))) for cfg in cfgs])
    cases, table = [], None
    for cfg, (cs, r) in zip(cfgs, outs):
        ctx.mc_runs.append({"module": "MC_Codec", "cfg": cfg, "distinct_states": r["distinct"],
                            "states_generated": r["generated"], "depth": r["depth"], "wall_s": r["wall_s"],
                            "verdict": "generated %d cases" % len(cs)})
        table = table or tables_from_output(r["out"])
        cases += cs
    save_tables(table)
    check_tables(table, ctx.notes)
    total = len(cases)
    cases = [c for c in cases if c[fmt]]
    if full_files_only:     # C03: write_scenario_to_file writes no planning problem - outside the schema by construction
        cases = [c for c in cases if not (c["reuse"] and c["reuse"][0]["w2"] == "scenario")]
    ctx.extra["cases_with_reused_writer"] = sum(1 for c in cases if c["reuse"])
    if quota:          # cases that trigger a listed known finding only inside the small family the spec designates
        n = len(cases)
        cases = [c for c in cases if c["q"]]
        ctx.extra["cases_outside_known_finding_quota"] = n - len(cases)
    ctx.extra["cases_generated"] = total
    ctx.extra["cases_expressible_in_" + fmt] = len(cases)
    by = {}
    for c in cases:
        by[c["comp"]] = by.get(c["comp"], 0) + 1
    ctx.extra["cases_per_component"] = by
    return cases


def nontrivial(case):
    return json.dumps([case["d"], case["desc"], case.get("reuse") or []], sort_keys=True)


_NOT_CARRIED_HINT = ("isNone", "firstOccurrence", "element.id", "static", "prediction.shape")


def corrupt_roundtrip(trace, rng):
    """alter ONE read-back leaf (value of a discrete leaf / closeness class of a real one) or the outcome"""
    e = trace["ev"][0]
    if e["exc"] or not e["back"]:
        return None
    cand = [i for i, l in enumerate(e["back"]) if not any(h in l[2] for h in _NOT_CARRIED_HINT)]
    i = rng.choice(cand)
    l = e["back"][i]
    how = rng.choice(["value", "drop"])
    if how == "drop":
        del e["back"][i]
    elif l[3].startswith("re:"):
        l[3] = "re:out_of_tol"
    else:
        l[3] = l[3] + "~"
    return trace


def corrupt_xsd(trace, rng):
    e = trace["ev"][0]
    if e["exc"] or e["lxml"] != "valid":
        return None
    how = rng.choice(["order", "lexical", "ref", "reader"])
    if how == "order":
        cand = [x for x in e["els"] if x["p"][-1] in ("rectangle", "point", "lanelet", "cycleElement") and len(x["ch"]) >= 2]
        if not cand:
            return None
        x = rng.choice(cand)
        x["ch"][0], x["ch"][1] = x["ch"][1], x["ch"][0]
        e["lxml"] = "invalid"
    elif how == "lexical":
        cand = [x for x in e["els"] if x["tc"].startswith("dec")]
        if not cand:
            return None
        rng.choice(cand)["tc"] = "exp"
        e["lxml"] = "invalid"
    elif how == "ref":
        e["refs"].append("98")
        e["lxml"] = "invalid"
    else:
        e["reader"] = "exc"
    return trace
