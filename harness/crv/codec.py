"""Shared driver code for C01 / C02 / C03 (spec: Codec.tla, Xsd2020a.tla; trace spec: Trace_Codec.tla).

  gamma   descriptor (record of tokens, printed by MC_Codec) -> Scenario + PlanningProblemSet, PUBLIC constructors only
  alpha   Scenario + PlanningProblemSet -> LEAVES  [kind, key, path, value]  through public accessors only
  project read-back leaves with every real replaced by its closeness class w.r.t. the original leaf
          ("exact" bit identical / "within_tol" |x'-x| < 10^-d, exact Fraction arithmetic / "out_of_tol";
           "is:zero" / "is:other" when the original has no such leaf)
  xsd_event  written XML bytes -> element entries for Xsd2020a!DocRule + lxml's verdict (cross-check only)

Nothing here judges: expected read-back leaves, carried fields, expressibility and schema verdicts are computed by TLC.
The enumeration / number-token tables of Codec.tla are the source of truth: MC_Codec prints them (TABLE line) and
`check_tables` refuses to run when the Python value tables below disagree.
"""
import json
import os
import re
import shutil
import struct
import sys
import tempfile
import warnings
from fractions import Fraction

from crv import tlc
from crv.core import use_repo

# ======================================================================================================================
# XML abstraction (C03)
# ======================================================================================================================
_RE_INT = re.compile(r"[+-]?\d+")
_RE_DEC = re.compile(r"[+-]?(\d+\.\d*|\.\d+)")
_RE_EXP = re.compile(r"[+-]?(\d+(\.\d*)?|\.\d+)[eE][+-]?\d+")
_RE_TIME = re.compile(r"\d\d:\d\d:\d\d(\.\d+)?(Z|[+-]\d\d:\d\d)?")
_RE_DATE = re.compile(r"-?\d{4,}-\d\d-\d\d(Z|[+-]\d\d:\d\d)?")


def lex(text):
    """(lexical class, kept text) of a text, see Xsd2020a.tla header."""
    raw = text or ""
    t = raw.strip(" \t\r\n")
    if t == "":
        return "empty", ""
    if _RE_INT.fullmatch(t):
        v = int(t)
        tc = "int+" if v > 0 else ("int0" if v == 0 else "int-")
        return tc, t[:20]               # kept: trafficSignID values such as "274" are integers lexically
    if _RE_DEC.fullmatch(t):
        v = Fraction(t)
        return ("dec+" if v > 0 else ("dec0" if v == 0 else "dec-")), ""
    if _RE_EXP.fullmatch(t):
        return "exp", ""
    low = t.lower().lstrip("+-")
    if low in ("inf", "infinity"):
        return "inf", ""
    if low == "nan":
        return "nan", ""
    if t in ("true", "false"):
        return "bool", t
    if _RE_TIME.fullmatch(t):
        return "time", ""
    if _RE_DATE.fullmatch(t):
        return "date", ""
    return "other", raw[:80]


_schema = None


def _get_schema():
    global _schema
    if _schema is None:
        from lxml import etree
        from crv import core
        p = os.path.join(core.REPO, "commonroad", "scenario_definition", "xml_definition_files",
                         "XML_commonRoad_XSD.xsd")
        _schema = etree.XMLSchema(etree.parse(p))
    return _schema


def _canon_int(t):
    t = (t or "").strip()
    return str(int(t)) if _RE_INT.fullmatch(t) else t


def abstract_xml(data):
    """bytes -> (element entries in document order, identical entries merged; ids; refs; lxml verdict)."""
    from lxml import etree
    root = etree.fromstring(data)
    els, seen, ids, refs = [], set(), [], []

    def walk(el, path):
        if not isinstance(el.tag, str):
            return
        p = path + [str(el.tag)]
        kids = [c for c in el if isinstance(c.tag, str)]
        if kids:
            tc, tx = "", ""
        else:
            tc, tx = lex(el.text)
        at = []
        for k, v in el.attrib.items():
            c, x = lex(v)
            at.append([str(k), c, x])
            if k == "id":
                ids.append([p, _canon_int(v)])
            if k == "ref":
                refs.append(_canon_int(v))
        ent = {"p": p, "ch": [str(c.tag) for c in kids], "tc": tc, "tx": tx, "at": at}
        key = json.dumps(ent, sort_keys=True)
        if key not in seen:
            seen.add(key)
            els.append(ent)
        for c in kids:
            walk(c, p)

    walk(root, [])
    sch = _get_schema()
    verdict = "valid" if sch.validate(root) else "invalid"
    detail = "" if verdict == "valid" else str(sch.error_log[0].message)[:200]
    return els, ids, refs, verdict, detail


def xsd_event(data, sig, reader):
    els, ids, refs, verdict, detail = abstract_xml(data)
    return {"op": "xsd", "sig": sig, "exc": "", "els": els, "ids": ids, "refs": refs, "lxml": verdict, "detail": detail,
            "reader": reader}
