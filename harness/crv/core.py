"""Generic check driver: model-check the spec, get cases out of TLC, execute them on the real code,
validate the recorded traces with TLC, classify rejections, write evidence.

A property module (crv.props.cXX) provides:

  PROPERTY   = "C17"
  MODULES    = ["TrafficLight", "MC_TrafficLight", "Trace_TrafficLight"]     (SANY-parsed)
  TRACE      = ("Trace_TrafficLight", "Trace_TrafficLight.cfg")
  def model_check(ctx)          -> runs ctx.mc(...) / ctx.mc_expect(...)  (design-level half)
  def cases(ctx)                -> list of JSON-able case dicts (TLC-generated + seeded random)
  def execute(case)             -> {"ev": [event, ...]}  executed against the real code (VERIF_REPO)
  def corrupt(trace)            -> a corrupted copy of an accepted trace that must be rejected (binding demo) or None
  def nontrivial(case)          -> key (hashable) if the case is non-trivial else None
  RULE / ASSUMPTIONS            -> evidence text

Events are dicts of ints / strings / lists / dicts only (TLC's JSON reader has no null and no floats).
Each event may carry "sig": a short abstract description of the operation shape used for violation signatures.
"""
import concurrent.futures as cf
import contextlib
import io
import hashlib
import importlib
import json
import os
import random
import sys
import time
import traceback

from . import tlc
from .tlc import MachineryError, OUT, VERIF

REPO = os.environ.get("VERIF_REPO", "/repo")


def use_repo():
    """Make `import commonroad` resolve to the tree under verification (working tree, no build step)."""
    if sys.path[0] != REPO:
        sys.path.insert(0, REPO)
    os.environ.setdefault("MPLBACKEND", "Agg")


def check_jsonable(x, path="$"):
    if isinstance(x, bool) or isinstance(x, int):
        if isinstance(x, int) and not isinstance(x, bool) and abs(x) >= 2 ** 31:
            raise MachineryError("integer out of TLC range at %s: %r" % (path, x))
        return
    if isinstance(x, str):
        return
    if isinstance(x, (list, tuple)):
        for i, y in enumerate(x):
            check_jsonable(y, "%s[%d]" % (path, i))
        return
    if isinstance(x, dict):
        for k, y in x.items():
            if not isinstance(k, str):
                raise MachineryError("non-string key at %s: %r" % (path, k))
            check_jsonable(y, path + "." + k)
        return
    raise MachineryError("value not representable for TLC at %s: %r (%s)" % (path, x, type(x).__name__))


class Ctx:
    def __init__(self, prop, tier, seed):
        self.prop, self.tier, self.seed = prop, tier, seed
        self.thorough = tier == "thorough"
        self.rng = random.Random(seed)
        self.mc_runs = []
        self.states = 0
        self.transitions = 0
        self.notes = []
        self.extra = {}
        self.t0 = time.time()

    # ---- design-level half -------------------------------------------------------------------
    def mc(self, module, cfg, **kw):
        r = tlc.model_check(module, cfg, "%s_%s" % (self.prop, cfg.replace(".cfg", "")), **kw)
        self._acc(r, "holds")
        return r

    def mc_expect(self, module, cfg, name=None, **kw):
        r = tlc.expect_violation(module, cfg, "%s_%s" % (self.prop, cfg.replace(".cfg", "")), name, **kw)
        self._acc(r, "violated:%s (expected: deviation constant documents a finding / fixed defect)" % r["violated"],
                  count=False)
        return r

    def _acc(self, r, verdict, count=True):
        if count:
            self.states += r["distinct"]
            self.transitions += r["generated"]
        d = {"module": r["module"], "cfg": r["cfg"], "distinct_states": r["distinct"],
             "states_generated": r["generated"], "depth": r["depth"], "wall_s": r["wall_s"], "verdict": verdict}
        if "coverage" in r:
            d["action_coverage"] = r["coverage"]
        self.mc_runs.append(d)

    def gen(self, module, cfg, **kw):
        cases, r = tlc.generate(module, cfg, "%s_%s" % (self.prop, cfg.replace(".cfg", "")), **kw)
        self.mc_runs.append({"module": module, "cfg": cfg, "distinct_states": r["distinct"],
                             "states_generated": r["generated"], "depth": r["depth"], "wall_s": r["wall_s"],
                             "verdict": "generated %d cases" % len(cases)})
        return cases


def _exec_chunk(args):
    modname, chunk = args
    use_repo()
    mod = importlib.import_module(modname)
    out = []
    for idx, case in chunk:
        try:
            with contextlib.redirect_stdout(io.StringIO()):      # the library prints progress messages
                tr = mod.execute(case)
            for e in tr["ev"]:
                check_jsonable(e)
        except MachineryError as ex:
            tr = {"ev": [], "machinery": str(ex)}
        except Exception:
            tr = {"ev": [], "machinery": "driver crashed on case %r:\n%s" % (case, traceback.format_exc())}
        out.append((idx, tr))
    return out


def execute_all(modname, cases, procs=16):
    idx = list(enumerate(cases))
    n = max(1, min(procs * 8, len(idx) // 20 + 1))
    chunks = [idx[i::n] for i in range(n)]
    res = [None] * len(cases)
    if len(cases) < 40 or procs == 1:
        for c in chunks:
            for i, tr in _exec_chunk((modname, c)):
                res[i] = tr
    else:
        with cf.ProcessPoolExecutor(max_workers=procs) as ex:
            for part in ex.map(_exec_chunk, [(modname, c) for c in chunks]):
                for i, tr in part:
                    res[i] = tr
    for i, tr in enumerate(res):
        if tr.get("machinery"):
            raise MachineryError(tr["machinery"])
    return res


def _validate_shard(args):
    trace_mod, cfg, path, tag, n_ev, n_tr = args
    return tlc.validate(trace_mod, cfg, path, tag, n_ev, n_tr)


def validate_all(prop, trace, traces, max_events=25000, jvms=10):
    """Shard traces into files, validate each shard with one TLC run (workers 1). Returns rejects as
    (trace_index0, pos1, clause) and the total number of TLC states explored."""
    trace_mod, cfg = trace
    d = os.path.join(OUT, "traces", prop)
    os.makedirs(d, exist_ok=True)
    for f in os.listdir(d):
        os.remove(os.path.join(d, f))
    total_ev = sum(len(t["ev"]) for t in traces)
    max_events = max(1500, min(max_events, total_ev // (2 * jvms) + 1))     # enough shards to keep all JVMs busy
    shards, cur, cur_ev = [], [], 0
    for i, tr in enumerate(traces):
        cur.append(i)
        cur_ev += len(tr["ev"])
        if cur_ev >= max_events:
            shards.append(cur)
            cur, cur_ev = [], 0
    if cur:
        shards.append(cur)
    jobs = []
    for s, idxs in enumerate(shards):
        path = os.path.join(d, "shard%04d.ndjson" % s)
        n_ev = 0
        with open(path, "w") as f:
            for i in idxs:
                f.write(json.dumps({k: v for k, v in traces[i].items() if k != "machinery"}, separators=(",", ":")) + "\n")
                n_ev += len(traces[i]["ev"])
        jobs.append((trace_mod, cfg, path, "%s_%04d" % (prop, s), n_ev, len(idxs)))
    rejects, states = [], 0
    with cf.ThreadPoolExecutor(max_workers=jvms) as ex:
        for (idxs, (rej, r)) in zip(shards, ex.map(_validate_shard, jobs)):
            states += r["distinct"]
            for (t1, pos, clause) in rej:
                rejects.append((idxs[t1 - 1], pos, clause))
    return rejects, states


def load_known():
    p = os.path.join(VERIF, "known_findings.json")
    if not os.path.exists(p):
        return {"findings": [], "fixed": []}
    with open(p) as f:
        return json.load(f)


def signature(prop, clause, ev):
    return "%s|%s|%s" % (prop, clause, ev.get("sig", ev.get("op", "?")))


def run_check(prop, tier, seed, replay=None):
    t0 = time.time()
    modname = "crv.props." + prop.lower()
    mod = importlib.import_module(modname)
    ctx = Ctx(prop, tier, seed)
    os.makedirs(OUT, exist_ok=True)
    if replay:
        with open(replay) as f:
            rp = json.load(f)
        cases = [rp["case"]]
    else:
        tlc.sany(mod.MODULES)
        mod.model_check(ctx)
        cases = mod.cases(ctx)
    traces = execute_all(modname, cases)
    n_events = sum(len(t["ev"]) for t in traces)
    rejects, vstates = validate_all(prop, mod.TRACE, traces)

    known = load_known()
    kf = [k for k in known.get("findings", []) if k["property"] == prop]
    import re
    by_sig = {}
    beyond = {}
    machinery = []
    for (ti, pos, clause) in rejects:
        ev = traces[ti]["ev"][pos - 1]
        if clause.startswith("machinery/") or clause.startswith("driver/"):
            machinery.append((ti, pos, clause, ev))
            continue
        owner = clause.split(".")[0]
        sig = signature(owner, clause, ev)
        if not re.fullmatch(r"C\d{2,3}", owner):
            # clause of a behaviour the specification covers beyond the listed properties (prefix e.g. "X."):
            # reported and recorded in the evidence, never a VIOLATION of a listed property
            beyond.setdefault(sig, []).append((ti, pos, clause, ev))
            continue
        by_sig.setdefault(sig, []).append((ti, pos, clause, ev))
    if machinery:
        ti, pos, clause, ev = machinery[0]
        raise MachineryError("trace spec reported %s at event %r (case %r)" % (clause, ev, cases[ti]))

    for sig, hits in sorted(beyond.items()):
        print("BEYOND-LIST-FINDING %s hits=%d event=%s" % (sig, len(hits), json.dumps(hits[0][3])[:300]))
    ctx.extra["beyond_list_findings"] = [{"signature": k, "hits": len(v)} for k, v in sorted(beyond.items())]
    viol_dir = os.path.join(OUT, "violations", prop)
    os.makedirs(viol_dir, exist_ok=True)
    if not replay:
        for f in os.listdir(viol_dir):              # replay files of earlier runs would be misleading
            os.remove(os.path.join(viol_dir, f))
    n_viol, known_hit, viol_list = 0, [], []
    printed_known = set()
    for sig, hits in sorted(by_sig.items()):
        owner, clause, shape = sig.split("|", 2)
        match = None
        for k in known.get("findings", []):
            if k["property"] == owner and k["clause"] == clause and re.fullmatch(k["sig"], shape):
                match = k
                break
        ti, pos, clause, ev = hits[0]
        if match:
            known_hit.append({"id": match.get("id"), "signature": sig, "hits": len(hits)})
            if match.get("id") not in printed_known:
                printed_known.add(match.get("id"))
                print("KNOWN-FINDING: property=%s %s [id %s]" % (owner, match["what"], match.get("id")))
            continue
        h = hashlib.sha1(sig.encode()).hexdigest()[:12]
        path = os.path.join(viol_dir, h + ".json")
        with open(path, "w") as f:
            json.dump({"property": owner, "signature": sig, "clause": clause, "position": pos, "event": ev,
                       "case": cases[ti], "trace": traces[ti]["ev"][:pos], "hits": len(hits),
                       "replay_cmd": "bin/check %s --replay %s" % (prop, path)}, f, indent=1)
        n_viol += 1
        viol_list.append({"signature": sig, "hits": len(hits), "replay": path})
        print("VIOLATION property=%s replay=%s" % (owner, path))
        print("  clause=%s sig=%s hits=%d event=%s" % (clause, shape, len(hits), json.dumps(ev)[:400]))
    # a known finding that no longer shows is reported (informational), never an error
    for k in kf:
        if not any(h["id"] == k.get("id") for h in known_hit) and not replay:
            ctx.notes.append("known finding %s not observed in this run" % k.get("id"))

    # ---- binding demonstration: corrupted traces must be rejected ----------------------------
    binding = None
    if not replay and hasattr(mod, "corrupt"):
        rejected_idx = {ti for (ti, _, _) in rejects}
        good = [i for i in range(len(traces)) if i not in rejected_idx and traces[i]["ev"]]
        ctx.rng.shuffle(good)
        bad = []
        for i in good[:40]:
            c = mod.corrupt(json.loads(json.dumps(traces[i])), ctx.rng)
            if c is not None:
                bad.append(c)
        if bad:
            rej2, _ = validate_all(prop + "_binding", mod.TRACE, bad)
            caught = len({ti for (ti, _, _) in rej2})
            binding = {"corrupted_traces": len(bad), "rejected": caught}
            if caught != len(bad):
                raise MachineryError("binding demonstration failed: %d of %d corrupted traces accepted" %
                                     (len(bad) - caught, len(bad)))

    if replay:
        print("replay: %d events, %d rejected" % (n_events, len(rejects)))
        return 1 if n_viol else 0

    if hasattr(mod, "summarize"):                 # optional: driver-specific counters computed from the recorded traces
        ctx.extra.update(mod.summarize(cases, traces))
    nontriv = set()
    if hasattr(mod, "nontrivial"):
        for c in cases:
            k = mod.nontrivial(c)
            if k is not None:
                nontriv.add(k)
    else:
        nontriv = {json.dumps(c, sort_keys=True) for c in cases}
    samples = []
    for i in sorted(ctx.rng.sample(range(len(cases)), min(3, len(cases)))):
        samples.append({"case": cases[i], "trace": traces[i]["ev"][:6]})
    ev = {
        "property_id": prop, "tier": tier, "seed": seed, "level": "model_checking",
        "coverage": {
            "states": ctx.states, "transitions": ctx.transitions,
            "traces_validated_against_impl": len(traces),
            "samples": samples,
            "evaluations": n_events, "distinct_nontrivial": len(nontriv),
            "rule": getattr(mod, "RULE", ""),
            "exhaustive": bool(getattr(mod, "EXHAUSTIVE", False)),
            "tlc_runs": ctx.mc_runs,
            "trace_validation": {"events": n_events, "tlc_states": vstates, "rejected_events": len(rejects),
                                 "trace_spec": mod.TRACE[0]},
            "binding_demo": binding,
            "known_findings_hit": known_hit,
            "violations": viol_list,
            "repo": REPO,
            "notes": ctx.notes,
        },
        "assumptions": getattr(mod, "ASSUMPTIONS", []),
        "wall_s": round(time.time() - t0, 1),
        "violations": n_viol,
    }
    ev["coverage"].update(ctx.extra)
    if REPO == "/repo" and not os.environ.get("VERIF_NO_EVIDENCE"):
        os.makedirs(os.path.join(VERIF, "evidence"), exist_ok=True)
        with open(os.path.join(VERIF, "evidence", prop + ".json"), "w") as f:
            json.dump(ev, f, indent=1)
    print("%s %s: mc states=%d transitions=%d; cases=%d events=%d rejected=%d violations=%d known=%d; %.1fs" %
          (prop, tier, ctx.states, ctx.transitions, len(cases), n_events, len(rejects), n_viol, len(known_hit),
           time.time() - t0))
    return 1 if n_viol else 0


def main(argv):
    if len(argv) < 2:
        print("usage: check <ID> <quick|thorough> | check <ID> --replay <file>")
        return 2
    prop = argv[1]
    seed = int(os.environ.get("VERIF_SEED", "0"))
    try:
        if len(argv) >= 4 and argv[2] == "--replay":
            return run_check(prop, "quick", seed, replay=argv[3])
        tier = argv[2] if len(argv) > 2 else os.environ.get("VERIF_TIER", "quick")
        return run_check(prop, tier, seed)
    except MachineryError as ex:
        print("MACHINERY-FAILURE %s: %s" % (prop, ex))
        return 2
