"""gamma: abstract tokens -> real commonroad objects, through public constructors only.
Shared by the property drivers.  Import only after core.use_repo()."""
import numpy as np


def lanelet(lid, x0=0.0, y0=0.0, length=1.0, width=1.0, n=2, **kw):
    """Axis-parallel lanelet: right boundary y0, left boundary y0+width, driving in +x, n vertices per polyline."""
    from commonroad.scenario.lanelet import Lanelet
    xs = np.linspace(x0, x0 + length, n)
    right = np.array([[x, y0] for x in xs])
    left = np.array([[x, y0 + width] for x in xs])
    center = (left + right) / 2.0
    return Lanelet(left, center, right, lid, **kw)


def lanelet_from_polylines(lid, left, right, **kw):
    from commonroad.scenario.lanelet import Lanelet
    left = np.array(left, dtype=float)
    right = np.array(right, dtype=float)
    return Lanelet(left, (left + right) / 2.0, right, lid, **kw)


def sign(sid, pos=(0.0, 0.0), first=None, virtual=False):
    from commonroad.scenario.traffic_sign import TrafficSign, TrafficSignElement, TrafficSignIDZamunda
    return TrafficSign(sid, [TrafficSignElement(TrafficSignIDZamunda.MAX_SPEED, ["10"])], first or set(),
                       np.array(pos, dtype=float), virtual)


def light(tid, pos=(0.0, 0.0), cycle=(("red", 2), ("green", 3)), offset=0):
    from commonroad.scenario.traffic_light import (TrafficLight, TrafficLightCycle, TrafficLightCycleElement,
                                                   TrafficLightState)
    names = {"red": "RED", "green": "GREEN", "yellow": "YELLOW", "red_yellow": "RED_YELLOW", "inactive": "INACTIVE"}
    els = [TrafficLightCycleElement(TrafficLightState[names[c]], d) for c, d in cycle]
    return TrafficLight(tid, np.array(pos, dtype=float), TrafficLightCycle(els, time_offset=offset))


def intersection(xid, incomings, crossings=None):
    """incomings: list of (incoming_id, incoming_lanelets, succ_right, succ_straight, succ_left, left_of)"""
    from commonroad.scenario.intersection import Intersection, IntersectionIncomingElement
    incs = []
    for t in incomings:
        t = tuple(t) + (None,) * (6 - len(t))
        incs.append(IntersectionIncomingElement(t[0], set(t[1] or ()), set(t[2] or ()), set(t[3] or ()),
                                                set(t[4] or ()), t[5]))
    return Intersection(xid, incs, set(crossings or ()))


def init_state(x=0.0, y=0.0, theta=0.0, t=0, v=0.0):
    from commonroad.scenario.state import InitialState
    return InitialState(position=np.array([x, y], dtype=float), orientation=float(theta), time_step=t,
                        velocity=float(v), acceleration=0.0, yaw_rate=0.0, slip_angle=0.0)


def rect(length=1.0, width=1.0, center=(0.0, 0.0), orientation=0.0):
    from commonroad.geometry.shape import Rectangle
    return Rectangle(length, width, np.array(center, dtype=float), orientation)


def static_obstacle(oid, x=0.0, y=0.0, shape=None, **kw):
    from commonroad.scenario.obstacle import ObstacleType, StaticObstacle
    return StaticObstacle(oid, ObstacleType.PARKED_VEHICLE, shape or rect(), init_state(x, y), **kw)


def trajectory_prediction(shape, poses, t0=1):
    """poses: list of (x, y, theta) for time steps t0, t0+1, ..."""
    from commonroad.prediction.prediction import TrajectoryPrediction
    from commonroad.scenario.state import KSState
    from commonroad.scenario.trajectory import Trajectory
    sts = [KSState(position=np.array([x, y], dtype=float), orientation=float(th), time_step=t0 + i, velocity=1.0,
                   steering_angle=0.0) for i, (x, y, th) in enumerate(poses)]
    return TrajectoryPrediction(Trajectory(t0, sts), shape)


def dynamic_obstacle(oid, x=0.0, y=0.0, shape=None, poses=None, t0=0, **kw):
    from commonroad.scenario.obstacle import DynamicObstacle, ObstacleType
    shape = shape or rect()
    pred = trajectory_prediction(shape, poses, t0 + 1) if poses else None
    return DynamicObstacle(oid, ObstacleType.CAR, shape, init_state(x, y, t=t0), pred, **kw)


def phantom_obstacle(oid, occ=None):
    from commonroad.prediction.prediction import Occupancy, SetBasedPrediction
    from commonroad.scenario.obstacle import PhantomObstacle
    pred = None
    if occ:
        pred = SetBasedPrediction(occ[0][0], [Occupancy(t, sh) for t, sh in occ])
    return PhantomObstacle(oid, pred)


def environment_obstacle(oid, shape=None):
    from commonroad.scenario.obstacle import EnvironmentObstacle, ObstacleType
    return EnvironmentObstacle(oid, ObstacleType.BUILDING, shape or rect())


def scenario(dt=0.1):
    from commonroad.scenario.scenario import Scenario, ScenarioID
    return Scenario(dt, ScenarioID())


def network(lanelets=(), signs=(), lights=(), intersections=()):
    from commonroad.scenario.lanelet import LaneletNetwork
    net = LaneletNetwork()
    for la in lanelets:
        net.add_lanelet(la)
    for s in signs:
        net.add_traffic_sign(s, set())
    for tl in lights:
        net.add_traffic_light(tl, set())
    for x in intersections:
        net.add_intersection(x)
    return net
