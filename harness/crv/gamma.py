"""gamma: abstract tokens -> real commonroad objects, through public constructors only.
Shared by the property drivers.  Import only after core.use_repo()."""
import numpy as np


def lanelet(lid, x0=0.0, y0=0.0, length=1.0, width=1.0, n=2, **kw):
    """Axis-parallel lanelet: right boundary y0, left boundary y0+width, driving in +x, n vertices per polyline."""
    from commonroad.scenario.lanelet import Lanelet
    xs = np.linspace(x0, x0 + length, n)
    right = np.array([[x, y0] for x in xs])
    left = np.array([[x, y0 + width] for x in xs])
    center = (left + right) / 2.0
    return Lanelet(left, center, right, lid, **kw)


def lanelet_from_polylines(lid, left, right, **kw):
    from commonroad.scenario.lanelet import Lanelet
    left = np.array(left, dtype=float)
    right = np.array(right, dtype=float)
    return Lanelet(left, (left + right) / 2.0, right, lid, **kw)


def sign(sid, pos=(0.0, 0.0), first=None, virtual=False):
    from commonroad.scenario.traffic_sign import TrafficSign, TrafficSignElement, TrafficSignIDZamunda
    return TrafficSign(sid, [TrafficSignElement(TrafficSignIDZamunda.MAX_SPEED, ["10"])], first or set(),
                       np.array(pos, dtype=float), virtual)


def light(tid, pos=(0.0, 0.0), cycle=(("red", 2), ("green", 3)), offset=0):
    from commonroad.scenario.traffic_light import (TrafficLight, TrafficLightCycle, TrafficLightCycleElement,
                                                   TrafficLightState)
    names = {"red": "RED", "green": "GREEN", "yellow": "YELLOW", "red_yellow": "RED_YELLOW", "inactive": "INACTIVE"}
    els = [TrafficLightCycleElement(TrafficLightState[names[c]], d) for c, d in cycle]
    return TrafficLight(tid, np.array(pos, dtype=float), TrafficLightCycle(els, time_offset=offset))


def intersection(xid, incomings, crossings=None):
    """incomings: list of (incoming_id, incoming_lanelets, succ_right, succ_straight, succ_left, left_of)"""
    from commonroad.scenario.intersection import Intersection, IntersectionIncomingElement
    incs = []
    for t in incomings:
        t = tuple(t) + (None,) * (6 - len(t))
        incs.append(IntersectionIncomingElement(t[0], set(t[1] or ()), set(t[2] or ()), set(t[3] or ()),
                                                set(t[4] or ()), t[5]))
    return Intersection(xid, incs, set(crossings or ()))


def init_state(x=0.0, y=0.0, theta=0.0, t=0, v=0.0):
    from commonroad.scenario.state import InitialState
    return InitialState(position=np.array([x, y], dtype=float), orientation=float(theta), time_step=t,
                        velocity=float(v), acceleration=0.0, yaw_rate=0.0, slip_angle=0.0)


def rect(length=1.0, width=1.0, center=(0.0, 0.0), orientation=0.0):
    from commonroad.geometry.shape import Rectangle
    return Rectangle(length, width, np.array(center, dtype=float), orientation)


def static_obstacle(oid, x=0.0, y=0.0, shape=None, **kw):
    from commonroad.scenario.obstacle import ObstacleType, StaticObstacle
    return StaticObstacle(oid, ObstacleType.PARKED_VEHICLE, shape or rect(), init_state(x, y), **kw)


def trajectory_prediction(shape, poses, t0=1):
    """poses: list of (x, y, theta) for time steps t0, t0+1, ..."""
    from commonroad.prediction.prediction import TrajectoryPrediction
    from commonroad.scenario.state import KSState
    from commonroad.scenario.trajectory import Trajectory
    sts = [KSState(position=np.array([x, y], dtype=float), orientation=float(th), time_step=t0 + i, velocity=1.0,
                   steering_angle=0.0) for i, (x, y, th) in enumerate(poses)]
    return TrajectoryPrediction(Trajectory(t0, sts), shape)


def dynamic_obstacle(oid, x=0.0, y=0.0, shape=None, poses=None, t0=0, **kw):
    from commonroad.scenario.obstacle import DynamicObstacle, ObstacleType
    shape = shape or rect()
    pred = trajectory_prediction(shape, poses, t0 + 1) if poses else None
    return DynamicObstacle(oid, ObstacleType.CAR, shape, init_state(x, y, t=t0), pred, **kw)


def phantom_obstacle(oid, occ=None):
    from commonroad.prediction.prediction import Occupancy, SetBasedPrediction
    from commonroad.scenario.obstacle import PhantomObstacle
    pred = None
    if occ:
        pred = SetBasedPrediction(occ[0][0], [Occupancy(t, sh) for t, sh in occ])
    return PhantomObstacle(oid, pred)


def environment_obstacle(oid, shape=None):
    from commonroad.scenario.obstacle import EnvironmentObstacle, ObstacleType
    return EnvironmentObstacle(oid, ObstacleType.BUILDING, shape or rect())


def scenario(dt=0.1):
    from commonroad.scenario.scenario import Scenario, ScenarioID
    return Scenario(dt, ScenarioID())


def network(lanelets=(), signs=(), lights=(), intersections=(), deferred_index=False):
    """deferred_index: all lanelets but the first are added with the public option rtree=False (the spatial index is
    not rebuilt, it knows the first lanelet only)."""
    from commonroad.scenario.lanelet import LaneletNetwork
    net = LaneletNetwork()
    for n, la in enumerate(lanelets):
        net.add_lanelet(la, rtree=not (deferred_index and n > 0))
    for s in signs:
        net.add_traffic_sign(s, set())
    for tl in lights:
        net.add_traffic_light(tl, set())
    for x in intersections:
        net.add_intersection(x)
    return net


# ---- goal regions and query states (C08); abstract descriptors as in spec/Goal.tla -------------------------
def grid_angle(k):
    """k -> k*pi/12 (the float handed to the library; the same expression for interval ends and query angles)."""
    import math
    return k * math.pi / 12


def goal_shape(desc, lanelet_ids=None):
    """Position constraint descriptor (doubled integer coordinates) -> Shape.
    rect <<X0,Y0,X1,Y1>>, disc centre/rad, poly vertices, group of rects; 'lanelets': the ShapeGroup of the polygons of
    lanelets looked up in a LaneletNetwork, exactly as the XML reader builds lanelet goal positions."""
    from commonroad.geometry.shape import Circle, Polygon, Rectangle, ShapeGroup
    k = desc["k"]

    def _rect(r):
        x0, y0, x1, y1 = r
        return Rectangle((x1 - x0) / 2.0, (y1 - y0) / 2.0, np.array([(x0 + x1) / 4.0, (y0 + y1) / 4.0]), 0.0)
    if k == "rect":
        return _rect(desc["r"])
    if k == "disc":
        return Circle(desc["rad"] / 2.0, np.array([desc["c"][0] / 2.0, desc["c"][1] / 2.0]))
    if k == "poly":
        return Polygon(np.array([[x / 2.0, y / 2.0] for x, y in desc["v"]]))
    if k == "group":
        return ShapeGroup([_rect(r) for r in desc["rs"]])
    if k == "mgroup":                          # ShapeGroup mixing rectangles, discs, polygons and nested groups
        return ShapeGroup([goal_shape(m) for m in desc["ms"]])
    if k == "lanelets":
        lls = [lanelet(lid, r[0] / 2.0, r[1] / 2.0, (r[2] - r[0]) / 2.0, (r[3] - r[1]) / 2.0)
               for lid, r in zip(lanelet_ids, desc["rs"])]
        net = network(lls)
        return ShapeGroup([net.find_lanelet_by_id(lid).polygon for lid in lanelet_ids])
    raise ValueError("unknown position descriptor %r" % (desc,))


def goal_region(goal, state_class="ks"):
    """Sequence of goal-state descriptors [t, pos, ori, vel] -> GoalRegion (public constructors only).
    state_class: 'ks' -> KSState goal states, 'custom' -> CustomState goal states (what the readers produce)."""
    from commonroad.common.util import AngleInterval, Interval
    from commonroad.planning.goal import GoalRegion
    from commonroad.scenario.state import CustomState, KSState
    states, lanelets_of = [], {}
    for i, g in enumerate(goal):
        kw = {}
        if g["t"]["k"] != "none":
            kw["time_step"] = Interval(g["t"]["lo"], g["t"]["hi"])
        if g["pos"]["k"] != "none":
            ids = None
            if g["pos"]["k"] == "lanelets":
                ids = [100 * (i + 1) + j for j in range(len(g["pos"]["rs"]))]
                lanelets_of[i] = ids
            kw["position"] = goal_shape(g["pos"], ids)
        if g["ori"]["k"] != "none":
            kw["orientation"] = AngleInterval(grid_angle(g["ori"]["a"]), grid_angle(g["ori"]["b"]))
        if g["vel"]["k"] != "none":
            lo, hi = g["vel"]["lo"], g["vel"]["hi"]
            if g["vel"].get("fl"):
                lo, hi = float(lo), float(hi)
            kw["velocity"] = Interval(lo, hi)
        states.append(CustomState(**kw) if state_class == "custom" else KSState(**kw))
    return GoalRegion(states, lanelets_of or None)


def query_state(s):
    """Query-state descriptor -> KSState / PMState with exact values."""
    from commonroad.scenario.state import KSState, PMState
    pos = np.array([s["p"][0] / 2.0, s["p"][1] / 2.0])
    if s["kind"] == "pm":
        conv = int if s.get("vint") else float
        return PMState(time_step=s["t"], position=pos, velocity=conv(s["vx"]), velocity_y=conv(s["vy"]))
    th = int(s["th"]) if s["thint"] else grid_angle(s["th"])
    v = int(s["v"]) if s["vint"] else float(s["v"])
    return KSState(time_step=s["t"], position=pos, orientation=th, velocity=v, steering_angle=0.0)


def planning_problem(region, pid=1):
    from commonroad.planning.planning_problem import PlanningProblem
    return PlanningProblem(pid, init_state(), region)


# ---- more shapes, stored occupancies, uncertain states, stop lines (C05); new builders only ------------------------
def circle(radius=1.0, center=(0.0, 0.0)):
    from commonroad.geometry.shape import Circle
    return Circle(float(radius), np.array(center, dtype=float))


def polygon(vertices):
    from commonroad.geometry.shape import Polygon
    return Polygon(np.array(vertices, dtype=float))


def shape_group(shapes):
    from commonroad.geometry.shape import ShapeGroup
    return ShapeGroup(list(shapes))


def stop_line(start, end):
    from commonroad.scenario.lanelet import LineMarking, StopLine
    return StopLine(np.array(start, dtype=float), np.array(end, dtype=float), LineMarking.SOLID)


def set_based_prediction(shapes, t0=1):
    """shapes: list of Shape, stored as the occupancies of time steps t0, t0+1, ..."""
    from commonroad.prediction.prediction import Occupancy, SetBasedPrediction
    return SetBasedPrediction(t0, [Occupancy(t0 + i, sh) for i, sh in enumerate(shapes)])


def uncertain_init_state(region, theta_lo, theta_hi, t=0):
    """InitialState with a position region (Shape) and an orientation interval."""
    from commonroad.common.util import AngleInterval
    from commonroad.scenario.state import InitialState
    return InitialState(position=region, orientation=AngleInterval(float(theta_lo), float(theta_hi)), time_step=t,
                        velocity=1.0, acceleration=0.0, yaw_rate=0.0, slip_angle=0.0)


def dynamic_obstacle_from(oid, shape, state, prediction=None):
    from commonroad.scenario.obstacle import DynamicObstacle, ObstacleType
    return DynamicObstacle(oid, ObstacleType.CAR, shape, state, prediction)


def static_obstacle_from(oid, shape, state):
    from commonroad.scenario.obstacle import ObstacleType, StaticObstacle
    return StaticObstacle(oid, ObstacleType.PARKED_VEHICLE, shape, state)


def goal_state(position=None, theta_lo=None, theta_hi=None, t_lo=0, t_hi=10):
    """Goal state (CustomState) with a time interval and optionally a position shape / an orientation interval."""
    from commonroad.common.util import AngleInterval, Interval
    from commonroad.scenario.state import CustomState
    kw = {"time_step": Interval(t_lo, t_hi)}
    if position is not None:
        kw["position"] = position
    if theta_lo is not None:
        kw["orientation"] = AngleInterval(float(theta_lo), float(theta_hi))
    return CustomState(**kw)


def planning_problem_set(problems):
    from commonroad.planning.planning_problem import PlanningProblemSet
    return PlanningProblemSet(list(problems))


def ks_state(t, position, orientation):
    """KSState at time step t; position: (x, y) or a Shape (uncertain region); orientation: float or (lo, hi) interval."""
    from commonroad.common.util import AngleInterval
    from commonroad.geometry.shape import Shape
    from commonroad.scenario.state import KSState
    pos = position if isinstance(position, Shape) else np.array(position, dtype=float)
    ori = AngleInterval(float(orientation[0]), float(orientation[1])) if isinstance(orientation, tuple) else float(orientation)
    return KSState(position=pos, orientation=ori, time_step=t, velocity=1.0, steering_angle=0.0)


def trajectory_prediction_from_states(shape, states):
    from commonroad.prediction.prediction import TrajectoryPrediction
    from commonroad.scenario.trajectory import Trajectory
    return TrajectoryPrediction(Trajectory(states[0].time_step, list(states)), shape)


def lanelet_from_arrays(lid, left, center, right, **kw):
    """Lanelet from the given ndarray OBJECTS (no copy here): lets two lanelets hold one array as common boundary."""
    from commonroad.scenario.lanelet import Lanelet
    return Lanelet(left, center, right, lid, **kw)


def pm_state(t, position, vx, vy):
    from commonroad.scenario.state import PMState
    return PMState(time_step=t, position=np.array(position, dtype=float), velocity=float(vx), velocity_y=float(vy))


def custom_pm_state(t, position, vx, vy):
    """CustomState with position and velocity components but no orientation."""
    from commonroad.scenario.state import CustomState
    return CustomState(time_step=t, position=np.array(position, dtype=float), velocity=float(vx), velocity_y=float(vy))


def state_by_class(name, time_step, position=None, orientation=None, velocity=None, velocity_y=None):
    """A state of the named class with the given attributes (others at harmless defaults).  name: initial, ks, kst, st,
    std, mb, pm, extpm, lateral, custom.  orientation: float or (lo, hi) -> AngleInterval; velocity/velocity_y: float or
    (lo, hi) -> Interval; position: (x, y) or a Shape; time_step: int or (lo, hi) -> Interval.  Attributes passed as None
    are not set (custom: not even added)."""
    from commonroad.common.util import AngleInterval, Interval
    from commonroad.geometry.shape import Shape
    from commonroad.scenario import state as S
    kw = {"time_step": Interval(*time_step) if isinstance(time_step, tuple) else time_step}
    if position is not None:
        kw["position"] = position if isinstance(position, Shape) else np.array(position, dtype=float)
    if orientation is not None:
        kw["orientation"] = AngleInterval(float(orientation[0]), float(orientation[1])) \
            if isinstance(orientation, tuple) else float(orientation)
    for k, v in (("velocity", velocity), ("velocity_y", velocity_y)):
        if v is not None:
            kw[k] = Interval(float(v[0]), float(v[1])) if isinstance(v, tuple) else float(v)
    goal = isinstance(time_step, tuple)          # goal states may only carry time_step, position, velocity, orientation
    extra = {"initial": {"acceleration": 0.0, "yaw_rate": 0.0, "slip_angle": 0.0}, "ks": {"steering_angle": 0.0},
             "kst": {"steering_angle": 0.0, "hitch_angle": 0.0},
             "st": {"steering_angle": 0.0, "slip_angle": 0.0, "yaw_rate": 0.0},
             "std": {"steering_angle": 0.0, "slip_angle": 0.0, "yaw_rate": 0.0, "front_wheel_angular_speed": 0.0,
                     "rear_wheel_angular_speed": 0.0},
             "mb": {"steering_angle": 0.0, "yaw_rate": 0.0}, "pm": {}, "extpm": {"acceleration": 0.0},
             "lateral": {"lateral_position": 1.0, "curvature": 0.0, "curvature_rate": 0.0}, "custom": {}}[name]
    if not goal:
        kw.update(extra)
    cls = {"initial": S.InitialState, "ks": S.KSState, "kst": S.KSTState, "st": S.STState, "std": S.STDState,
           "mb": S.MBState, "pm": S.PMState, "extpm": S.ExtendedPMState, "lateral": S.LateralState,
           "custom": S.CustomState}[name]
    return cls(**kw)


def area(aid, borders=None):
    """Area; borders: list of (border id, vertices, adjacent lanelet ids or None) or None (an area without borders)."""
    from commonroad.scenario.area import Area, AreaBorder, AreaType
    bs = None if borders is None else [AreaBorder(bid, np.array(v, dtype=float), adj) for bid, v, adj in borders]
    return Area(aid, bs, {AreaType.PARKING} if hasattr(AreaType, "PARKING") else None)


def stop_line_without_points():
    """Stop line without start / end point (lies at the end of its lanelet), as the protobuf reader produces it."""
    from commonroad.scenario.lanelet import LineMarking, StopLine
    return StopLine(None, None, LineMarking.SOLID)


def goal_file_roundtrip(goal, lanes, fmt, path, state_class="custom"):
    """C08 file route: a scenario whose road network consists of `lanes` (rects in doubled coordinates) and one planning
    problem whose goal position(s) of kind 'lanelets' REFER to lanelets of that network are written to `path`
    (fmt 'xml' | 'pb') and read back.  -> (scenario, planning_problem_set, planning_problem) as read."""
    import os
    from commonroad.common.file_reader import CommonRoadFileReader
    from commonroad.common.file_writer import CommonRoadFileWriter, OverwriteExistingFile
    from commonroad.common.util import AngleInterval, FileFormat, Interval
    from commonroad.planning.goal import GoalRegion
    from commonroad.planning.planning_problem import PlanningProblem, PlanningProblemSet
    from commonroad.geometry.shape import ShapeGroup
    from commonroad.scenario.state import CustomState, KSState
    ids = {tuple(r): 10 + j for j, r in enumerate(lanes)}
    lls = [lanelet(ids[tuple(r)], r[0] / 2.0, r[1] / 2.0, (r[2] - r[0]) / 2.0, (r[3] - r[1]) / 2.0) for r in lanes]
    sc = scenario()
    sc.add_objects(network(lls))
    states, lanelets_of = [], {}
    for i, g in enumerate(goal):
        kw = {"time_step": Interval(g["t"]["lo"], g["t"]["hi"])}
        if g["pos"]["k"] == "lanelets":
            lanelets_of[i] = [ids[tuple(r)] for r in g["pos"]["rs"]]
            kw["position"] = ShapeGroup([goal_shape({"k": "rect", "r": r}) for r in g["pos"]["rs"]])
        elif g["pos"]["k"] != "none":
            kw["position"] = goal_shape(g["pos"])
        if g["ori"]["k"] != "none":
            kw["orientation"] = AngleInterval(grid_angle(g["ori"]["a"]), grid_angle(g["ori"]["b"]))
        if g["vel"]["k"] != "none":
            kw["velocity"] = Interval(g["vel"]["lo"], g["vel"]["hi"])
        states.append(CustomState(**kw) if state_class == "custom" else KSState(**kw))
    pps = PlanningProblemSet([PlanningProblem(1, init_state(), GoalRegion(states, lanelets_of or None))])
    ff = FileFormat.XML if fmt == "xml" else FileFormat.PROTOBUF
    if os.path.exists(path):
        os.remove(path)
    from commonroad.scenario.scenario import Tag
    CommonRoadFileWriter(sc, pps, "crv", "crv", "crv", {Tag.URBAN}, file_format=ff).write_to_file(
        path, OverwriteExistingFile.ALWAYS)
    sc2, pps2 = CommonRoadFileReader(path, file_format=ff).open()
    os.remove(path)
    return sc2, pps2, pps2.find_planning_problem_by_id(1)


def query_state_cls(s):
    """Query-state descriptor with a class tag `cls` (spec/Goal.tla KSC / PMC) -> state of that library class, all of them
    storing exactly the abstract values: orientation th (grid), velocity v, lateral velocity vy where the class stores one.
    Without `cls`: query_state."""
    tag = s.get("cls")
    if tag in (None, "KSState", "PMState"):
        return query_state(s)
    from commonroad.scenario.state import CustomState, ExtendedPMState, InitialState, MBState, STState
    pos = np.array([s["p"][0] / 2.0, s["p"][1] / 2.0])
    if s["kind"] == "pm":                      # CustomVV: velocity components, no stored orientation
        return CustomState(time_step=s["t"], position=pos, velocity=float(s["vx"]), velocity_y=float(s["vy"]))
    th = int(s["th"]) if s["thint"] else grid_angle(s["th"])
    v = int(s["v"]) if s["vint"] else float(s["v"])
    if tag == "STState":
        return STState(time_step=s["t"], position=pos, orientation=th, velocity=v, steering_angle=0.0, yaw_rate=0.0,
                       slip_angle=0.0)
    if tag == "ExtendedPMState":               # velocity_y is a derived read-only property here
        return ExtendedPMState(time_step=s["t"], position=pos, orientation=th, velocity=v, acceleration=0.0)
    if tag == "MBState":
        return MBState(time_step=s["t"], position=pos, orientation=th, velocity=v, steering_angle=0.0, yaw_rate=0.0,
                       roll_angle=0.0, roll_rate=0.0, pitch_angle=0.0, pitch_rate=0.0, velocity_y=float(s["vy"]),
                       position_z=0.0, velocity_z=0.0)
    if tag == "InitialState":
        return InitialState(time_step=s["t"], position=pos, orientation=th, velocity=v, acceleration=0.0, yaw_rate=0.0,
                            slip_angle=0.0)
    if tag == "CustomOV":
        return CustomState(time_step=s["t"], position=pos, orientation=th, velocity=v)
    if tag == "CustomOVV":
        return CustomState(time_step=s["t"], position=pos, orientation=th, velocity=v, velocity_y=float(s["vy"]))
    raise ValueError("unknown state class tag %r" % (tag,))
