"""Transition cover of a TLC-dumped labelled state graph: walks from the initial state that together take
every edge at least once (spec -> code direction for the stateful modules)."""
import json
from collections import defaultdict, deque


def parse_edges(payloads):
    """payloads: JSON strings {"from":..,"act":..,"to":..} -> (init_key, {key: [(act, to_key)]})"""
    out = defaultdict(list)
    seen = set()
    for p in payloads:
        e = json.loads(p)
        f = json.dumps(e["from"], sort_keys=True)
        t = json.dumps(e["to"], sort_keys=True)
        a = json.dumps(e["act"], sort_keys=True)
        if (f, a, t) in seen:
            continue
        seen.add((f, a, t))
        out[f].append((e["act"], t))
    return out


def cover_walks(graph, init, max_len=40, rng=None, limit_edges=None):
    """Greedy walks: follow an uncovered out-edge if there is one, otherwise move along a shortest path to the
    nearest state that has one; restart from `init` when a walk reaches max_len.  Returns list of act lists."""
    uncovered = {k: list(range(len(v))) for k, v in graph.items()}
    if rng:
        for v in uncovered.values():
            rng.shuffle(v)
    remaining = sum(len(v) for v in uncovered.values())
    if limit_edges is not None:
        remaining = min(remaining, limit_edges)
    walks = []
    while remaining > 0:
        cur, walk, progressed = init, [], False
        while len(walk) < max_len and remaining > 0:
            if uncovered.get(cur):
                i = uncovered[cur].pop()
                act, nxt = graph[cur][i]
                walk.append(act)
                cur = nxt
                remaining -= 1
                progressed = True
                continue
            # BFS to the nearest state with an uncovered out-edge
            prev = {cur: None}
            dq = deque([cur])
            target = None
            while dq:
                u = dq.popleft()
                if uncovered.get(u):
                    target = u
                    break
                for act, v in graph.get(u, ()):
                    if v not in prev:
                        prev[v] = (u, act)
                        dq.append(v)
            if target is None:
                break
            path = []
            u = target
            while prev[u] is not None:
                pu, act = prev[u]
                path.append(act)
                u = pu
            path.reverse()
            if len(walk) + len(path) + 1 > max_len and walk:
                break
            walk.extend(path)
            cur = target
        if not progressed:
            # unreachable leftovers (should not happen for graphs dumped from one initial state)
            break
        walks.append(walk)
    return walks
