"""Writes /verif/MANIFEST.json from the table below (python -m crv.manifest)."""
import json
import os

from .tlc import VERIF

BASE_OFF = ("cd /repo && env -u COMMONROAD_IO_VERIF /venv/bin/python -m pytest -ra -q -p no:cacheprovider "
            "--timeout=900 --continue-on-collection-errors")

# property -> (spec modules, what TLC decides / what is bound, trusted base)
TABLE = {
    "C17": ("TrafficLight.tla / MC_TrafficLight.tla / Trace_TrafficLight.tla",
            "TLC exhausts every cycle of <= 3 (thorough 4) elements x offsets x time steps and checks partition, "
            "coverage, order and periodicity of the window definition on the specification; every enumerated "
            "(cycle, offset, t) is then executed on cold, warm and TrafficLight-wrapped real objects and the recorded "
            "answers are validated by TLC against StateAt (trace validation), plus seeded larger cycles and negative t.",
            "TLC, the JSON projection of colours, small-scope hypothesis beyond the enumerated bounds"),
    "C09": ("ScenarioStore.tla / MC_ScenarioStore.tla / Trace_ScenarioStore.tla",
            "TLC exhausts the implementation-shaped store model (object tokens with colliding ids; add, list add, all "
            "removals in single and list form, replace, erase, generate_object_id) and checks Unique, PoolExact, ReAddable, "
            "GenFresh, RejectAtomic and refinement of the contract; each deviation constant reproduces one defect as a "
            "TLC counterexample. A transition cover of the dumped state graph and seeded random histories are executed "
            "on a real Scenario; after every call the contained objects and the probed reserved ids are validated by TLC "
            "against the contract (total trace actions with re-synchronisation).",
            "TLC, the projection through public accessors, the deep-copy id probe, small-scope hypothesis"),
    "C10": ("NetworkRefs.tla / MC_NetworkRefs.tla / Trace_NetworkRefs.tla",
            "TLC enumerates all well-formed 3-lanelet networks one reference kind at a time (successor / predecessor "
            "digraphs, adjacency, sign / light / stop-line references, intersection incoming / successor / crossing sets) "
            "x every removal and cut-out operation and checks the contract clause (NoDangling, RelationsUntouched, "
            "KeptUnchanged, HangingRule) on an implementation-shaped model of the clean-up code, with deviation constants "
            "reproducing three defects; every enumerated (network, operation sequence) is executed on real LaneletNetwork / "
            "Scenario objects and TLC validates (pre, op, post) with the same clause operator.",
            "TLC, projection of id-valued attributes through public accessors, cut-out shapes that select exactly "
            "the chosen lanelets"),
    "C12": ("EqContract.tla / MC_EqContract.tla / Trace_EqContract.tla",
            "The class table (52 classes, 266 constructor-visible attribute groups with joint domains) is a TLA+ constant; "
            "TLC explores the perturbation graph (default and fully populated seeds -> every single-group change, every "
            "insertion-order variant; two changes in the thorough tier) and checks that the expected-equality relation is "
            "an equivalence, sensitive to every single perturbation and insensitive to re-ordering. Every node and edge is "
            "executed through the public constructors (==, != both ways, hash, deepcopy, independent rebuild) and TLC "
            "validates the logged verdicts against Expected3 / the hash laws; the Python value table must match the TLA+ "
            "table exactly and constructor signatures are compared with inspect.signature (drift = note, not violation).",
            "TLC, the (class, group, token) -> Python value table, small-scope hypothesis on attribute domains"),
    "C14": ("SolutionCodec.tla / MC_SolutionCodec.tla / Trace_SolutionCodec.tla",
            "The field / xml-name / cost / reader tables and the shipped solution schema's content models and lexical classes "
            "are TLA+ constants; TLC checks table alignment, reader totality, schema acceptance of the abstract document and "
            "ReadBack = identity over all models x vehicle types x costs x value classes x metadata subsets (per dimension "
            "exhaustive). Every case is written with CommonRoadSolutionWriter, validated with lxml against the shipped XSD "
            "(cross-check of the TLA+ schema automaton), read back, and TLC validates the abstract document and the "
            "read-back descriptor (bit identity of doubles classified by struct.pack in the projection).",
            "TLC, lxml as cross-check of the schema transcription, struct.pack bit comparison in the projection"),
    "C11": ("Cache.tla / MC_Cache.tla / Trace_Cache.tla",
            "The contract has primary data only (lattice poses, quarter-turn motions): every query = Recompute(primary). "
            "The implementation-shaped model adds the caches the code keeps (occupancy set, spatial index snapshot, cycle "
            "windows); TLC checks answer = Recompute over all interleavings of mutators and cache-filling queries to depth "
            "4 (5), and each missing-invalidation deviation constant yields the stale counterexample. A transition cover of "
            "the dumped graph and seeded random histories run on real objects; TLC validates every logged answer against "
            "the lattice recomputation, the agreement with a freshly constructed twin, and the history contract of "
            "update_initial_state.",
            "TLC, projection of primary data through public accessors, twin construction through public constructors"),
    "C20": ("LaneletGeom.tla / MC_LaneletGeom.tla / Trace_LaneletGeom.tla",
            "Exact rational arc-length geometry on integer-length polylines (Cum, PointAt, BoundaryAt, Merge laws) and an "
            "algorithm-shaped model of the breadth-wise successor / predecessor expansion on all digraphs of 3 (thorough 4: "
            "4096) lanelets x lengths x ranges: TLC checks the laws, that the result satisfies ValidRoutes and termination "
            "(<>done under weak fairness, no state constraint); a deviation constant (no loop guard) gives the expected "
            "counterexample. All enumerated polylines, merges and route queries plus seeded random 5-6 lanelet digraphs are "
            "executed (route calls under an alarm) and TLC validates distances, interpolated points, merged boundaries and "
            "the ValidRoutes predicate on the returned routes.",
            "TLC, rounding of returned floats to a fixed rational grid with an exactness flag, wall-clock alarm for termination"),
    "C08": ("Goal.tla / MC_Goal.tla / Trace_Goal.tla",
            "Three-valued goal membership (time, lattice position regions with exact integer predicates, angle intervals on "
            "the pi/12 grid incl. lengths above pi and wrapping, velocity; point-mass speed^2 and compass headings) written "
            "from the statement; TLC checks monotonicity, full-turn invariance, agreement of the closed form with the literal "
            "exists-k definition and that EITHER occurs only on wrapped end points. All enumerated (goal, state) pairs and "
            "trajectories plus seeded random ones are executed through GoalRegion.is_reached / PlanningProblem.goal_reached "
            "and TLC validates verdict, index and totality.",
            "TLC, the pi/12 angle grid (k*pi/12 as float), lattice geometry"),
    "C13": ("BenchmarkId.tla / MC_BenchmarkId.tla / Trace_BenchmarkId.tla",
            "Ids are token sequences; the printer, the id grammar (NFA), a deterministic parser and the constructor's "
            "normalisation are TLA+ operators; TLC checks Accepts(Grammar, Print(id)), Parse(Print(id)) = Normalize(id), "
            "Print(Parse(Print(id))) = Print(id) for every valid field combination in scope and the same three laws for "
            "solution ids (all lists of <= 2, thorough <= 3, supported (model, type, cost) triples). Every enumerated id and "
            "seeded random ones (library country table, long names, big numbers) are printed / parsed / compared by the real "
            "code (also through the solution writer and reader) and TLC validates tokens, parsed fields, equality and reprint.",
            "TLC, the tokeniser projection of real strings"),
    "C15": ("Writers.tla / MC_Writers.tla / Trace_Writers.tla",
            "TLC explores all interleavings of constructing writers (XML / protobuf, two precisions) and writing with them "
            "(both write methods, ALWAYS / SKIP, two paths) on a model with the process-global precision and the accumulating "
            "XML tree and checks files'[path] = F(writer, kind); both deviation constants reproduce the shipped defects. A "
            "transition cover and seeded random histories (5 writers, precisions 1..12) run on real CommonRoadFileWriter "
            "objects; every written file is projected (decimals of a probe number, element multiplicity, planning problems, "
            "date-stripped content id, read-back) and validated by TLC.",
            "TLC, projection of files (lxml / protobuf parse), SHA-1 content identity with the date removed"),
    "C04": ("Occupancy.tla / MC_Occupancy.tla / Trace_Occupancy.tla",
            "The time-step dispatch (Source: initial / trajectory / stored set occupancy / static / environment / none), the "
            "placed shape on lattice poses with quarter-turn orientations, point-mass headings, the enclosure obligations for "
            "uncertain positions / orientations and the scenario-level queries are TLA+ operators written from the statement; "
            "TLC checks totality and consistency of Source, the horizon law and that scenario-level answers are the images of "
            "per-obstacle answers. All obstacle descriptors x t in 0..7 and small scenarios x filters are executed on real "
            "objects and TLC validates occupancies (exact vertices), states, enclosure flags and query results.",
            "TLC, exact lattice geometry, shapely `covers` with 1e-9 buffer for the enclosure flags"),
    "C18": ("ReadOnly.tla / MC_ReadOnly.tla / Trace_ReadOnly.tla",
            "The contract is the frame condition snapshot' = snapshot for 16 read-only operations; the specification's content "
            "is the archetype space (8 scenario features on which side effects are conditional) x operation order; TLC checks "
            "the frame condition over all archetype subsets x sequences (<= 3) and the two deviation constants reproduce the "
            "shipped side effects. Every (archetype, operation pair) and seeded random 6-operation sequences run on real "
            "objects; a structural snapshot of scenario + planning problems (caches excluded by name) and the XML export are "
            "taken before and after EACH operation and TLC validates before = after, naming operation and first differing path.",
            "TLC, the attribute-walk snapshot with its cache exclusion list, SHA-1 of date-stripped XML exports"),
    "C16": ("Intervals.tla / MC_Intervals.tla / Trace_Intervals.tla",
            "Plain intervals on the dyadic grid k/4 and angle intervals on the pi/12 grid; every operation's expected result "
            "is a closed form that TLC checks against the literal set semantics (comprehension over the finite grid): result "
            "has start <= end and equals the image set; angle membership is three-valued with EITHER only on end points "
            "reached after a non-zero number of wraps. Every enumerated (interval, operation, argument) incl. int arguments, "
            "lengths up to 23 grid steps and all positions in [-2pi, 2pi] is executed on real Interval / AngleInterval objects "
            "and TLC validates results, exceptions (Total) and the rejection of inverted intervals.",
            "TLC, exactness of dyadic float arithmetic, k*pi/12 as float"),
    "C07": ("Assignment.tla / MC_Assignment.tla / Trace_Assignment.tla",
            "Closed-set centre / shape truth on lattice lanelet boxes (rectangles, box polygons, discs; quarter-turn poses) "
            "and an implementation-shaped model of add / assign / remove with lanelet registries: TLC checks over all "
            "histories (<= 6 steps) that registries are the exact inverse of the recorded shape relations and that remove "
            "never fails; the deviation constant reproduces the static-obstacle registry defect. A transition cover, both "
            "file readers with lanelet assignment and seeded random lattice worlds run on real scenarios; after every call "
            "all forward relations and registries are logged and TLC recomputes the truth (pure boundary contact of rotated "
            "shapes and discs is an EITHER-band declared in the spec).",
            "TLC, lattice geometry; known finding: Circle.shapely_object has half the radius (cannot be repaired: a pinned "
            "test encodes it)"),
    "C05": ("Transform.tla / MC_Transform.tla / Trace_Transform.tla",
            "Rotations are tokens <<c, s, den, turns>> with c^2 + s^2 = den^2 (axis, Pythagorean and small angles on both "
            "sides of 0.05, near +-2pi), so the image of an integer point is an exact rational; the spec defines which "
            "components each of 15 levels (scenario ... shape) must move; TLC checks distance / area preservation, both "
            "undo forms, union-of-parts and scope laws exactly, and two deviation constants reproduce the shipped defects. "
            "Every (level, translation, rotation token, role mix) plus seeded random float angles is applied to a feature-"
            "rich real scenario + planning problem set; Python logs the nearest integer numerator and an exactness flag "
            "per point (fractions), the spec compares with Image, decides moved / unmoved per scope, orientations modulo a "
            "turn, derived quantities and the undo law.",
            "TLC, exact rational rotation tokens, fractions-based residual classification in the projection"),
    "C06": ("SpatialIndex.tla / MC_SpatialIndex.tla / Trace_SpatialIndex.tla",
            "Exact integer predicates (point-in-polygon with boundary, segment / polygon / disc intersection in doubled "
            "coordinates) define the truth of every lookup on 12 lattice lanelet families; a route state machine "
            "(polys = truth, index = what lookups consult) over all construction routes (list, one by one, deep copy, "
            "pickle, cut-out, XML / protobuf read, remove, translate) is checked for index = polys after every route, six "
            "deviation constants give the expected counterexamples. Every (family, route sequence, query) and a 9x9 probe "
            "grid per shape kind are executed; TLC recomputes the truth from the lattice polygons and validates lookups, "
            "containment and exported geometry three-valued (bands declared in the spec).",
            "TLC, lattice geometry, shapely `covers` as projection of the exported geometry; known finding: exported "
            "circle has half the radius"),
    "C01": ("Codec.tla / Xsd2020a.tla / MC_Codec.tla / Trace_Codec.tla",
            "A scenario is an abstract descriptor (enumeration tokens, presence flags, value kinds, number tokens); which "
            "leaves the XML format carries, the reader defaults and the expected read-back descriptor are TLA+ operators "
            "written from the statement and the XSD; TLC enumerates descriptors per component exhaustively (every enum "
            "member, every presence subset of the signal flags, role x shape x state kind x value kind x prediction kind) "
            "plus mixed draws and checks idempotence, identity on carried leaves, preservation of populated attributes and "
            "consistency of the contract with the transcribed XSD. Every descriptor is built through public constructors, "
            "written and read back at precisions 1..12; real leaves are classified by exact fractions (|x'-x| < 10^-d) in "
            "the projection and TLC names the first differing leaf path.",
            "TLC, the descriptor <-> object mapping (gamma / alpha), fractions for tolerance classes; known finding: "
            "traffic-sign virtual flag (pinned tests encode the wrong value)"),
    "C02": ("Codec.tla / MC_Codec.tla / Trace_Codec.tla",
            "Same descriptor space as C01 with the protobuf carriage table (incl. horn, virtual, first occurrences, offset / "
            "direction / active, interval and region values) cross-checked against the generated *_pb2 descriptors; plus "
            "default-argument objects (constructors called with required arguments only). Real leaves must be bit-identical "
            "(struct.pack comparison in the projection), absent optional data must stay absent; TLC validates the read-back "
            "descriptor leaf by leaf.",
            "TLC, gamma / alpha, struct.pack bit comparison"),
    "C03": ("Xsd2020a.tla / Codec.tla / MC_Codec.tla / Trace_Codec.tla",
            "The 2020a XSD is transcribed as TLA+ data (content models as sequence / all / choice automata, all enumerations, "
            "lexical classes, id key and ref keyref constraints); TLC checks that the abstract document the contract demands "
            "is accepted. Every written file of the C01 descriptor space plus extreme-magnitude number classes x precisions "
            "1..12 is turned into element events and validated by TLC against the automaton (naming the violated rule) and by "
            "lxml against the shipped XSD; a disagreement between the two validators is a machinery failure; the library's "
            "own reader must accept the file.",
            "TLC, the XSD transcription (cross-validated against lxml on every document)"),
    "C19": ("Render.tla / RenderTree.tla / MC_Render.tla / Trace_Render.tla",
            "Three parts. (1) The draw-parameter tree (87 dataclass nodes, generated from dataclasses.fields and re-checked at "
            "every run) with the action Set(node, field, v): TLC checks over all Set histories (depth 2) that every descendant "
            "declaring the field holds v and nothing else changes, idempotence, commutation, last-wins. (2) The time-window "
            "contract Drawn(o, begin, end) over 34 obstacle descriptors x windows (t = end an EITHER-band), lanelet filters. "
            "(3) Totality over flag combinations x archetypes x windows. Every case is drawn and rendered with the Agg backend; "
            "the patches collected between draw and render are mapped to (obstacle, time) by lattice cell and TLC validates "
            "propagation, drawn set, lanelet set and totality.",
            "TLC, the generated parameter-tree table, patch -> (obstacle, time) mapping by lattice cell; pixels are not inspected"),
}

PENDING_REASON = "check not built yet in this round (specification module planned in DESIGN.md section 4); not claimed"


def build():
    props = [json.loads(l)["id"] for l in open(os.path.join(VERIF, "properties.jsonl"))]
    checks, na = [], []
    for p in props:
        if p in TABLE and os.path.exists(os.path.join(VERIF, "harness", "crv", "props", p.lower() + ".py")):
            mods, text, base = TABLE[p]
            checks.append({
                "property_id": p,
                "quick_cmd": "bin/check %s quick" % p,
                "thorough_cmd": "bin/check %s thorough" % p,
                "evidence_file": "/verif/evidence/%s.json" % p,
                "replay_cmd_template": "bin/check %s --replay {path}" % p,
                "engine": "tlc",
                "level_claimed": {"category": "model_checking", "text": text,
                                  "design_ref": "DESIGN.md section 4, %s; dimensions added later (histories, reuse of "
                                                "one object, independent objects, argument forms, error paths): "
                                                "section 12.3c and seeded/%s-*/notes.txt" % (p, p)},
                "level_note": "Small-scope exhaustive on the TLA+ model (" + mods + "); the implementation is bound by "
                              "trace validation of executions driven by TLC-generated and seeded random cases; "
                              "trusted: " + base,
                "technique": "explicit TLA+ specification model-checked with TLC + TLC trace validation of the "
                             "real code's executions (spec->code case generation, code->spec trace checking)"
                             + ("; the thorough tier additionally checks an inductive invariant of the step-unbounded "
                                "model with Apalache (spec/APA_*.tla, crv/apalache.py)"
                                if p in ("C09", "C11", "C15", "C17") else ""),
            })
        else:
            na.append({"property_id": p, "reason": PENDING_REASON})
    m = {
        "version": 1,
        "setup_cmd": "bin/setup",
        "hooks": {"guard": "COMMONROAD_IO_VERIF",
                  "enable": "export COMMONROAD_IO_VERIF=1 (bin/check sets it); no source hooks are needed so far: "
                            "the recorder wraps public calls inside the harness process",
                  "baseline_off_cmd": BASE_OFF, "source_commits": [], "add_only": True},
        "engines": [{"name": "tlc", "path": "/verif/harness/crv", "serves_properties": [c["property_id"] for c in checks],
                     "kind_free_text": "TLC 1.8.0 model checking of /verif/spec/*.tla + TLC trace validation of NDJSON "
                                       "traces recorded from /repo by /verif/harness/crv"}],
        "checks": checks,
        "not_applicable": na,
        "notes": "Every check: bin/check <ID> <tier>; exit 0 held / 1 VIOLATION / 2 machinery failure. "
                 "Known findings: /verif/known_findings.json. Design: /verif/DESIGN.md.",
    }
    with open(os.path.join(VERIF, "MANIFEST.json"), "w") as f:
        json.dump(m, f, indent=1)
    return m


if __name__ == "__main__":
    m = build()
    import jsonschema
    jsonschema.validate(m, json.load(open("/root/.vp/MANIFEST.schema.json")))
    print("MANIFEST.json: %d checks, %d not claimed" % (len(m["checks"]), len(m["not_applicable"])))
