"""C02 - protobuf write -> read is lossless (spec: Codec.tla - PbExpressible / PbCarried / ReadBackPb, trace spec: Trace_Codec.tla)."""
from crv import codec

PROPERTY = "C02"
MODULES = ["Xsd2020a", "Codec", "MC_Codec", "Trace_Codec"]
TRACE = ("Trace_Codec", "Trace_Codec.cfg")
EXHAUSTIVE = True
RULE = ("TLC enumerates scenario descriptors PER COMPONENT exhaustively (obstacle, planning, lanelet, sign, light, "
        "intersection, header, numbers) with all other components at a minimal default world, plus a seeded mixed draw "
        "of all components at once; only descriptors Codec!PbExpressible accepts are executed.  Each descriptor is "
        "built through public constructors (gamma), written with CommonRoadFileWriter(file_format=PROTOBUF), read back "
        "with CommonRoadFileReader (file_format=PROTOBUF), both object graphs are projected to leaves through public accessors (alpha) and "
        "Trace_Codec compares the read-back leaves with Codec!Expected(\"pb\", desc): discrete leaves identical, real "
        "leaves in class exact (bit identical, struct.pack).  The pools contain the default-argument objects (obstacles "
        "of every role, signs, lights, incoming elements built with only their required arguments: gamma passes an "
        "optional argument only when the descriptor sets it) and the fields only protobuf carries (static-obstacle signal "
        "states, first occurrences, prediction shape).  distinct_nontrivial = distinct (descriptor, d).")
ASSUMPTIONS = ["band (Codec!HasCyclelessLight): a traffic light WITHOUT cycle is outside the quantifier (non-empty cycle) - a write "
               "that raises is accepted and its cycle leaves are not compared; observation, not asserted: the protobuf writer raises "
               "AttributeError for TrafficLight(id, pos) without cycle (suggested fix: out/codec_pb_light_without_cycle.patch)",
               "edit \"retry\" of the writer-reuse route: write#1 goes to a path in a directory that does not exist (failed write, any "
               "exception), the directory is created, write#2 of the SAME writer (write_to_file / write_scenario_to_file) is read back",
               "protobuf only: traffic lights with an EMPTY cycle and without cycle (identified with an empty cycle, offset 0) x "
               "direction x active (set through the setter, the constructor switches such a light off)",
               "near twins: number tokens with a Codec!NearPairs partner (closer than 1e-10 or differing by the sign of zero, other "
               "doubles) put near-equal shapes of one kind into one scenario in both orders (occupancies, obstacle vs prediction / "
               "region shape, group members, two obstacles, two goal states); route \"twin\" writes the near twin of the whole "
               "scenario first with another writer object (sig suffix @reused-twin); closeness is decided on the exact float bits",
               "edits of the reuse routes also remove a sign / light (referenced by a lanelet and its stop line) and a lanelet "
               "(named only as predecessor / successor / adjacent) through the Scenario API",
               "writer reuse: the cases of component `reuse` (every edit x second write x obstacle role x id-order token on a "
               "world with every component) and a third of the mixed draws write once, edit the scenario in place (Codec!Edit: "
               "add lanelet+sign+light, remove an obstacle, translate the lanelet network, change a light offset, add a planning "
               "problem), write again with the SAME writer object (write_to_file or write_scenario_to_file) and compare the "
               "second file with Codec!WrittenBy(desc, reuse); sig suffix @reused-writer (C03: full files only)",
               "reader reuse (route \"reader\"): one CommonRoadFileReader is bound to the path of write#1 and opened once (open / "
               "open_lanelet_network), the edited scenario is written to the same path by a fresh writer (edit \"none\": nothing is "
               "rewritten), the SAME reader opens again and must yield Codec!WrittenBy(desc, reuse); sig suffix @reused-reader",
               "ids: the pools use symbolic ids; Codec!Renumber materialises them with an id-order token (natural, lights_first, "
               "interleaved, lanelets_high, obstacles_low, pp_smallest, reversed): every token for stop lines referring to signs AND "
               "lights and for two-incoming intersections, in rotation over the other lanelet / sign / light / intersection "
               "cases, at random in the mixed draws",
               "initial states are InitialState instances populating a subset of its six attributes (constructor type)",
               "trajectory states have exact time steps t0, t0+1, ... (Trajectory documents contiguity)",
               "a traffic-sign element uses the enum class of the scenario's country (the format stores only the value)",
               "ids of one kind are listed in ascending order; id sets and enum sets are compared as sets",
               "None vs empty collections, centre vertices, the light colour list and lanelet assignments are not compared",
               "closeness classes are computed by the harness with fractions / struct.pack; which class is required where, "
               "which leaves a format carries and what is expressible is decided by Codec.tla"]


def model_check(ctx):
    codec.model_check(ctx)


def cases(ctx):
    return codec.gen_cases(ctx, "pb")


def execute(case):
    return {"ev": [codec.roundtrip_event(case, "pb")]}


nontrivial = codec.nontrivial
corrupt = codec.corrupt_roundtrip
