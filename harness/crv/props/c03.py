"""C03 - every written XML scenario file is valid against the 2020a schema (spec: Xsd2020a.tla, Codec.tla)."""
from crv import codec

PROPERTY = "C03"
MODULES = ["Xsd2020a", "Codec", "MC_Codec", "Trace_Codec"]
TRACE = ("Trace_Codec", "Trace_Codec.cfg")
EXHAUSTIVE = True
RULE = ("Same descriptor space as C01 (per-component exhaustive pools, the numbers component = every number slot x "
        "magnitude token (0, 1, 0.1, 0.5, 12.345678, 1e-6, 9.9e-5, 1e5, 123456.789012, -2.25, pi/4) x decimal precision "
        "{1,4,8,12} (thorough 1..12), plus the seeded mixed draw), restricted to Codec!XmlExpressible.  Each descriptor is "
        "built, written with the XML writer, the written bytes are abstracted to element entries (name path, child "
        "names, lexical class of the text, attributes; ids / refs) and Trace_Codec evaluates Xsd2020a!DocRule - the "
        "TLA+ transcription of the shipped XSD: content models, lexical classes (xs:decimal = no exponent / nan / inf), "
        "enumerations, required elements, id / ref keys.  lxml.etree.XMLSchema built from the shipped .xsd validates "
        "the same bytes; a disagreement is a machinery failure.  Finally the library's reader must open the file.  "
        "TLC also checks on every descriptor that the document the contract demands (Codec!AbstractDoc) is accepted "
        "by the schema automaton.  distinct_nontrivial = distinct (descriptor, d).")
ASSUMPTIONS = ["edit \"retry\" of the writer-reuse route: write#1 goes to a path in a directory that does not exist (failed write, any "
               "exception), the directory is created, write#2 of the SAME writer (write_to_file / write_scenario_to_file) is read back",
               "protobuf only: traffic lights with an EMPTY cycle and without cycle (identified with an empty cycle, offset 0) x "
               "direction x active (set through the setter, the constructor switches such a light off)",
               "near twins: number tokens with a Codec!NearPairs partner (closer than 1e-10 or differing by the sign of zero, other "
               "doubles) put near-equal shapes of one kind into one scenario in both orders (occupancies, obstacle vs prediction / "
               "region shape, group members, two obstacles, two goal states); route \"twin\" writes the near twin of the whole "
               "scenario first with another writer object (sig suffix @reused-twin); closeness is decided on the exact float bits",
               "edits of the reuse routes also remove a sign / light (referenced by a lanelet and its stop line) and a lanelet "
               "(named only as predecessor / successor / adjacent) through the Scenario API",
               "writer reuse: the cases of component `reuse` (every edit x second write x obstacle role x id-order token on a "
               "world with every component) and a third of the mixed draws write once, edit the scenario in place (Codec!Edit: "
               "add lanelet+sign+light, remove an obstacle, translate the lanelet network, change a light offset, add a planning "
               "problem), write again with the SAME writer object (write_to_file or write_scenario_to_file) and compare the "
               "second file with Codec!WrittenBy(desc, reuse); sig suffix @reused-writer (C03: full files only)",
               "reader reuse (route \"reader\"): one CommonRoadFileReader is bound to the path of write#1 and opened once (open / "
               "open_lanelet_network), the edited scenario is written to the same path by a fresh writer (edit \"none\": nothing is "
               "rewritten), the SAME reader opens again and must yield Codec!WrittenBy(desc, reuse); sig suffix @reused-reader",
               "ids: the pools use symbolic ids; Codec!Renumber materialises them with an id-order token (natural, lights_first, "
               "interleaved, lanelets_high, obstacles_low, pp_smallest, reversed): every token for stop lines referring to signs AND "
               "lights and for two-incoming intersections, in rotation over the other lanelet / sign / light / intersection "
               "cases, at random in the mixed draws",
               "element entries of one document are merged when identical (same path, children, lexical classes)",
               "lexical classes are computed by the harness with regular expressions; which class a type admits, the "
               "content models and the key constraints are Xsd2020a.tla",
               "descriptor space and its restrictions as for C01"]


def model_check(ctx):
    codec.model_check(ctx)


def cases(ctx):
    return codec.gen_cases(ctx, "xml", full_files_only=True)


def execute(case):
    ev = codec.xsd_case_event(case)
    return {"ev": [] if ev is None else [ev]}


nontrivial = codec.nontrivial
corrupt = codec.corrupt_xsd
