"""C04 - obstacle occupancy is the shape placed at the state, for every time step (spec: Occupancy.tla).

The driver builds real obstacles / scenarios from the abstract descriptors of spec/MC_Occupancy.tla (gamma), runs the
real queries and *projects* what came back onto the doubled integer lattice (alpha):
  positions / vertices  v      -> round(2 v) with an exactness flag (|2 v - round| <= 1e-9)
  orientations          a      -> quarter-turn index round(a / (pi/2)) mod 4 (exact within 1e-9), -1 when the state has none
  uncertain states: for every obligation pose listed by the spec (carried in the case) a 0/1 flag: does the returned
                    region (shapely, buffered by 1e-9) cover the shape placed at that pose
Expected answers are computed by TLC from Occupancy.tla (Trace_Occupancy.tla), never here.
"""
import json
import math

from crv.core import use_repo

PROPERTY = "C04"
MODULES = ["Occupancy", "MC_Occupancy", "Trace_Occupancy"]
TRACE = ("Trace_Occupancy", "Trace_Occupancy.cfg")
EXHAUSTIVE = True
RULE = ("TLC enumerates every obstacle descriptor of MC_Occupancy.tla: dynamic obstacles t0 0..2 x 7 shapes (2 rects, disc, "
        "triangle, L-polygon, centred group; off-centre group at q=0) x 4 quarter turns x {no prediction, trajectory of "
        "1..3 states x {KS, PM, Custom, Custom-PM} x 2 motions, set-based with 1..2 stored occupancies x 2 families}; static, "
        "phantom, environment obstacles; uncertain states (5 position regions, 5 orientation intervals, 6 combinations) x "
        "5 shapes x {static, dynamic initial, trajectory state KS/Custom}.  GAP g between the initial time step and the "
        "first prediction step (trajectory / set-based / phantom first step t0+1+g): g = 0 with the full product, g in "
        "{1, 2} x all t0 x all predictions x a reduced set (3 shapes x 2 quarter turns; thorough: all), phantoms with "
        "g 0..2, an uncertain trajectory state behind a gap of 2; NEGATIVE gaps (prediction overlaps the initial step or "
        "starts before it); set-based predictions whose stored occupancies hold for time INTERVALS (6 families: touching "
        "even / odd, overlapping, nested, disjoint, mixed with plain steps; ascending, descending, rotated list order) for "
        "dynamic (t0 0, 1) and phantom obstacles, and scenarios of one or two of them with all scenario-level queries for t "
        "0..8; negative gaps: (t0, g) in {(1,-1), (1,-2), (2,-1), (2,-2), (2,-3)} x 2 shapes x {KS, PM trajectories of 1..3, "
        "set-based of 1..2}.  Each is queried with occupancy_at_time and "
        "state_at_time for t in 0..8 (before, t0, gap, inside, last, after).  Scenarios: every subset of <= 3 (thorough: 4) "
        "of 9 reduced descriptors (one set-based with gap 1, one trajectory with gap 2) x "
        "occupancies_at_time_step (t 0..5 x 5 roles), obstacle_states_at_time_step (t 0..5), obstacles_by_role_and_type "
        "(5 roles x 4 types), obstacles_by_position_intervals (3 x 3 intervals x 4 role sets x times 0, 1, 3).  Plus seeded "
        "random exact descriptors (longer trajectories, larger coordinates, gaps up to 5).  HISTORY: <<target, "
        "bystander>> x ONE public modification - obstacle / prediction / scenario.translate_rotate (3 lattice motions), "
        "prediction.trajectory = another trajectory (2), prediction.shape = another shape (2), update_prediction (2), "
        "update_initial_state(new pose at t0+1) alone / followed by update_prediction(trajectory | set-based), "
        "update_initial_state(t0+1 | t0+2) followed by update_prediction(the OLD prediction, which then overlaps the new "
        "initial step), obstacle.initial_state = new pose (same step; next step when there is a gap), obstacle.prediction = None | "
        "trajectory | set-based - "
        "for trajectory targets (2 shapes x 2 (t0, gap) x 4 state kinds), set-based, no-prediction, static, phantom and "
        "environment targets; each executed cold (modify, query) and warm (query, modify, query): occupancy_at_time / "
        "state_at_time of the target, occupancies_at_time_step and obstacle_states_at_time_step for every t, two "
        "position queries; expected answers are those of Modify(o, m) computed by the trace spec.  SHARED DATA: a second "
        "obstacle built from the same state-list object (2 state kinds), the same Shape objects, or the same occupancy-list "
        "object as the first; only the first is moved (3 lattice motions via obstacle / prediction / trajectory."
        "translate_rotate), cold and with the second obstacle's occupancies warmed; the second obstacle (alone in the "
        "scenario) is queried per obstacle and at scenario level for every t; its CURRENT primary data (initial state, "
        "state list, shapes, stored occupancies) are read back through public accessors and every answer must be the one "
        "these data imply (whether the second obstacle moved along is only counted: shared_data_aliasing).  distinct_nontrivial = distinct dynamic "
        "descriptors with a prediction or an uncertain state + distinct scenarios with >= 2 obstacles.")
ASSUMPTIONS = ["poses on the integer lattice with quarter-turn orientations; point-mass velocities on the 4 axis directions",
               "shapes have their centroid at the shape origin; shape groups are centred or used at q = 0 only "
               "(rotation centre of parts is not fixed by the statement)",
               "trajectories are contiguous and start at t0 + 1 + g, g >= 0; set-based predictions store the exact time "
               "steps t0 + 1 + g..; the time horizon of a dynamic obstacle is {t0} union the prediction's steps",
               "polygonal regions are compared as vertex sets in doubled integer coordinates",
               "uncertain states: enclosure is required at the obligation poses only (corners + centre of the position "
               "region x start/mid/end of the orientation interval); discs are placed as shapely 64-gons",
               "history: custom point-mass states (CustomState with velocity components only) are only translated, not "
               "rotated (whether translate_rotate moves a state rigidly is C05's subject)",
               "predictions that overlap the initial time step or start before it (gap < 0; constructed that way or "
               "re-attached after update_initial_state): initial state at the initial step, None before, prediction only "
               "afterwards; a constructor that refuses such a prediction is accepted",
               "where several stored occupancies cover t each of them is an admissible answer (and the position filter is an "
               "EITHER band); the scenario-level list must consist of the very answers the obstacles give (field per)",
               "obstacles_by_position_intervals: an occupancy without a centre (stored ShapeGroup) is an EITHER band; "
               "intervals are closed"]

TMAX_SC = 4


def model_check(ctx):
    ctx.mc("MC_Occupancy", "MC_Occupancy_t.cfg" if ctx.thorough else "MC_Occupancy.cfg", coverage=True)


# ---- random exact descriptors (same record format as MC_Occupancy.tla) ------------------------------------------

_TRI = [[2, -1], [-1, 2], [-1, -1]]
_ELL = [[-9, -5], [11, -5], [11, 3], [-1, 3], [-1, 7], [-9, 7]]
_DIR = [(1, 0), (0, 1), (-1, 0), (0, -1)]


def _rnd_state(rng, kind, t, x, y, q):
    pm = kind in ("pm", "custompm")
    sp = rng.randint(1, 9)
    return {"k": "state", "kind": kind, "t": t, "x": x, "y": y, "q": 0 if pm else q,
            "vx": sp * _DIR[q][0] if pm else 0, "vy": sp * _DIR[q][1] if pm else 0, "unc": "none"}


def _rnd_shape(rng):
    c = rng.randint(0, 4)
    if c == 0:
        return {"k": "rect", "a": rng.randint(1, 9), "b": rng.randint(1, 9)}
    if c == 1:
        return {"k": "disc", "a": rng.randint(1, 5)}
    if c == 2:
        k = rng.randint(1, 4)
        return {"k": "poly", "v": [[k * x, k * y] for x, y in _TRI]}
    if c == 3:
        return {"k": "poly", "v": _ELL}
    a, b = rng.randint(1, 6), rng.randint(1, 6)
    return {"k": "group", "parts": [{"a": a, "b": b, "cx": 0, "cy": 0}, {"a": b, "b": a + 1, "cx": 0, "cy": 0}]}


def _rnd_ob(rng):
    t0 = rng.randint(0, 5)
    n = rng.randint(0, 6)
    g = rng.choice([0, 0, 1, 2, 3, 5, -1, -2])                    # gap before the first predicted step; < 0: overlap
    g = max(g, -t0 - 1)                                           # time steps are natural numbers
    sh = _rnd_shape(rng)
    x, y, q = rng.randint(-20, 20), rng.randint(-20, 20), rng.randint(0, 3)
    init = _rnd_state(rng, "initial", t0, x, y, q)
    role = rng.choice(["dynamic", "dynamic", "dynamic", "static"])
    pred = {"k": "none"}
    if role == "dynamic" and n > 0:
        if rng.random() < 0.75:
            kind = rng.choice(["oriented", "pm", "custom", "custompm"])
            sts = []
            for i in range(1, n + 1):
                x, y, q = x + rng.randint(-3, 3), y + rng.randint(-3, 3), (q + rng.randint(0, 1)) % 4
                sts.append(_rnd_state(rng, kind, t0 + g + i, x, y, q))
            pred = {"k": "traj", "g": g, "states": sts}
        else:
            occs = []
            for i in range(1, n + 1):
                occs.append({"t": t0 + g + i, "shape": _rnd_shape(rng),
                             "pose": [x + rng.randint(-3, 3) * i, y + rng.randint(-3, 3), rng.randint(0, 3)]})
            pred = {"k": "set", "g": g, "occs": occs}
    o = {"id": rng.randint(1, 50), "role": role, "type": "car" if role == "dynamic" else "parkedVehicle", "t0": t0,
         "shape": sh, "init": init, "pred": pred}
    return {"kind": "ob", "o": o, "tmax": max(t0, t0 + g + n) + 2, "obl": [], "src": "random"}


def cases(ctx):
    cs = ctx.gen("MC_Occupancy", "GEN_Occupancy_t.cfg" if ctx.thorough else "GEN_Occupancy.cfg")
    for c in cs:
        c["src"] = "tlc"
    for _ in range(1500 if ctx.thorough else 150):
        cs.append(_rnd_ob(ctx.rng))
    al = _aliasing_summary(cs)
    ctx.extra["shared_data_aliasing"] = al
    ctx.notes.append("shared-data cases in which the unmodified second obstacle moved along with the first (observation, "
                     "not part of the statement): %s" % ", ".join("%s %d/%d" % (k, v["aliased"], v["cases"])
                                                                  for k, v in sorted(al.items())))
    return cs


def nontrivial(case):
    if case["kind"] == "hist":
        return json.dumps([case["S"][0 if "share" not in case["m"] else 1], case["m"]], sort_keys=True)
    if case["kind"] == "sc":
        return ("sc",) + tuple(o["id"] for o in case["S"]) if len(case["S"]) >= 2 else None
    o = case["o"]
    if o["role"] == "dynamic" and (o["pred"]["k"] != "none" or o["init"]["unc"] != "none"):
        return json.dumps(o, sort_keys=True)
    if o["role"] == "static" and o["init"]["unc"] != "none":
        return json.dumps(o, sort_keys=True)
    return None


# ---- gamma: descriptor -> real objects (public constructors only) -----------------------------------------------

def _rot(q, p):
    q %= 4
    x, y = p
    return [(x, y), (-y, x), (-x, -y), (y, -x)][q]


def _angle(kind, q):
    """quarter turn -> the float handed to the library (two representations, to exercise negative angles too)"""
    if kind == "custom":
        return (((q + 2) % 4) - 2) * math.pi / 2          # -pi, -pi/2, 0, pi/2
    return (q % 4) * math.pi / 2                            # 0, pi/2, pi, 3 pi/2


def _shape(sh, pose=(0, 0, 0)):
    """shape descriptor placed at a lattice pose (x, y, q) with exact integer arithmetic; (0, 0, 0) = obstacle shape"""
    import numpy as np
    from commonroad.geometry.shape import Circle, Polygon, Rectangle, ShapeGroup
    x, y, q = pose
    k = sh["k"]
    if k == "rect":
        if pose == (0, 0, 0):
            return Rectangle(float(sh["a"]), float(sh["b"]))
        return Rectangle(float(sh["a"]), float(sh["b"]), np.array([float(x), float(y)]), (q % 4) * math.pi / 2)
    if k == "disc":
        return Circle(float(sh["a"]), np.array([float(x), float(y)]))
    if k == "poly":
        return Polygon(np.array([[float(x + _rot(q, v)[0]), float(y + _rot(q, v)[1])] for v in sh["v"]]))
    if k == "group":
        parts = []
        for p in sh["parts"]:
            c = _rot(q, (p["cx"], p["cy"]))
            parts.append(Rectangle(float(p["a"]), float(p["b"]), np.array([float(x + c[0]), float(y + c[1])]),
                                   (q % 4) * math.pi / 2))
        return ShapeGroup(parts)
    raise ValueError("unknown shape %r" % (sh,))


def _state(s):
    import numpy as np
    from commonroad.common.util import AngleInterval
    from commonroad.geometry.shape import Circle, Polygon, Rectangle
    from commonroad.scenario.state import CustomState, InitialState, KSState, PMState
    kind, t = s["kind"], s["t"]
    pos = np.array([float(s["x"]), float(s["y"])])
    if s["unc"] in ("pos", "both"):
        r = s["reg"]
        if r["k"] == "rect":
            pos = Rectangle(float(r["a"]), float(r["b"]), pos, 0.0)
        elif r["k"] == "disc":
            pos = Circle(float(r["a"]), pos)
        else:
            pos = Polygon(np.array([[float(s["x"] + v[0]), float(s["y"] + v[1])] for v in r["v"]]))
    if s["unc"] in ("ori", "both"):
        ori = AngleInterval(s["q1"] * math.pi / 2, s["q2"] * math.pi / 2)
    else:
        ori = _angle(kind, s["q"])
    if kind == "initial":
        return InitialState(position=pos, orientation=ori, time_step=t, velocity=1.0, acceleration=0.0, yaw_rate=0.0,
                            slip_angle=0.0)
    if kind == "oriented":
        return KSState(position=pos, orientation=ori, time_step=t, velocity=1.0, steering_angle=0.0)
    if kind == "custom":
        return CustomState(time_step=t, position=pos, orientation=ori, velocity=1.0)
    if kind == "pm":
        return PMState(time_step=t, position=pos, velocity=float(s["vx"]), velocity_y=float(s["vy"]))
    if kind == "custompm":
        return CustomState(time_step=t, position=pos, velocity=float(s["vx"]), velocity_y=float(s["vy"]))
    raise ValueError("unknown state kind %r" % kind)


def _prediction(o):
    from commonroad.prediction.prediction import Occupancy, SetBasedPrediction, TrajectoryPrediction
    from commonroad.scenario.trajectory import Trajectory
    p = o["pred"]
    if p["k"] == "traj":
        sts = [_state(s) for s in p["states"]]
        return TrajectoryPrediction(Trajectory(p["states"][0]["t"], sts), _shape(o["shape"]))
    if p["k"] == "set":
        from commonroad.common.util import Interval
        return SetBasedPrediction(min(c["t"] for c in p["occs"]),
                                  [Occupancy(Interval(c["t"], c["t2"]) if "t2" in c else c["t"],
                                             _shape(c["shape"], tuple(c["pose"]))) for c in p["occs"]])
    return None


def _build(o):
    from commonroad.scenario.obstacle import (DynamicObstacle, EnvironmentObstacle, ObstacleType, PhantomObstacle,
                                              StaticObstacle)
    role = o["role"]
    if role == "phantom":
        return PhantomObstacle(o["id"], _prediction(o))
    typ = ObstacleType(o["type"])
    if role == "environment":
        i = o["init"]
        return EnvironmentObstacle(o["id"], typ, _shape(o["shape"], (i["x"], i["y"], i["q"])))
    if role == "static":
        return StaticObstacle(o["id"], typ, _shape(o["shape"]), _state(o["init"]))
    return DynamicObstacle(o["id"], typ, _shape(o["shape"]), _state(o["init"]), _prediction(o))


# ---- alpha: what came back -> lattice records ------------------------------------------------------------------

def _exc(ex):
    return {"k": "exc", "name": type(ex).__name__}


def _r2(v):
    """2 v as an integer and whether that is exact"""
    d = 2.0 * float(v)
    if not math.isfinite(d) or abs(d) > 1e6:
        return 0, 0
    r = round(d)
    return int(r), 1 if abs(d - r) <= 1e-9 else 0


def _pts(arr):
    out, ok = [], 1
    for p in arr:
        a, ea = _r2(p[0])
        b, eb = _r2(p[1])
        out.append([a, b])
        ok = ok and ea and eb
    return out, 1 if ok else 0


def _shape_key(sh):
    from commonroad.geometry.shape import Circle, Polygon, Rectangle, ShapeGroup
    if isinstance(sh, Rectangle):
        vs, ok = _pts(sh.vertices[:4])
        return {"k": "rect", "vs": vs, "exact": ok}
    if isinstance(sh, Polygon):
        vs, ok = _pts(sh.vertices[:-1])
        return {"k": "poly", "vs": vs, "exact": ok}
    if isinstance(sh, Circle):
        c, ok = _pts([sh.center])
        r, er = _r2(sh.radius)
        return {"k": "disc", "c": c[0], "r2": r, "exact": 1 if ok and er else 0}
    if isinstance(sh, ShapeGroup):
        parts, ok = [], 1
        for p in sh.shapes:
            kp = _shape_key(p)
            parts.append(kp.get("vs", []))
            ok = ok and kp.get("exact", 0) and "vs" in kp
        return {"k": "group", "parts": parts, "exact": 1 if ok else 0}
    return {"k": "other:" + type(sh).__name__}


def _occ_key(occ):
    return {"k": "None"} if occ is None else _shape_key(occ.shape)


def _quarter(a):
    import numbers
    if isinstance(a, bool) or not isinstance(a, numbers.Real):
        return -1, 1
    k = round(float(a) / (math.pi / 2))
    return int(k) % 4, 1 if abs(float(a) - k * math.pi / 2) <= 1e-9 else 0


def _state_key(st):
    import numpy as np
    if st is None:
        return {"k": "None"}
    ts = st.time_step if isinstance(st.time_step, int) else -1
    pos = getattr(st, "position", None)
    if isinstance(pos, np.ndarray):
        pts, ok = _pts([pos])
        x2, y2 = pts[0]
    else:
        x2, y2, ok = 0, 0, 1                                   # uncertain position: only the time step is compared
    q, eq = _quarter(getattr(st, "orientation", None))
    return {"k": "state", "ts": ts, "x2": x2, "y2": y2, "q": q, "exact": 1 if ok and eq else 0}


def _shapely(sh):
    from commonroad.geometry.shape import ShapeGroup
    from shapely.ops import unary_union
    if isinstance(sh, ShapeGroup):
        return unary_union([_shapely(p) for p in sh.shapes])
    return sh.shapely_object


def _placed_geom(sh, x, y, a):
    """the obstacle shape placed at a (float) pose, with the harness's own arithmetic"""
    import shapely.geometry as sg
    c, s = math.cos(a), math.sin(a)

    def mv(px, py):
        return (x + c * px - s * py, y + s * px + c * py)
    if sh["k"] == "rect":
        hl, hw = sh["a"] / 2.0, sh["b"] / 2.0
        return sg.Polygon([mv(-hl, -hw), mv(hl, -hw), mv(hl, hw), mv(-hl, hw)])
    if sh["k"] == "poly":
        return sg.Polygon([mv(v[0], v[1]) for v in sh["v"]])
    if sh["k"] == "disc":
        return sg.Point(x, y).buffer(float(sh["a"]), 16)       # inscribed 64-gon
    raise ValueError("no obligation geometry for %r" % (sh,))


def _flags(occ, sh, poses):
    region = _shapely(occ.shape).buffer(1e-9)
    out = []
    for x2, y2, o8 in poses:
        g = _placed_geom(sh, x2 / 2.0, y2 / 2.0, o8 * math.pi / 4)
        out.append([x2, y2, o8, 1 if region.covers(g) else 0])
    return out


# ---- abstract signatures ----------------------------------------------------------------------------------------

_SHAPE_NAME = {"rect": "rect", "disc": "disc", "poly": "polygon", "group": "group"}


def _plen(o):
    p = o["pred"]
    return len(p["states"]) if p["k"] == "traj" else len(p["occs"]) if p["k"] == "set" else 0


def _where(o, t):
    if o["role"] in ("static", "environment"):
        return "any"
    g = o["pred"].get("g", 0)
    last = o["t0"] + g + _plen(o)
    if o["pred"]["k"] == "set":                                   # stored occupancies may hold for intervals, in any order
        g = min(c["t"] for c in o["pred"]["occs"]) - o["t0"] - 1
        last = max(c.get("t2", c["t"]) for c in o["pred"]["occs"])
    ovl = "(overlap)" if o["role"] == "dynamic" and g < 0 and o["t0"] + 1 + g <= t else ""   # the prediction covers t <= t0
    if t == o["t0"] and o["role"] == "dynamic":
        return "t0" + ovl
    if t <= o["t0"]:
        return "before" + ovl
    if t > last:
        return "after"
    if t <= o["t0"] + g:
        return "gap"                                              # between the initial step and the first predicted step
    return "last" if t == last else "inside"


def _src_state(o, t):
    if o["role"] in ("static",) or (o["role"] == "dynamic" and t == o["t0"]):
        return o["init"]
    if o["role"] == "dynamic" and o["pred"]["k"] == "traj":
        for s in o["pred"]["states"]:
            if s["t"] == t:
                return s
    return None


def _has_intervals(o):
    return o["pred"]["k"] == "set" and any("t2" in c for c in o["pred"]["occs"])


def _pk(o):
    return "set-intervals" if _has_intervals(o) else o["pred"]["k"]


def _sig(op, o, t):
    shape = _SHAPE_NAME[o["shape"]["k"]] if "shape" in o else "stored"
    return "%s/%s/%s/%s/t=%s" % (op, o["role"], _pk(o), shape, _where(o, t))


def _unc_sig(o, s):
    u = {"pos": "pos-region", "ori": "ori-interval", "both": "both"}[s["unc"]]
    if s["unc"] in ("pos", "both") and s["reg"]["k"] == "poly":
        u += "(polygon)"
    return "encloses/%s/%s" % (_SHAPE_NAME[o["shape"]["k"]], u)


# ---- execution ----------------------------------------------------------------------------------------------------

def _exec_ob(case):
    o = case["o"]
    obl = {d["t"]: d["poses"] for d in case.get("obl", [])}
    ev = []
    try:
        ob = _build(o)
    except Exception as ex:                                       # the initial occupancy is computed by the constructor
        s = o.get("init")
        sig = _unc_sig(o, s) if s and s["unc"] != "none" else "construct/" + _sig("occupancy_at_time", o, o["t0"])
        e = {"op": "occupancy_at_time", "o": o, "t": o["t0"], "res": _exc(ex), "sig": sig, "construct": 1}
        if o["t0"] in obl:
            e["obs"] = []
        return {"ev": [e]}
    for t in range(0, case["tmax"] + 1):
        occ = None
        try:
            occ = ob.occupancy_at_time(t)
            res = _occ_key(occ)
        except Exception as ex:
            res = _exc(ex)
        e = {"op": "occupancy_at_time", "o": o, "t": t, "res": res, "sig": _sig("occupancy_at_time", o, t)}
        if t in obl:
            e["sig"] = _unc_sig(o, _src_state(o, t))
            e["obs"] = _flags(occ, o["shape"], obl[t]) if occ is not None else []
        ev.append(e)
        if o["role"] != "environment":                            # EnvironmentObstacle has no state_at_time
            try:
                res = _state_key(ob.state_at_time(t))
            except Exception as ex:
                res = _exc(ex)
            sig = "state_at_time/phantom" if o["role"] == "phantom" else \
                "state_at_time/%s/%s/t=%s" % (o["role"], _pk(o), _where(o, t))   # a phantom never has states
            ev.append({"op": "state_at_time", "o": o, "t": t, "res": res, "sig": sig})
    return {"ev": ev}


def _exec_sc(case):
    from commonroad.common.util import Interval
    from commonroad.scenario.obstacle import ObstacleRole, ObstacleType
    from crv import gamma
    S = case["S"]
    sc = gamma.scenario()
    obs = [_build(o) for o in S]
    if obs:
        sc.add_objects(obs)
    ev = []
    has_phantom = any(o["role"] == "phantom" for o in S)

    def role_of(r):
        return None if r == "any" else ObstacleRole(r)

    def call(e, fn):
        try:
            e["res"] = fn()
        except Exception as ex:
            e["res"] = _exc(ex)
        ev.append(e)
    ivl = any(_has_intervals(o) for o in S if o["role"] in ("dynamic", "phantom"))
    tag = "/set-intervals" if ivl else ""
    for t in range(0, case["tmax"] + 1):
        for r in case["roles"]:
            e = {"op": "occupancies_at_time_step", "S": S, "t": t, "role": r, "sig": "occupancies_at_time_step/role=" + r + tag}
            if ivl:                                                  # the answers the obstacles themselves give at t
                try:
                    e["per"] = [{"id": o["id"], "occ": _occ_key(ob.occupancy_at_time(t))} for o, ob in zip(S, obs)]
                except Exception:
                    pass
            call(e, lambda: {"k": "ok", "occs": [_occ_key(c) for c in sc.occupancies_at_time_step(t, role_of(r))]})

        def states():
            d = sc.obstacle_states_at_time_step(t)
            return {"k": "ok", "states": [dict(_state_key(s), id=i) for i, s in sorted(d.items())]}
        call({"op": "obstacle_states_at_time_step", "S": S, "t": t, "sig": "obstacle_states_at_time_step" + tag}, states)
    for r in case["roles"]:
        for ty in case["types"]:
            sig = "obstacles_by_role_and_type/%s+%s" % ("phantom" if has_phantom else "no-phantom",
                                                         "type-filter" if ty != "any" else "no-type-filter")
            call({"op": "obstacles_by_role_and_type", "S": S, "role": r, "type": ty, "sig": sig},
                 lambda: {"k": "ok", "ids": [x.obstacle_id for x in sc.obstacles_by_role_and_type(
                     role_of(r), None if ty == "any" else ObstacleType(ty))]})
    rs_name = {2: "default", 4: "all"}
    for rs in case["rolesets"]:
        grp = any(o["role"] in rs and o.get("shape", {}).get("k") == "group" for o in S)
        sig = "obstacles_by_position_intervals/roles=%s/%s" % (rs_name.get(len(rs), rs[0]), "group-shape" if grp else "plain") + tag
        for t in case["times"]:
            for ix in case["ivs"]:
                for iy in case["ivs"]:
                    call({"op": "obstacles_by_position_intervals", "S": S, "ix": ix, "iy": iy, "roles": rs, "t": t, "sig": sig},
                         lambda: {"k": "ok", "ids": [x.obstacle_id for x in sc.obstacles_by_position_intervals(
                             [Interval(ix[0], ix[1]), Interval(iy[0], iy[1])], tuple(ObstacleRole(r) for r in rs), t)]})
    return {"ev": ev}


def _mutator(m):
    if m["k"] == "move":
        return m["via"] + ".translate_rotate"
    if m["k"] == "update_initial_state" and m.get("reuse"):
        return "update_initial_state+update_prediction(old)"
    if m["k"] == "update_initial_state" and m["pred"]["k"] != "none":
        return "update_initial_state+update_prediction"
    return m["k"]


def _apply(m, sc, ob, o):
    """the ONE public modification of a history case, on the real objects"""
    import numpy as np
    from commonroad.scenario.trajectory import Trajectory
    if m["k"] == "move":
        tr, ang = np.array([float(m["tx"]), float(m["ty"])]), (m["q"] % 4) * math.pi / 2
        if m["via"] == "scenario":
            sc.translate_rotate(tr, ang)
        elif m["via"] == "prediction":
            ob.prediction.translate_rotate(tr, ang)
        else:
            ob.translate_rotate(tr, ang)
    elif m["k"] == "set_trajectory":
        ob.prediction.trajectory = Trajectory(m["states"][0]["t"], [_state(x) for x in m["states"]])
    elif m["k"] == "set_shape":
        ob.prediction.shape = _shape(m["shape"])
    elif m["k"] == "update_prediction":
        ob.update_prediction(_prediction({"pred": m["pred"], "shape": o["shape"]}))
    elif m["k"] == "set_prediction":
        ob.prediction = _prediction({"pred": m["pred"], "shape": o["shape"]})           # None for "none"
    elif m["k"] == "update_initial_state":
        old = ob.prediction
        ob.update_initial_state(_state(m["state"]))
        if m.get("reuse"):
            ob.update_prediction(old)                                # the earlier-computed prediction is attached again
        elif m["pred"]["k"] != "none":
            ob.update_prediction(_prediction({"pred": m["pred"], "shape": o["shape"]}))
    elif m["k"] == "set_initial_state":
        ob.initial_state = _state(m["state"])
    else:
        raise ValueError("unknown modification %r" % (m,))


def _exec_hist(case):
    """cold: modify, then query; warm: query (fills caches), modify, query.  Events after the modification carry m;
    their expected answers are those of the modified descriptor (computed by the trace spec)."""
    from commonroad.common.util import Interval
    from crv import gamma
    S, m, S2, tmax = case["S"], case["m"], case["S2"], case["tmax"]
    o, o2 = S[0], S2[0]                                             # the target of per-obstacle queries
    ev = []
    for variant in ("cold", "warm"):
        suffix = "/after-%s/%s" % (_mutator(m), variant)
        obs = [_build(x) for x in S]
        sc = gamma.scenario()
        sc.add_objects(obs)
        ob = obs[0]

        def occ_event(desc, t, extra, sfx):
            try:
                res = _occ_key(ob.occupancy_at_time(t))
            except Exception as ex:
                res = _exc(ex)
            ev.append(dict({"op": "occupancy_at_time", "o": o, "t": t, "res": res,
                            "sig": _sig("occupancy_at_time", desc, t) + sfx}, **extra))

        def sc_occ_event(t, extra, sfx):
            try:
                res = {"k": "ok", "occs": [_occ_key(c) for c in sc.occupancies_at_time_step(t)]}
            except Exception as ex:
                res = _exc(ex)
            ev.append(dict({"op": "occupancies_at_time_step", "S": S, "t": t, "role": "any", "res": res,
                            "sig": "occupancies_at_time_step/role=any" + sfx}, **extra))

        def pos_event(t, ix, iy, extra, sfx):
            try:
                res = {"k": "ok", "ids": [x.obstacle_id for x in sc.obstacles_by_position_intervals(
                    [Interval(ix[0], ix[1]), Interval(iy[0], iy[1])], time_step=t)]}
            except Exception as ex:
                res = _exc(ex)
            ev.append(dict({"op": "obstacles_by_position_intervals", "S": S, "ix": ix, "iy": iy,
                            "roles": ["dynamic", "static"], "t": t, "res": res,
                            "sig": "obstacles_by_position_intervals/roles=default/plain" + sfx}, **extra))
        t1 = o2["t0"] + 1 + o2["pred"].get("g", 0)                   # first predicted step after the modification
        if variant == "warm":
            for t in range(0, tmax + 1):
                occ_event(o, t, {}, "/warm-up")
                sc_occ_event(t, {}, "/warm-up")
            pos_event(t1, case["ivs"][1], case["ivs"][1], {}, "/warm-up")
            pos_event(o["t0"], case["ivs"][1], case["ivs"][1], {}, "/warm-up")
        try:
            _apply(m, sc, ob, o)
        except Exception as ex:
            ev.append({"op": "occupancy_at_time", "o": o, "m": m, "t": o["t0"], "res": _exc(ex), "sig": "modify" + suffix})
            continue
        mm = {"m": m}
        for t in range(0, tmax + 1):
            occ_event(o2, t, mm, suffix)
            if o["role"] != "environment":
                try:
                    res = _state_key(ob.state_at_time(t))
                except Exception as ex:
                    res = _exc(ex)
                sig = "state_at_time/phantom" if o["role"] == "phantom" else \
                    "state_at_time/%s/%s/t=%s" % (o2["role"], o2["pred"]["k"], _where(o2, t))
                ev.append({"op": "state_at_time", "o": o, "m": m, "t": t, "res": res, "sig": sig + suffix})
            sc_occ_event(t, mm, suffix)
            try:
                d = sc.obstacle_states_at_time_step(t)
                res = {"k": "ok", "states": [dict(_state_key(x), id=i) for i, x in sorted(d.items())]}
            except Exception as ex:
                res = _exc(ex)
            ev.append({"op": "obstacle_states_at_time_step", "S": S, "m": m, "t": t, "res": res,
                       "sig": "obstacle_states_at_time_step" + suffix})
        for tq in sorted({t1, o2["t0"]}):                            # first predicted step and the (new) initial step
            for iv in case["ivs"]:
                pos_event(tq, iv, iv, mm, suffix)
    return {"ev": ev}


def _ri(v):
    return int(round(float(v)))


def _state_desc(st):
    """a real (exact) state -> state record of Occupancy.tla (projection: lattice rounding, quarter-turn index)"""
    from commonroad.scenario.state import CustomState, InitialState, PMState
    if isinstance(st, InitialState):
        kind = "initial"
    elif isinstance(st, PMState):
        kind = "pm"
    elif isinstance(st, CustomState):
        kind = "custom" if hasattr(st, "orientation") else "custompm"
    else:
        kind = "oriented"
    pm = kind in ("pm", "custompm")
    q = 0 if pm else max(_quarter(getattr(st, "orientation", None))[0], 0)
    return {"k": "state", "kind": kind, "t": int(st.time_step), "x": _ri(st.position[0]), "y": _ri(st.position[1]), "q": q,
            "vx": _ri(st.velocity) if pm else 0, "vy": _ri(st.velocity_y) if pm else 0, "unc": "none"}


def _shape_desc(sh):
    """a real obstacle shape (about the shape origin) -> shape record"""
    from commonroad.geometry.shape import Circle, Polygon, Rectangle, ShapeGroup
    if isinstance(sh, Rectangle):
        return {"k": "rect", "a": _ri(sh.length), "b": _ri(sh.width)}
    if isinstance(sh, Circle):
        return {"k": "disc", "a": _ri(sh.radius)}
    if isinstance(sh, Polygon):
        return {"k": "poly", "v": [[_ri(p[0]), _ri(p[1])] for p in sh.vertices[:-1]]}
    if isinstance(sh, ShapeGroup):
        return {"k": "group", "parts": [{"a": _ri(p.length), "b": _ri(p.width), "cx": _ri(p.center[0]), "cy": _ri(p.center[1])}
                                        for p in sh.shapes]}
    raise ValueError("no descriptor for %r" % (sh,))


def _observe(ob):
    """CURRENT primary data of a dynamic obstacle, read through public accessors only (no cache is touched):
    initial_state, obstacle_shape, prediction.trajectory.state_list + prediction.shape / prediction.occupancy_set"""
    from commonroad.prediction.prediction import SetBasedPrediction, TrajectoryPrediction
    pr = ob.prediction
    if isinstance(pr, TrajectoryPrediction):
        pred = {"k": "traj", "g": 0, "states": [_state_desc(x) for x in pr.trajectory.state_list], "shape": _shape_desc(pr.shape)}
    elif isinstance(pr, SetBasedPrediction):
        pred = {"k": "set", "g": 0, "occs": [{"t": int(c.time_step), "region": _shape_key(c.shape)} for c in pr.occupancy_set]}
    else:
        pred = {"k": "none"}
    return {"k": "observed", "id": ob.obstacle_id, "init": _state_desc(ob.initial_state), "shape": _shape_desc(ob.obstacle_shape),
            "pred": pred}


def _build_sharing(o2, first, share):
    """the second obstacle, built from the SAME state list / Shape / occupancy list object as `first`"""
    from commonroad.prediction.prediction import SetBasedPrediction, TrajectoryPrediction
    from commonroad.scenario.obstacle import DynamicObstacle, ObstacleType
    from commonroad.scenario.trajectory import Trajectory
    typ, init = ObstacleType(o2["type"]), _state(o2["init"])
    if share == "states":
        lst = first.prediction.trajectory.state_list                 # the list object handed out by the accessor
        return DynamicObstacle(o2["id"], typ, _shape(o2["shape"]), init,
                               TrajectoryPrediction(Trajectory(lst[0].time_step, lst), _shape(o2["shape"])))
    if share == "shape":
        sts = o2["pred"]["states"]
        return DynamicObstacle(o2["id"], typ, first.obstacle_shape, init,
                               TrajectoryPrediction(Trajectory(sts[0]["t"], [_state(x) for x in sts]), first.prediction.shape))
    if share == "occs":
        lst = first.prediction.occupancy_set                         # one list of Occupancy objects for two predictions
        return DynamicObstacle(o2["id"], typ, _shape(o2["shape"]), init, SetBasedPrediction(o2["pred"]["occs"][0]["t"], lst))
    raise ValueError("unknown sharing %r" % share)


def _exec_shared(case):
    """Two obstacles built from one data object; only the FIRST is moved.  The statement does not say whether the SECOND
    moves along; it must answer consistently with its CURRENT primary data (read back with _observe and logged as the
    `observed` modification; the trace spec recomputes every answer from it), per obstacle and at scenario level."""
    import numpy as np
    from commonroad.common.util import Interval
    from crv import gamma
    S, m, tmax = case["S"], case["m"], case["tmax"]
    o1, o2 = S
    S_ev = [o2]
    ev = []
    via = {"obstacle": "obstacle", "prediction": "prediction", "trajectory": "trajectory"}[m["via"]]
    for variant in ("cold", "warm"):
        suffix = "/shared-%s/after-%s.translate_rotate/%s" % (m["share"], via, variant)
        first = _build(o1)
        ob = _build_sharing(o2, first, m["share"])
        sc = gamma.scenario()
        sc.add_objects([ob])

        def q(fn):
            try:
                return fn()
            except Exception as ex:
                return _exc(ex)

        def round_(extra, sfx, full):
            for t in range(0, tmax + 1):
                ev.append(dict({"op": "occupancy_at_time", "o": o2, "t": t, "res": q(lambda: _occ_key(ob.occupancy_at_time(t))),
                                "sig": _sig("occupancy_at_time", o2, t) + sfx}, **extra))
                ev.append(dict({"op": "occupancies_at_time_step", "S": S_ev, "t": t, "role": "any",
                                "res": q(lambda: {"k": "ok", "occs": [_occ_key(c) for c in sc.occupancies_at_time_step(t)]}),
                                "sig": "occupancies_at_time_step/role=any" + sfx}, **extra))
                if not full:
                    continue
                ev.append(dict({"op": "state_at_time", "o": o2, "t": t, "res": q(lambda: _state_key(ob.state_at_time(t))),
                                "sig": "state_at_time/%s/%s/t=%s" % (o2["role"], o2["pred"]["k"], _where(o2, t)) + sfx}, **extra))
                ev.append(dict({"op": "obstacle_states_at_time_step", "S": S_ev, "t": t,
                                "res": q(lambda: {"k": "ok", "states": [dict(_state_key(x), id=i) for i, x in
                                                                        sorted(sc.obstacle_states_at_time_step(t).items())]}),
                                "sig": "obstacle_states_at_time_step" + sfx}, **extra))
            if full:
                for tq in (o2["t0"], o2["t0"] + 1):
                    for iv in case["ivs"]:
                        ev.append(dict({"op": "obstacles_by_position_intervals", "S": S_ev, "ix": iv, "iy": iv,
                                        "roles": ["dynamic", "static"], "t": tq,
                                        "res": q(lambda: {"k": "ok", "ids": [x.obstacle_id for x in sc.obstacles_by_position_intervals(
                                            [Interval(iv[0], iv[1]), Interval(iv[0], iv[1])], time_step=tq)]}),
                                        "sig": "obstacles_by_position_intervals/roles=default/plain" + sfx}, **extra))
        if variant == "warm":
            round_({}, "/warm-up", False)
        before = _observe(ob)
        tr, ang = np.array([float(m["tx"]), float(m["ty"])]), (m["q"] % 4) * math.pi / 2
        try:
            if m["via"] == "obstacle":
                first.translate_rotate(tr, ang)
            elif m["via"] == "prediction":
                first.prediction.translate_rotate(tr, ang)
            else:
                first.prediction.trajectory.translate_rotate(tr, ang)
        except Exception as ex:
            ev.append({"op": "occupancy_at_time", "o": o2, "t": o2["t0"], "res": _exc(ex), "sig": "modify" + suffix})
            continue
        cur = _observe(ob)
        # aliased: informational only (the second obstacle's data changed although it was never modified itself)
        round_({"m": cur, "moved": m, "aliased": 0 if cur == before else 1}, suffix, True)
    return {"ev": ev}


def _aliasing_summary(cs):
    """informational: in which shared-data cases the second obstacle's primary data moved along with the first"""
    use_repo()
    import warnings
    warnings.simplefilter("ignore")
    out = {}
    for c in cs:
        if c["kind"] == "hist" and "share" in c["m"]:
            key = "shared-%s/%s.translate_rotate" % (c["m"]["share"], c["m"]["via"])
            d = out.setdefault(key, {"cases": 0, "aliased": 0})
            d["cases"] += 1
            d["aliased"] += 1 if any(e.get("aliased") for e in _exec_shared(c)["ev"]) else 0
    return out


def execute(case):
    use_repo()
    import warnings
    warnings.simplefilter("ignore")
    if case["kind"] == "hist" and "share" in case["m"]:
        return _exec_shared(case)
    if case["kind"] == "hist":
        return _exec_hist(case)
    return _exec_sc(case) if case["kind"] == "sc" else _exec_ob(case)


def corrupt(trace, rng):
    """Corrupt ONE logged field of one event: the trace spec must reject exactly that event."""
    cands = []
    for i, e in enumerate(trace["ev"]):
        r = e.get("res", {})
        if e["op"] == "occupancy_at_time" and "obs" in e:
            if e["obs"]:
                cands.append((i, "flag"))
        elif e["op"] == "occupancy_at_time" and r.get("k") in ("rect", "poly"):
            cands.append((i, "vertex"))
        elif e["op"] == "occupancy_at_time" and r.get("k") == "None":
            cands.append((i, "region"))
        elif e["op"] == "state_at_time" and r.get("k") == "state":
            cands.append((i, "ts"))
        elif e["op"] == "obstacles_by_role_and_type" and r.get("k") == "ok":
            cands.append((i, "ids"))
        elif e["op"] == "occupancies_at_time_step" and r.get("k") == "ok" and r["occs"]:
            cands.append((i, "drop"))
    if not cands:
        return None
    i, how = rng.choice(cands)
    e = trace["ev"][i]
    if how == "flag":
        e["obs"][0][3] = 0
    elif how == "vertex":
        e["res"]["vs"][0][0] += 2
    elif how == "region":
        e["res"] = {"k": "disc", "c": [0, 0], "r2": 2, "exact": 1}
    elif how == "ts":
        e["res"]["ts"] += 1
    elif how == "ids":
        e["res"]["ids"] = e["res"]["ids"] + [99]
    elif how == "drop":
        e["res"]["occs"] = e["res"]["occs"][1:]
    return trace
