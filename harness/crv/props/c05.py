"""C05 - translate_rotate is the exact rigid motion on every object (spec: Transform.tla).

gamma  builds the reference world of spec/Transform.tla!World (integer coordinates, orientations atan2(s, c) of tokens)
       through public constructors: three lanelets (one with a stop line, one with a point-less stop line; lanelets 1 and 3 are neighbours and, in the
       "shared-arrays" variant, hold ONE ndarray object as common boundary), a sign, a light, an area with two borders and one without, a static obstacle, dynamic
       obstacles with a KS trajectory (incl. an uncertain state), a point-mass trajectory (PMState: position + derived
       heading), an orientation-free CustomState trajectory, a set-based prediction (rect / circle / polygon / shape-group
       occupancies) and an uncertain initial state, a phantom obstacle, two environment obstacles, three planning problems (two of them with
       separate but EQUAL goal regions) with shape / lanelet / orientation-interval goal states - restricted to the obstacle roles of the case's role mix.
variants: cold / warm (exported geometry of every shape evaluated before the motion) and none / shared-arrays.
alpha  snapshots every stored point and orientation before and after the call through PUBLIC accessors of primary data
       only (states, stored shapes, vertices; never occupancy queries on the object under test - that is C11).
The harness never computes the expected image for token rotations: it logs the INTEGER nearest to den * x' and whether
den * x' is within 1e-9 * den * scale of it (exact fractions); Trace_Transform.tla compares that integer with the exact
numerator of R(p + t).  For arbitrary float angles (no exact rational) the logged class is the residual against
math.cos / math.sin (a projection).  Which components must have moved is decided by the spec from the target path.
"""
import math
from fractions import Fraction

from crv.core import use_repo
from crv.tlc import MachineryError

PROPERTY = "C05"
MODULES = ["Transform", "MC_Transform", "Trace_Transform"]
TRACE = ("Trace_Transform", "Trace_Transform.cfg")
EXHAUSTIVE = True
RULE = ("TLC enumerates every level instance of the reference world (every prefix of a component path: scenario, lanelet "
        "network, each lanelet, stop line, sign, light, each obstacle of each role, predictions, trajectory, stored "
        "occupancies, shapes of each kind, states, planning problem set, planning problems, goal, goal states) x the whole "
        "rotation table (4 axis rotations, 32 Pythagorean angles, 10 small angles on both sides of 0.05 rad, with -1/0/+1 full "
        "turns inside [-2pi, 2pi]) at t = (3,-2) for the two roots, and below them axis + (3,4,5) octants + all small angles + "
        "14 sampled tokens; x 14 sampled tokens at t = (0,0) and, with the two-step undo (single-call undo: 4 tokens), at "
        "t = (-50,70); the state-class universes (18 classes by attribute combination: stand-alone, as trajectory state "
        "incl. the occupancy reported after the motion, as goal state) x every level x the sampled tokens; "
        "the 15 proper role subsets x 4 tokens at scenario level (thorough: targets x 3 translations x whole table, undo "
        "none / two-step / single-call by translation); each case = 1 call event + 1 event per component kind + 1 per "
        "derived quantity (+ 1 per kind after the undo); plus seeded "
        "random float angles (uniform, dense near 0, near +-0.05, near multiples of pi/2 and +-2pi) x random targets x "
        "random integer translations.  Histories: two motions on the same object (judged by R(R(p+t1)+t2)) and three motions on "
        "fresh objects, back to back in one process, translations differing by -1 vs -2 in one component, 3 tokens, 26 "
        "targets.  Variants: cold (moved right after construction) for every case, warm (.vertices / "
        ".shapely_object / contains_point of every reachable shape evaluated before the motion) for the sampled tokens at "
        "t != 0, the role mixes and every 5th other case (thorough: all).  Aliasing: every case at level scenario / lanelet_network / "
        "lanelet also on the world in which lanelets 1 and 3 hold one ndarray object as common boundary (sig suffix "
        "/shared-arrays).  Quick: full turns (-1/+1) only at the two roots and for the sampled tokens.  "
        "distinct_nontrivial = distinct (target, t, rotation, mix, undo, variant, alias) with a non-identity motion.")
ASSUMPTIONS = ["stored points are integers |x| <= 26, orientations atan2(s, c) of axis / (3,4,5) tokens; translations integer",
               "tolerance 1e-9 * den * (1 + |x + tx| + |y + ty|) on den * x' (tokens), 1e-9 * scale against math.cos/sin "
               "(float angles), 1e-9 on directions, 1e-9 relative on derived quantities",
               "polygon vertices are compared index-wise (the stored ring starts at the first given vertex, clockwise)",
               "point-mass states: position (Image) and the derived heading atan2(velocity_y, velocity) (pm_heading must turn by "
               "the angle); the velocity components themselves are not asserted; CustomState with velocity components and no "
               "orientation: position only",
               "functional levels (State / Shape.translate_rotate return a new object): the returned object is observed",
               "exported rectangle corners (public .vertices) are point components rect_corners/<where>: originals read from a "
               "never-moved twin (integers within 1e-9, sizes chosen accordingly), checked against Transform!RectCorners; corner "
               "order as exported; containment probe = the shape contains its own stored centre / centroid (convex shapes)",
               "warm variant touches shapes only (obstacle shapes, stored occupancy shapes, regions, goal shapes); it never "
               "queries occupancy_at_time / TrajectoryPrediction.occupancy_set on the object under test (C11)",
               "float-angle cases: expected image from math.cos / math.sin in the harness (projection), no undo"]

SC, NET, PPS = ("scenario", "-"), ("lanelet_network", "-"), ("planning_problem_set", "-")
ST, PRED, TRAJ, GOAL = ("state", "-"), ("prediction", "-"), ("trajectory", "-"), ("goal", "-")
ROLES = ["static", "dynamic", "phantom", "environment"]
TWO_PI = 2 * math.pi
_AXIS = [(1, 0, 1), (0, 1, 1), (-1, 0, 1), (0, -1, 1)]
_ORI = {}
for _a, _b in ((3, 4), (4, 3)):
    for _sa in (1, -1):
        for _sb in (1, -1):
            _ORI[math.atan2(_sb * _b, _sa * _a)] = (_sa * _a, _sb * _b, 5)
for _c, _s, _d in _AXIS:
    _ORI[math.atan2(_s, _c)] = (_c, _s, _d)


def _th(c, s):
    return math.atan2(s, c)


# state classes by attribute combination: mirror of Transform!StateClasses (checked by the trace spec: world-mismatch)
PARTS = ("states", "statetraj", "stategoal")
CLASSES = [("initial", "exact", "x", 1), ("ks", "exact", "x", 1), ("kst", "exact", "x", 1), ("st", "exact", "x", 1),
           ("std", "exact", "x", 1), ("mb", "exact", "xy", 1), ("pm", "derived", "xy", 1), ("extpm", "exact", "x", 1),
           ("lateral", "exact", "none", 0),
           ("c_e_xy", "exact", "xy", 1), ("c_e_x", "exact", "x", 1), ("c_e_n", "exact", "none", 1),
           ("c_n_xy", "none", "xy", 1), ("c_n_x", "none", "x", 1), ("c_n_n", "none", "none", 1),
           ("c_i_xy", "interval", "xy", 1), ("c_i_x", "interval", "x", 1), ("c_i_n", "interval", "none", 1)]
_ORI_LIST = [(3, 4, 5), (4, 3, 5), (0, 1, 1), (-3, 4, 5), (4, -3, 5), (-1, 0, 1)]
_VEL_LIST = [(3, 4), (4, -3), (-4, 3), (-3, -4)]
GOAL_IDX = [1, 2, 3, 4, 5, 6, 8, 7, 17]


def _cls_state(i, t, goal=False):
    """State of class i (1-based index into CLASSES) with the data of Transform!SPos / SOris / SVels."""
    from crv import gamma as g
    cid, ori, vel, pos = CLASSES[i - 1]
    name = cid if not cid.startswith("c_") else "custom"
    p = (2 * i - 19, 10 - i)
    if goal:
        has_ori = ori != "derived"
        return g.state_by_class(name, (0, 10), g.circle(1, p), (_th(4, 3), _th(3, 4)) if has_ori else None, (0.0, 10.0))
    o = None
    if ori == "exact":
        c, s_, _ = _ORI_LIST[i % 6]
        o = _th(c, s_)
    elif ori == "interval":
        o = (_th(4, 3), _th(3, 4))
    vx = vy = None
    if vel == "xy":
        vx, vy = _VEL_LIST[i % 4]
    elif vel == "x":
        vx = i + 1
    return g.state_by_class(name, t, p if pos else None, o, vx, vy)


def _has_heading(i):
    _, ori, vel, pos = CLASSES[i - 1]
    return pos == 1 and (ori == "exact" or (ori in ("none", "derived") and vel == "xy"))


def _build_part(mix):
    from crv import gamma as g
    from commonroad.planning.goal import GoalRegion
    from commonroad.planning.planning_problem import PlanningProblem
    sc, alone, problems = g.scenario(), {}, []
    if "states" in mix:
        alone = {CLASSES[i - 1][0]: _cls_state(i, 1) for i in range(1, len(CLASSES) + 1)}
    if "statetraj" in mix:
        for i in range(1, len(CLASSES) + 1):
            if CLASSES[i - 1][3]:
                p = (2 * i - 19, 10 - i)
                sc.add_objects(g.dynamic_obstacle_from(100 + i, g.rect(2, 1), g.init_state(p[0], p[1] - 1, 0.0),
                                                       g.trajectory_prediction_from_states(g.rect(2, 1), [_cls_state(i, 1)])))
    if "stategoal" in mix:
        problems = [PlanningProblem(41, g.init_state(0, 0, 0.0), GoalRegion([_cls_state(i, None, goal=True) for i in GOAL_IDX]))]
    return sc, g.planning_problem_set(problems), alone


def model_check(ctx):
    # the model has no actions (one state per case, laws are state predicates): coverage only in the thorough tier
    ctx.mc("MC_Transform", "MC_Transform_t.cfg" if ctx.thorough else "MC_Transform.cfg", coverage=ctx.thorough, timeout=3000)
    ctx.mc_expect("MC_Transform", "DEV_Transform_1.cfg", "G_LawImplRigid")
    ctx.mc_expect("MC_Transform", "DEV_Transform_2.cfg", "G_LawImplConforms")


# ---- cases ------------------------------------------------------------------------------------------------------
def _rnd_angle(rng):
    u = rng.random()
    if u < 0.35:
        return rng.uniform(-TWO_PI, TWO_PI)
    if u < 0.60:
        return rng.choice((-1, 1)) * 10 ** rng.uniform(-12, -1)
    if u < 0.80:
        return rng.choice((-1, 1)) * (0.05 + rng.choice((0.0, 1e-17, -1e-17, rng.gauss(0, 1e-3), rng.gauss(0, 1e-9))))
    if u < 0.92:
        return max(-TWO_PI, min(TWO_PI, rng.randint(-4, 4) * math.pi / 2 + rng.choice((0.0, rng.gauss(0, 1e-6)))))
    if u < 0.97:
        return rng.choice((-1, 1)) * (TWO_PI - rng.choice((0.0, 10 ** rng.uniform(-12, -1))))
    return rng.choice((0, 1, -1, 2, -3, 6, -6))           # int angles are allowed by the signatures


def cases(ctx):
    cs = ctx.gen("MC_Transform", "GEN_Transform_t.cfg" if ctx.thorough else "GEN_Transform.cfg", timeout=3000)
    for c in cs:
        c["mode"] = "tok"
        c["mix"] = sorted(c["mix"])
    targets = sorted({_key(c["tgt"]) for c in cs if len(c["mix"]) == 4})
    rng = ctx.rng
    for _ in range(6000 if ctx.thorough else 1500):
        tgt = [list(p) for p in rng.choice(targets)]
        cs.append({"tgt": tgt, "t": [rng.randint(-60, 60), rng.randint(-60, 60)], "rot": [0, 0, 0, 0],
                   "angle": _rnd_angle(rng), "mix": list(ROLES), "undo": "none", "steps": [], "mode": "flt",
                   "level": tgt[-1][0]})
    for m in range(16):        # every role mix at scenario level with a float angle as well
        mix = [r for i, r in enumerate(ROLES) if m >> i & 1]
        cs.append({"tgt": [list(SC)], "t": [rng.randint(-60, 60), rng.randint(-60, 60)], "rot": [0, 0, 0, 0],
                   "angle": rng.uniform(0.2, 6.0), "mix": mix, "undo": "none", "steps": [], "mode": "flt",
                   "level": "scenario"})
    # two variants: "cold" (objects moved right after construction) and "warm" (the exported geometry of every shape -
    # .vertices / .shapely_object / contains_point - was evaluated before the motion, as after a goal check or a draw).
    # quick tier: warm for every case with the sampled tokens at a non-zero translation, the role mixes, and every 5th
    # of the remaining ones; thorough: both variants everywhere.
    sample = {(1, 0, 1, 0), (0, 1, 1, 0), (-1, 0, 1, -1), (3, 4, 5, 0), (-20, -21, 29, 0), (5, -12, 13, 1), (399, 40, 401, 0),
              (1520, -78, 1522, 0), (1599, 80, 1601, 0), (1599, -80, 1601, 0), (9999, 200, 10001, 0), (1599, 80, 1601, -1),
              (1, 0, 1, 1), (1680, -82, 1682, 1)}
    part_targets = sorted({(_key(c["tgt"]), c["mix"][0]) for c in cs if set(c["mix"]) & set(PARTS)})
    for _ in range(1200 if ctx.thorough else 300):       # float angles on the state-class universes
        tgt, part = rng.choice(part_targets)
        cs.append({"tgt": [list(p) for p in tgt], "t": [rng.randint(-60, 60), rng.randint(-60, 60)], "rot": [0, 0, 0, 0],
                   "angle": _rnd_angle(rng), "mix": [part], "undo": "none", "steps": [], "mode": "flt", "level": tgt[-1][0]})
    out = []
    for i, c in enumerate(cs):
        out.append(dict(c, variant="cold"))
        if set(c["mix"]) & set(PARTS) or c["undo"].startswith("seq"):   # parts: no exported geometry; sequences: cold only
            continue
        if (ctx.thorough or len(c["mix"]) < 4 or i % 5 == 0
                or (c["mode"] == "tok" and tuple(c["rot"]) in sample and c["t"] != [0, 0] and c["undo"] != "one")):
            out.append(dict(c, variant="warm"))
    # aliasing variant: lanelets 1 and 3 hold one ndarray object as common boundary; every case that addresses the
    # scenario, the lanelet network or a lanelet is run on that world as well (same lattice points, same expectations)
    for c in list(out):
        if c["level"] in ("scenario", "lanelet_network", "lanelet") and len(c["mix"]) == 4 and not c["undo"].startswith("seq") \
                and (c["variant"] == "cold" or ctx.thorough):
            out.append(dict(c, alias="shared-arrays"))
    return out


def _key(path):
    return tuple((p[0], p[1]) for p in path)


def nontrivial(case):
    if case["mode"] == "tok":
        if case["rot"][0] == case["rot"][2] and case["t"] == [0, 0]:
            return None
        ang = tuple(case["rot"])
    else:
        if case["angle"] == 0.0 and case["t"] == [0, 0]:
            return None
        ang = case["angle"]
    return (_key(case["tgt"]), tuple(case["t"]), ang, tuple(case["mix"]), case["undo"], case.get("variant", "cold"), case.get("alias", "none"))


# ---- gamma: the reference world of Transform.tla ------------------------------------------------------------------
def build(mix, alias="none"):
    """-> (Scenario, PlanningProblemSet) on integer coordinates; obstacles only for the roles in `mix`.
    alias = "shared-arrays": lanelet 1 and its left neighbour 3 hold ONE float64 ndarray object as common boundary
    (same lattice points, only the object identity differs; the Lanelet constructor stores the array it is given)."""
    import numpy as np
    from crv import gamma as g
    if set(mix) & set(PARTS):
        return _build_part(mix)
    from commonroad.planning.goal import GoalRegion
    from commonroad.planning.planning_problem import PlanningProblem
    from commonroad.scenario.obstacle import EnvironmentObstacle, ObstacleType
    def arr(v):
        return np.array(v, dtype=np.float64)
    common = arr([(0, 2), (4, 2), (8, 3)])                 # left boundary of lanelet 1 = right boundary of lanelet 3
    l1 = g.lanelet_from_arrays(1, common, arr([(0, 1), (4, 1), (8, 2)]), arr([(0, 0), (4, 0), (8, 1)]), successor=[2],
                               stop_line=g.stop_line((8, 1), (8, 3)), adjacent_left=3, adjacent_left_same_direction=True)
    l2 = g.lanelet_from_polylines(2, [(8, 3), (12, 5)], [(8, 1), (12, 3)], predecessor=[1],
                                  stop_line=g.stop_line_without_points())
    l3 = g.lanelet_from_arrays(3, arr([(0, 4), (4, 4), (8, 5)]), arr([(0, 3), (4, 3), (8, 4)]),
                               common if alias == "shared-arrays" else common.copy(),
                               adjacent_right=1, adjacent_right_same_direction=True)
    net = g.network([l1, l2, l3], [g.sign(11, (4, -1))], [g.light(12, (8, 4))])          # add_lanelet: no deep copy
    net.add_area(g.area(8, [(81, [(0, 0), (4, 0), (8, 1)], [1]), (82, [(0, -2), (4, -2), (8, -1)], None)]), {1})
    net.add_area(g.area(9, None), {2})                                                  # an area without borders
    sc = g.scenario()
    sc.add_objects(net)
    if "static" in mix:
        sc.add_objects(g.static_obstacle_from(21, g.rect(4, 2), g.init_state(2, 1, _th(3, 4))))
    if "dynamic" in mix:
        traj = [g.ks_state(1, (2, 1), 0.0), g.ks_state(2, (4, 1), _th(4, 3)), g.ks_state(3, (6, 2), _th(3, 4)),
                g.ks_state(4, g.circle(1, (8, 3)), (_th(4, 3), _th(3, 4)))]
        sc.add_objects(g.dynamic_obstacle_from(22, g.rect(4, 2), g.init_state(0, 1, 0.0),
                                               g.trajectory_prediction_from_states(g.rect(4, 2), traj)))
        occ = [g.rect(20, 10, (3, -3), _th(4, 3)), g.circle(2, (5, -3)), g.polygon([(6, -4), (6, -1), (9, -2), (9, -4)]),
               g.shape_group([g.rect(4, 2, (10, -3), _th(0, 1)), g.circle(1, (12, -3)),
                              g.polygon([(13, -4), (14, -2), (15, -4)])])]
        sc.add_objects(g.dynamic_obstacle_from(23, g.rect(2, 1), g.init_state(1, -3, _th(0, 1)),
                                               g.set_based_prediction(occ, 1)))
        sc.add_objects(g.dynamic_obstacle_from(
            24, g.rect(4, 2), g.uncertain_init_state(g.rect(20, 10, (-5, 5), _th(3, 4)), _th(4, 3), _th(3, 4))))
        pm = [g.pm_state(1, (-3, -8), 3, 4), g.pm_state(2, (0, -4), 4, -3)]          # heading = atan2(velocity_y, velocity)
        sc.add_objects(g.dynamic_obstacle_from(25, g.rect(2, 1), g.init_state(-3, -9, 0.0),
                                               g.trajectory_prediction_from_states(g.rect(2, 1), pm)))
        cu = [g.custom_pm_state(1, (-8, -11), 0, 1), g.custom_pm_state(2, (-7, -10), 1, 1)]   # no orientation at all
        sc.add_objects(g.dynamic_obstacle_from(29, g.circle(1), g.init_state(-8, -12, _th(0, 1)),
                                               g.trajectory_prediction_from_states(g.circle(1), cu)))
    if "phantom" in mix:
        sc.add_objects(g.phantom_obstacle(26, [(1, g.rect(20, 10, (-10, 0), _th(-3, 4))),
                                               (2, g.polygon([(-12, 2), (-9, 4), (-9, 2)]))]))
    if "environment" in mix:
        sc.add_objects(EnvironmentObstacle(27, ObstacleType.BUILDING, g.polygon([(20, 20), (20, 23), (24, 23), (24, 20)])))
        sc.add_objects(EnvironmentObstacle(28, ObstacleType.BUILDING, g.rect(20, 10, (26, 14), _th(4, -3))))
    # lanelet goal: the polygon of (a twin of) lanelet 2 in a ShapeGroup, as the file readers build lanelet goal positions
    twin = g.network([g.lanelet_from_polylines(2, [(8, 3), (12, 5)], [(8, 1), (12, 3)])])
    goal31 = GoalRegion([g.goal_state(g.rect(20, 10, (12, 4), _th(3, 4)), _th(4, 3), _th(3, 4)),
                         g.goal_state(g.shape_group([twin.find_lanelet_by_id(2).polygon])),
                         g.goal_state(None, _th(0, -1), _th(0, 1)),
                         g.goal_state(g.circle(2, (-4, -8))),
                         g.goal_state(g.polygon([(-20, -10), (-16, -7), (-16, -10)]))], {1: [2]})
    goal32 = GoalRegion([g.goal_state(g.rect(2, 2, (-6, -6), 0.0))])
    goal33 = GoalRegion([g.goal_state(g.rect(2, 2, (-6, -6), 0.0))])      # a separate object that compares (and hashes) equal
    if not (goal32 == goal33 and hash(goal32) == hash(goal33) and goal32 is not goal33):
        raise MachineryError("reference world: goal regions of planning problems 32 and 33 are expected to be equal")
    pps = g.planning_problem_set([PlanningProblem(31, g.init_state(0, 1, 0.0), goal31),
                                  PlanningProblem(32, g.init_state(-3, -3, _th(0, -1)), goal32),
                                  PlanningProblem(33, g.init_state(-2, -5, _th(0, 1)), goal33)])
    return sc, pps, {}


# ---- alpha: stored points / orientations and derived quantities, through public accessors ---------------------------
# walk modes:  "primary"  stored primary data only (centres, orientations, polygon vertices) - the cold "before" snapshot
#              "touch"    primary + the warm-up: .vertices / .shapely_object / contains_point of every shape are evaluated
#              "full"     primary + exported rectangle corners (public .vertices) + containment probes + derived quantities
def _shape_kind(shape):
    from commonroad.geometry.shape import Circle, Polygon, Rectangle, ShapeGroup
    for cls, k in ((Rectangle, "rect"), (Circle, "circle"), (Polygon, "polygon"), (ShapeGroup, "group")):
        if isinstance(shape, cls):
            return k
    raise MachineryError("unknown shape %r" % (shape,))


def _touch(shape):
    """Warm-up of one shape: evaluate the lazily computed / exported planar geometry before the motion."""
    import numpy as np
    k = _shape_kind(shape)
    if k == "group":
        for s in shape.shapes:
            _touch(s)
        return
    if k != "circle":
        shape.vertices
    shape.shapely_object
    shape.contains_point(np.array(shape.center, dtype=float))


def _shape_data(shape, name, der, mode):
    """-> (kind suffix, pts, oris, corners): corners = exported corner points of the rectangles (mode "full" only)."""
    import numpy as np
    k = _shape_kind(shape)
    if mode == "touch":
        _touch(shape)
    if k == "group":
        pts, oris, corners = [], [], []
        for i, s in enumerate(shape.shapes):
            _, p, o, c = _shape_data(s, "%s/%d" % (name, i), der, "primary" if mode == "touch" else mode)
            pts += p
            oris += o
            corners += c
        return k, pts, oris, corners
    if mode == "full":
        der.setdefault("contains_center", []).append(
            (name, 1.0 if shape.contains_point(np.array(shape.center, dtype=float)) else 0.0))
    if k == "rect":
        corners = []
        if mode == "full":
            der.setdefault("rect_dims", []).extend([(name + "/length", shape.length), (name + "/width", shape.width)])
            der.setdefault("rect_area", []).append((name, shape.shapely_object.area))
            corners = [tuple(v) for v in shape.vertices[:-1]]
        return k, [tuple(shape.center)], [shape.orientation], corners
    if k == "circle":
        if mode == "full":
            der.setdefault("circle_radius", []).append((name, shape.radius))
        return k, [tuple(shape.center)], [], []
    if mode == "full":
        der.setdefault("polygon_area", []).append((name, shape.shapely_object.area))
    return k, [tuple(v) for v in shape.vertices[:-1]], [], []          # Polygon: the vertex ring is primary data


def _pname(path):
    return "/".join("%s:%s" % (a, b) for a, b in path)


def walk(world, ov=None, mode="full"):
    """-> (components, derived): components = list of [kind, path, pts, oris] (floats), derived = {quantity: [(name, value)]}.
    ov maps a path to the object to observe instead of the stored one (objects returned by functional translate_rotate)."""
    from commonroad.common.util import AngleInterval
    from commonroad.geometry.shape import Shape
    from commonroad.prediction.prediction import SetBasedPrediction, TrajectoryPrediction
    sc, pps, alone = world
    ov = ov or {}
    comps, der = [], {}
    full = mode == "full"

    def vels_of(st):
        """stored velocity vector (velocity, velocity_y) of a state; velocity_y = 0 when only the speed is stored"""
        names = st.attributes
        vx = getattr(st, "velocity", None) if "velocity" in names else None
        vy = getattr(st, "velocity_y", None) if "velocity_y" in names else None
        if not isinstance(vx, (int, float)):
            return []
        return [(vx, vy if isinstance(vy, (int, float)) else 0.0)]

    def class_state(kind, path, st):
        st = ov.get(path, st)
        stored_ori = None if isinstance(getattr(type(st), "orientation", None), property) else getattr(st, "orientation", None)
        oris = [] if stored_ori is None else \
            ([stored_ori.start, stored_ori.end] if isinstance(stored_ori, AngleInterval) else [stored_ori])
        pos = getattr(st, "position", None)
        comps.append([kind, path, [] if pos is None else [tuple(pos)], oris, vels_of(st)])

    def shape_comp(kind, path, shape, name, group_kind=None):
        k, pts, oris, corners = _shape_data(shape, name, der, mode)
        kind = group_kind if (group_kind and k == "group") else kind
        comps.append([kind, path, pts, oris])
        if corners:
            comps.append(["rect_corners/" + kind, path, corners, []])

    def state(path, st, kp, ko, group_kind=None):
        st = ov.get(path, st)
        name = _pname(path)
        derived_ori = isinstance(getattr(type(st), "orientation", None), property)
        if derived_ori and not isinstance(getattr(st, "position", None), Shape):   # point-mass state: derived heading
            comps.append(["pm_position", path, [tuple(st.position)], []])
            comps.append(["pm_heading", path, [], [st.orientation]])
            return
        if not isinstance(getattr(st, "position", None), Shape) and getattr(st, "orientation", None) is None \
                and getattr(st, "position", None) is not None and getattr(st, "velocity_y", None) is not None:
            comps.append(["custom_position", path, [tuple(st.position)], []])  # velocity components are not asserted
            return
        if getattr(st, "position", None) is not None:
            if isinstance(st.position, Shape):
                shape_comp(kp, path, st.position, name + "/position", group_kind)
            else:
                pts = [tuple(st.position)]
                oris = []
                if getattr(st, "orientation", None) is not None and not isinstance(st.orientation, AngleInterval):
                    oris = [st.orientation]
                comps.append([kp, path, pts, oris])
        if not derived_ori and isinstance(getattr(st, "orientation", None), AngleInterval):
            comps.append([ko, path, [], [st.orientation.start, st.orientation.end]])
            if full:
                der.setdefault("interval_length", []).append((name + "/orientation", st.orientation.length))

    net = sc.lanelet_network
    for la in sorted(net.lanelets, key=lambda x: x.lanelet_id):
        p = (SC, NET, ("lanelet", str(la.lanelet_id)))
        comps.append(["lanelet_left", p, [tuple(v) for v in la.left_vertices], []])
        comps.append(["lanelet_center", p, [tuple(v) for v in la.center_vertices], []])
        comps.append(["lanelet_right", p, [tuple(v) for v in la.right_vertices], []])
        comps.append(["lanelet_polygon", p, [tuple(v) for v in la.polygon.vertices[:-1]], []])
        if full:            # Lanelet.distance is a lazily cached value: never read it before the motion (C11's business)
            der.setdefault("lanelet_length", []).append((_pname(p), la.distance[-1]))
            der.setdefault("lanelet_area", []).append((_pname(p), la.polygon.shapely_object.area))
        if la.stop_line is not None:
            sl = la.stop_line                  # a stop line may have no points (it then lies at the end of the lanelet)
            comps.append(["stop_line", p + (("stop_line", "-"),),
                          [] if sl.start is None or sl.end is None else [tuple(sl.start), tuple(sl.end)], []])
    for ar in sorted(net.areas, key=lambda x: x.area_id):
        for b in ar.border or []:
            comps.append(["area_border", (SC, NET, ("area_border", str(b.area_border_id))),
                          [tuple(v) for v in b.border_vertices], []])
    for s in sorted(net.traffic_signs, key=lambda x: x.traffic_sign_id):
        comps.append(["sign", (SC, NET, ("sign", str(s.traffic_sign_id))), [tuple(s.position)], []])
    for s in sorted(net.traffic_lights, key=lambda x: x.traffic_light_id):
        comps.append(["light", (SC, NET, ("light", str(s.traffic_light_id))), [tuple(s.position)], []])
    for ob in sorted(sc.static_obstacles, key=lambda x: x.obstacle_id):
        p = (SC, ("obstacle_static", str(ob.obstacle_id)))
        if mode == "touch":
            _touch(ob.obstacle_shape)
        state(p + (ST,), ob.initial_state, "static_init", "static_uncertain_ori")
    for cid in sorted(alone, key=lambda c: [x[0] for x in CLASSES].index(c)):          # stand-alone states: own roots
        class_state("st/" + cid, (("state", cid),), alone[cid])
    for ob in sorted(sc.dynamic_obstacles, key=lambda x: x.obstacle_id):
        p = (SC, ("obstacle_dynamic", str(ob.obstacle_id)))
        if ob.obstacle_id > 100:                                   # one obstacle per state class (part "statetraj")
            i = ob.obstacle_id - 100
            state(p + (ST,), ob.initial_state, "dynamic_init", "uncertain_ori")
            class_state("tr/" + CLASSES[i - 1][0], p + (PRED, TRAJ, ("state", "0")), ob.prediction.trajectory.state_list[0])
            if full and _has_heading(i):        # what the obstacle reports AFTER the motion (never queried before it)
                shp = ob.occupancy_at_time(ob.prediction.trajectory.state_list[0].time_step).shape
                comps.append(["tr.occ/" + CLASSES[i - 1][0], p + (PRED, TRAJ, ("occupancy_query", "-")),
                              [tuple(shp.center)], [shp.orientation]])
            continue
        if mode == "touch":
            _touch(ob.obstacle_shape)
        unc = ob.initial_state.is_uncertain_position
        state(p + (ST,), ob.initial_state, "uncertain_pos" if unc else "dynamic_init", "uncertain_ori")
        pred = ob.prediction
        if isinstance(pred, TrajectoryPrediction):
            if mode == "touch":
                _touch(pred.shape)
            for i, st in enumerate(pred.trajectory.state_list):
                state(p + (PRED, TRAJ, ("state", str(i))), st,
                      "trajectory_region" if st.is_uncertain_position else "trajectory_state", "trajectory_ori_interval")
        elif isinstance(pred, SetBasedPrediction):
            for i, occ in enumerate(pred.occupancy_set):          # the STORED occupancies, not an occupancy query
                k = _shape_kind(occ.shape)
                ps = p + (PRED, ("occupancy", str(i)), ("shape_" + k, "-"))
                shape_comp("occ_" + k, ps, ov.get(ps, occ.shape), _pname(ps))
    for ob in sorted(sc.phantom_obstacle, key=lambda x: x.obstacle_id):
        p = (SC, ("obstacle_phantom", str(ob.obstacle_id)))
        if ob.prediction is not None:
            for i, occ in enumerate(ob.prediction.occupancy_set):
                po = p + (PRED, ("occupancy", str(i)))
                shape_comp("phantom_occ", po, occ.shape, _pname(po))
    for ob in sorted(sc.environment_obstacle, key=lambda x: x.obstacle_id):
        p = (SC, ("obstacle_environment", str(ob.obstacle_id)))
        shape_comp("env_shape", p, ob.obstacle_shape, _pname(p))
    for pid in sorted(pps.planning_problem_dict):
        pp = pps.planning_problem_dict[pid]
        p = (PPS, ("planning_problem", str(pid)))
        state(p + (ST,), pp.initial_state, "pp_init", "pp_uncertain_ori")
        for i, st in enumerate(pp.goal.state_list):
            state(p + (GOAL, ("state", str(i))), st, "goal_shape", "goal_ori", group_kind="goal_lanelet")
    return comps, der


def resolve(world, path):
    """Target path -> the real object whose translate_rotate is called (public accessors only)."""
    sc, pps, alone = world
    if path[0][0] == "state":
        return alone[path[0][1]]
    cur = sc if tuple(path[0]) == SC else pps
    for lk, i in path[1:]:
        if lk == "lanelet_network":
            cur = cur.lanelet_network
        elif lk == "lanelet":
            cur = cur.find_lanelet_by_id(int(i))
        elif lk == "stop_line":
            cur = cur.stop_line
        elif lk == "sign":
            cur = cur.find_traffic_sign_by_id(int(i))
        elif lk == "light":
            cur = cur.find_traffic_light_by_id(int(i))
        elif lk.startswith("obstacle_"):
            cur = cur.obstacle_by_id(int(i))
        elif lk == "prediction":
            cur = cur.prediction
        elif lk == "trajectory":
            cur = cur.trajectory
        elif lk == "occupancy":
            cur = cur.occupancy_set[int(i)]
        elif lk.startswith("shape_"):
            cur = cur.shape
        elif lk == "planning_problem":
            cur = cur.find_planning_problem_by_id(int(i))
        elif lk == "goal":
            cur = cur.goal
        elif lk == "state":
            cur = cur.state_list[int(i)] if i != "-" else cur.initial_state
        else:
            raise MachineryError("unknown level kind %r" % lk)
    return cur


# ---- projections ----------------------------------------------------------------------------------------------------
def _int(v):
    """before-value -> integer; stored data is exactly integral, exported corners (cos / sin inside) within 1e-9"""
    n = round(float(v))
    if abs(float(v) - n) > 1e-9:
        raise MachineryError("reference world coordinate is not an integer: %r" % (v,))
    return int(n)


def _tok(th):
    if th not in _ORI:
        raise MachineryError("reference world orientation is not a token angle: %r" % (th,))
    return _ORI[th]


def _finite(*vs):
    return all(isinstance(v, (int, float)) or hasattr(v, "__float__") for v in vs) and all(math.isfinite(float(v)) for v in vs)


def _near_int(v, tol):
    """exact rational (or float) v -> (nearest integer, 1 if v is within tol of it); (0, 0) when out of TLC's range"""
    if isinstance(v, float) and not math.isfinite(v):
        return 0, 0
    v = Fraction(v)
    if abs(v) > 2 * 10 ** 9:
        return 0, 0
    n = round(v)
    return int(n), 1 if abs(v - n) <= tol else 0


def _pt_entry(case, p0, p1):
    x, y = _int(p0[0]), _int(p0[1])
    tx, ty = case["t"]
    scale = 1 + abs(x + tx) + abs(y + ty)
    if p1 is None or not _finite(p1[0], p1[1]):
        return [x, y, 0, 0, 0, 0]
    x1, y1 = float(p1[0]), float(p1[1])
    un = 1 if (x1 == float(p0[0]) and y1 == float(p0[1])) else 0        # bit-for-bit where it was
    if case["mode"] == "tok":
        den = case["rot"][2]
        tol = Fraction(1, 10 ** 9) * den * scale
        nx, fx = _near_int(Fraction(x1) * den, tol)        # den * x' exactly (the float x' is a rational)
        ny, fy = _near_int(Fraction(y1) * den, tol)
        return [x, y, nx, ny, fx & fy, un]
    a = case["angle"]
    ex = math.cos(a) * (x + tx) - math.sin(a) * (y + ty)
    ey = math.sin(a) * (x + tx) + math.cos(a) * (y + ty)
    ok = abs(x1 - ex) <= 1e-9 * scale and abs(y1 - ey) <= 1e-9 * scale
    return [x, y, 0, 0, 1 if ok else 0, un]


def _vel_entry(case, v0, v1):
    """velocity vector before (integers) / after: nearest integers to den * v' + closeness flag (tokens) or 'is v turned
    by the angle' flag (float angles); un = bit-for-bit unchanged.  The spec decides which of the two it expects."""
    vx, vy = _int(v0[0]), _int(v0[1])
    if v1 is None or not _finite(v1[0], v1[1]):
        return [vx, vy, 0, 0, 0, 0]
    x1, y1 = float(v1[0]), float(v1[1])
    un = 1 if (x1 == float(v0[0]) and y1 == float(v0[1])) else 0
    scale = 1 + abs(vx) + abs(vy)
    if case["mode"] == "tok":
        den = case["rot"][2]
        tol = Fraction(1, 10 ** 9) * den * scale
        nx, fx = _near_int(Fraction(x1) * den, tol)
        ny, fy = _near_int(Fraction(y1) * den, tol)
        return [vx, vy, nx, ny, fx & fy, un]
    a = case["angle"]
    ex, ey = math.cos(a) * vx - math.sin(a) * vy, math.sin(a) * vx + math.cos(a) * vy
    return [vx, vy, 0, 0, 1 if (abs(x1 - ex) <= 1e-9 * scale and abs(y1 - ey) <= 1e-9 * scale) else 0, un]


def _ori_entry(case, th0, th1):
    c, s, d = _tok(th0)
    if th1 is None or not _finite(th1):
        return [c, s, d, 0, 0, 0, 0]
    th1 = float(th1)
    un = 1 if th1 == th0 else 0
    if case["mode"] == "tok":
        dd = d * case["rot"][2]
        tol = Fraction(1, 10 ** 9) * dd
        nc, fc = _near_int(dd * math.cos(th1), tol)
        ns, fs = _near_int(dd * math.sin(th1), tol)
        return [c, s, d, nc, ns, fc & fs, un]
    r = math.fmod(th1 - th0 - case["angle"], TWO_PI)
    r = min(abs(r), TWO_PI - abs(r))
    return [c, s, d, 0, 0, 1 if r <= 1e-9 else 0, un]


def angle_of(case):
    if case["mode"] == "flt":
        return case["angle"]
    c, s, _, k = case["rot"]
    return math.atan2(s, c) + TWO_PI * k


def angle_class(case):
    a = abs(angle_of(case))
    if case["mode"] == "tok" and case["rot"][2] == 1 and case["rot"][3] == 0:
        return "axis"
    if a <= 0.05:
        return "small<=0.05"
    if a <= 0.11:
        return "small>0.05"
    if a >= TWO_PI - 0.11:
        return "near2pi"
    return "generic"


def _apply(world, ov, path, t, a):
    """Call translate_rotate on the object at `path` (or on the object that replaced it). -> exc string"""
    import numpy as np
    try:
        obj = ov[path] if path in ov else resolve(world, path)
        res = obj.translate_rotate(np.array([float(t[0]), float(t[1])]), a)
        if res is not None:
            ov[path] = res
        return "None"
    except Exception as ex:         # noqa - the property says the call never fails
        return "exc:" + type(ex).__name__


def _same(a, b):
    return 1 if (_finite(a, b) and abs(float(a) - float(b)) <= 1e-9 * max(1.0, abs(float(b)))) else 0


def _tr_events(case, op, base, before, after, kinds, sig_of):
    """one event per component kind: before-snapshot vs. after-snapshot under the projection of `case`"""
    amap = {(c[0], c[1]): c for c in after}
    out = []
    for k in kinds:
        comps = []
        for bc in before:
            kind, p, pts, oris = bc[:4]
            vels = bc[4] if len(bc) > 4 else []
            if kind != k:
                continue
            a = amap.get((kind, p))
            apts = a[2] if a else []
            aoris = a[3] if a else []
            avels = a[4] if (a and len(a) > 4) else []
            comps.append([[list(q) for q in p],
                          [_pt_entry(case, q, apts[i] if i < len(apts) and len(apts) == len(pts) else None)
                           for i, q in enumerate(pts)],
                          [_ori_entry(case, o, aoris[i] if i < len(aoris) and len(aoris) == len(oris) else None)
                           for i, o in enumerate(oris)],
                          [_vel_entry(case, v, avels[i] if i < len(avels) and len(avels) == len(vels) else None)
                           for i, v in enumerate(vels)]])
        out.append(dict(base, op=op, mode=case["mode"], kind=k, comps=comps, sig=sig_of(k)))
    return out


def execute(case):
    """One case = one call of execute: sequences of motions run back to back in this process."""
    use_repo()
    if case["undo"] == "seq-other":          # three motions on three fresh worlds; each is judged like a first motion
        ev = []
        for n, tt in enumerate([case["t"]] + [[st[0] // st[2], st[1] // st[2]] for st in case["steps"]]):
            ev += _execute(dict(case, t=tt, undo="none", steps=[]), "/seq%d-other" % (n + 1))
        return {"ev": ev}
    return {"ev": _execute(case, "/seq1-same" if case["undo"] == "seq-same" else "")}


def _execute(case, suffix):
    mix = case["mix"]
    path = _key(case["tgt"])
    level = path[-1][0]
    variant = case.get("variant", "cold")
    alias = case.get("alias", "none")
    cls = angle_class(case) + "/" + variant + ("/" + alias if alias != "none" else "") + suffix
    twin = build(mix, alias)               # never moved: derived quantities and exported corners "before" are read here
    world = build(mix, alias)
    before, _ = walk(world, mode="touch" if variant == "warm" else "primary")
    tcomps, der0 = walk(twin, mode="full")
    before += [c for c in tcomps if c[0].startswith("rect_corners/") or c[0].startswith("tr.occ/")]
    ov = {}
    exc = _apply(world, ov, path, case["t"], angle_of(case))
    after, der1 = walk(world, ov, mode="full")
    base = {"tgt": [list(p) for p in path], "t": list(case["t"]), "rot": list(case["rot"]), "mix": list(mix)}
    kinds = sorted({c[0] for c in before})
    mixsig = "".join(r[0] for r in ROLES if r in mix) or "+".join(mix) or "-"
    callsig = "%s/mix=%s/%s%s%s" % (level, mixsig, variant, "/" + alias if alias != "none" else "", suffix)
    ev = [dict(op="call", tgt=base["tgt"], mix=list(mix), exc=exc, kinds=kinds, level=level, sig=callsig)]
    ev += _tr_events(case, "tr", base, before, after, kinds, lambda k: "%s/%s/%s" % (level, k, cls))
    for q in sorted(der0):
        m1 = dict(der1.get(q, []))
        ev.append(dict(op="derived", tgt=base["tgt"], q=q,
                       vals=[[n, _same(m1.get(n, float("nan")), v)] for n, v in der0[q]],
                       sig="%s/%s/%s" % (level, q, cls)))
    if case["undo"] == "seq-same":           # a second motion on the SAME object: original p must be at R(R(p + t1) + t2)
        tnx, tny, tden, r = case["steps"][0]
        t2 = [tnx // tden, tny // tden]
        exc2 = _apply(world, ov, path, t2, math.atan2(r[1], r[0]) + TWO_PI * r[3])
        after2, _ = walk(world, ov, mode="full")
        den = case["rot"][2]
        proj = dict(case, rot=[case["rot"][0], case["rot"][1], den * den, case["rot"][3]],       # numerators over den^2
                    t=[case["t"][0] + t2[0], case["t"][1] + t2[1]])
        cls2 = cls.replace("/seq1-same", "/seq2-same")
        ev.append(dict(op="call", tgt=base["tgt"], mix=list(mix), exc=exc2, kinds=kinds, level=level,
                       sig=callsig.replace("/seq1-same", "/seq2-same")))
        ev += _tr_events(proj, "tr2", dict(base, t2=t2), before, after2, kinds, lambda k: "%s/%s/%s" % (level, k, cls2))
    elif case["undo"] != "none":
        for tnx, tny, tden, r in case["steps"]:
            _apply(world, ov, path, (tnx / tden, tny / tden), math.atan2(r[1], r[0]) + TWO_PI * r[3])
        back, _ = walk(world, ov, mode="full")
        bmap = {(c[0], c[1]): c for c in back}
        for k in kinds:
            comps = []
            for bc in before:
                kind, p, pts, oris = bc[:4]
                if kind != k:
                    continue
                b = bmap.get((kind, p))
                ok = 0
                if b and len(b[2]) == len(pts) and len(b[3]) == len(oris):
                    ok = 1
                    for q, q1 in zip(pts, b[2]):
                        sc_ = 1 + abs(q[0]) + abs(q[1]) + abs(case["t"][0]) + abs(case["t"][1])
                        if not (_finite(q1[0], q1[1]) and abs(q1[0] - q[0]) <= 1e-9 * sc_ and abs(q1[1] - q[1]) <= 1e-9 * sc_):
                            ok = 0
                    for o, o1 in zip(oris, b[3]):
                        if not _finite(o1):
                            ok = 0
                            continue
                        r = math.fmod(float(o1) - o, TWO_PI)
                        if min(abs(r), TWO_PI - abs(r)) > 1e-9:
                            ok = 0
                comps.append([[list(q) for q in p], ok])
            ev.append(dict(base, op="undo", mode=case["undo"], steps=case["steps"], kind=k, comps=comps,
                           sig="%s/%s/%s" % (level, k, cls)))
    return ev


def corrupt(trace, rng):
    """Shift one logged image numerator by one and clear the 'unmoved' flag of that point: in scope -> Image, else Collateral."""
    evs = [i for i, e in enumerate(trace["ev"]) if e["op"] == "tr" and any(c[1] for c in e["comps"])]
    if not evs:
        return None
    e = trace["ev"][rng.choice(evs)]
    comp = rng.choice([c for c in e["comps"] if c[1]])
    pt = rng.choice(comp[1])
    pt[2] += 1
    pt[4] = pt[4] if e["mode"] == "tok" else 0
    pt[5] = 0
    return trace
