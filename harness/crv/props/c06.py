"""C06 - spatial lookups agree with the geometry they index (spec: SpatialIndex.tla).

Part 1 (networks): TLC enumerates lanelet families on the 6 x 4 lattice x all construction-route sequences; every case
builds the REAL network along the route, reads the lanelet polygons back through public accessors (`polys`) and logs
what find_lanelet_by_position / find_lanelet_by_shape / contains_points / get_obstacles / map_obstacles_to_lanelets /
filter_obstacles_in_network return.  Part 2 (shapes): every shape of the spec's table x every shape route x a 9 x 9
probe grid: Shape.contains_point and shape.shapely_object.covers(Point).
All coordinates in cases and events are DOUBLED integers.  Nothing is judged here."""
import concurrent.futures as cf
import copy
import itertools
import math
import os
import pickle

from crv import tlc
from crv.core import use_repo
from crv.tlc import MachineryError

PROPERTY = "C06"
MODULES = ["SpatialIndex", "MC_SpatialIndex", "Trace_SpatialIndex"]
TRACE = ("Trace_SpatialIndex", "Trace_SpatialIndex.cfg")
EXHAUSTIVE = True
RULE = ("TLC (GEN_SpatialIndex_[a-f].cfg) emits 12 lanelet families (disjoint, edge-adjacent, stacked, overlapping, nested, "
        "L-shaped, parallelogram, curved/multi-vertex, four cells around a corner, corner contact, mixed) x every route "
        "sequence of length <= 2 (quick; <= 3 thorough) over builders {from_list(cleanup 0/1), add_each, add_defer, "
        "add_from_network, scenario_add} and follow-ups {deepcopy, deepcopy_orig, pickle, xml, pb, xml_net, pb_net, "
        "from_network(4 cut shapes), remove(id), translate_rotate(4 lattice motions), add_extra(rtree 1/0), add_extra_net, "
        "remove_nortree(id)}; after a DEFERRED step (rtree=False) on a from_list(0) network one more step is always explored, "
        "so every 'deferred step, then each rebuilding operation, then queries' sequence is executed; TWO-NETWORK histories: from a "
        "from_list(0) network A a second network B is derived (fork_list(cleanup 0/1), fork_network, fork_network_cut(2 cuts), "
        "fork_deepcopy) and mutated (translate_rotate, remove, add_extra; quick: a sample), then B AND A are queried, A against its "
        "own current lanelets, and every step logs A's lanelets before / after (clause C06.Route/isolated); DRAW steps: the network "
        "is drawn + rendered once / twice with MPRenderer (lanelets carry SOLID / BROAD_SOLID markings), the boundaries are logged "
        "before and after on the 1/16 lattice (clause C06.Route/draw-moves-geometry) and the lookups get 25 extra probes around "
        "each end corner of every lanelet (offsets 1/16, 3/16); per family the query points are the "
        "17 x 13 doubled lattice (lattice points, edge mid points, cell centres) + 3 far points grouped by TLC into position "
        "classes, and query shapes of 5 kinds (axis rectangles, quarter-turn rectangles, 3-4-5 rectangles, discs, polygons) "
        "classified by TLC (inside / overlapping / reaching / touching(-edge/-corner) / disjoint), PerClass kept per class; "
        "9 obstacles (static / trajectory / set-based; rect, disc, polygon, groups; one appearing late). Sequences of length 1 get "
        "the full query set incl. obstacles, longer ones positions + shapes.  GEN_SpatialIndex_shape.cfg emits 16 shapes "
        "x 81..162 probes with probe classes, executed on 10 shape routes (ctor, deepcopy, pickle, xml, pb, translate, rotate, "
        "local, attribute assignment cold / warm).  SHAPE HISTORIES (275): 6 shape objects x [export by shapely_object / contains_point / "
        "find_lanelet_by_shape / get_obstacles]? x one attribute setter x [read vertices | draw]? x queries (contains_point and "
        "exported geometry on the probe grid of the new shape, find_lanelet_by_shape with that object, get_obstacles with an "
        "obstacle whose occupancy owns it), expectation from the attributes read back at the end.  Thorough adds the sequences of length 3 of two families "
        "(GEN_SpatialIndex_deep_[xy].cfg) and the dense candidate sets.  Plus 42 fixed cases on networks without lanelets and "
        "seeded random box networks / queries. "
        "distinct_nontrivial = distinct (family, route sequence) with >= 2 lanelets + distinct (shape, route).")
ASSUMPTIONS = ["lanelet polygons are simple lattice polygons; the truth polygons of an event are read from the network under "
               "test through Lanelet.right_vertices / left_vertices (right boundary + reversed left boundary)",
               "obstacle regions in events are the public parameters of occupancy_at_time(t).shape (what the region IS is C04's business)",
               "bands declared in SpatialIndex.tla: exported disc geometry within [0.99 r, 1.01 r]; pure boundary contact of rectangles "
               "with orientation != 0 and of geometry that went through translate_rotate with a non-zero quarter turn",
               "static obstacles are built with signal_series=[] so that the protobuf writer accepts them (C02 finding, not C06)",
               "files are written with decimal_precision=12 so that rotated rectangles keep their rotation token"]

_TMP = os.path.join(tlc.OUT, "c06_tmp")
_GEN = {}          # filled by model_check (GEN runs overlap the MC run), consumed by cases()
_ID = [1, 0, 1]
_TOKENS = [[1, 0, 1], [0, 1, 1], [-1, 0, 1], [0, -1, 1]] + [[a * x, b * y, 5] for (x, y) in ((3, 4), (4, 3))
                                                            for a in (1, -1) for b in (1, -1)]
_KIND = {"rect": "rectangle", "disc": "circle", "poly": "polygon", "group": "group"}


# ---------------------------------------------------------------------------------------------- TLC side
def _gen_cfgs(ctx):
    stem = "GEN_SpatialIndex3_%s.cfg" if ctx.thorough else "GEN_SpatialIndex_%s.cfg"
    deep = ["GEN_SpatialIndex_deep_x.cfg", "GEN_SpatialIndex_deep_y.cfg"] if ctx.thorough else []
    return [stem % g for g in "abcdef"] + deep + ["GEN_SpatialIndex_shape.cfg"]


def _run_gen(cfg):
    cases, r = tlc.generate("MC_SpatialIndex", cfg, "C06_" + cfg.replace(".cfg", ""), timeout=2400, xmx="2g")
    return cfg, cases, r


def model_check(ctx):
    """All TLC runs of the design-level half and of the generation overlap (one thread per JVM); the results are recorded
    in the order MC, DEV, GEN."""
    tag = lambda cfg: "%s_%s" % (PROPERTY, cfg.replace(".cfg", ""))
    # quick: all families, sequences <= 2 + one family (4 lanelets), sequences <= 3 ; thorough: all families, sequences <= 3
    mcs = [("MC_SpatialIndex4.cfg", 8)] if ctx.thorough else [("MC_SpatialIndex.cfg", 3), ("MC_SpatialIndex3.cfg", 3)]
    with cf.ThreadPoolExecutor(max_workers=10) as ex:       # small heaps: up to 10 JVMs side by side
        gen = [ex.submit(_run_gen, c) for c in _gen_cfgs(ctx)]
        mc = [ex.submit(tlc.model_check, "MC_SpatialIndex", cfg, tag(cfg), coverage=True, workers=w, xmx="3g", timeout=3600) for cfg, w in mcs]
        dev = [ex.submit(tlc.expect_violation, "MC_SpatialIndex", "DEV_SpatialIndex_%d.cfg" % i,
                         tag("DEV_SpatialIndex_%d.cfg" % i), {6: "QueriesExact", 8: "OriginalIsolated", 10: "ShapeAnswers"}.get(i, "IndexMirrors"), workers=1, xmx="1g")
               for i in (1, 2, 3, 4, 5, 7, 8, 9, 10, 6)]   # 10 = DEV_RectKeepsExportedPolygon (seed C06-7);   # 9 = DEV_DrawMovesVertices (seed C06-6);  # 7 = DEV_DeferredRemoveKeepsPolygon (seed C06-2), 8 = DEV_ForkSharesLanelets (seed C06-5), 6 = DEV_DiscHalfRadius
        for f in mc:
            ctx._acc(f.result(), "holds")
        for f in dev:
            r = f.result()
            ctx._acc(r, "violated:%s (expected: deviation constant documents a route that forgets to rebuild / mis-maps the "
                        "index, or the half-radius disc export)" % r["violated"], count=False)
        for f in gen:
            cfg, cases, r = f.result()
            _GEN[cfg] = cases
            ctx.mc_runs.append({"module": "MC_SpatialIndex", "cfg": cfg, "distinct_states": r["distinct"],
                                "states_generated": r["generated"], "depth": r["depth"], "wall_s": r["wall_s"],
                                "verdict": "generated %d cases" % len(cases)})


_SHAPE_ROUTES = ["ctor", "deepcopy", "pickle", "xml", "pb", "translate", "rotate", "local", "set_cold", "set_warm"]


def cases(ctx):
    if not _GEN:                                                          # (model_check not run: direct use)
        for c in _gen_cfgs(ctx):
            _GEN[c] = _run_gen(c)[1]
    raw = [c for cfg in _gen_cfgs(ctx) if "_deep_" not in cfg for c in _GEN[cfg]]
    fams = {c["fam"]: c for c in raw if c["kind"] == "family"}
    have = {(c["fam"], json_key(c["routes"])) for c in raw if c["kind"] == "route"}
    deep = [c for cfg in _gen_cfgs(ctx) if "_deep_" in cfg for c in _GEN[cfg]         # thorough: only the longer sequences
            if c["kind"] == "route" and len(c["routes"]) >= 3 and (c["fam"], json_key(c["routes"])) not in have]
    if len(deep) > 8000:                                                  # a seeded sample keeps the tier inside its time budget
        deep = ctx.rng.sample(deep, 8000)
    raw += deep
    out = []
    for c in raw:
        if c["kind"] == "route":
            f = fams[c["fam"]]
            full = len(c["routes"]) == 1
            shapes = f["shapes"]
            if len(c["routes"]) >= 3 or (not full and not ctx.thorough):  # longer sequences: one shape per (kind, class)
                seen, shapes = set(), []
                for s in f["shapes"]:
                    if (s["kind"], s["cls"]) not in seen:
                        seen.add((s["kind"], s["cls"]))
                        shapes.append(s)
            if len(c["routes"]) >= 3 and not ctx.thorough:               # deferred step + one more: axis rectangles and polygons
                shapes = [q for q in shapes if q["kind"] in ("rect0", "poly")]
            forked = any(q["r"].startswith("fork_") for q in c["routes"])
            if forked and not ctx.thorough and not _fork_sample(c["routes"], f):
                continue
            points = f["points"]
            if not full and not ctx.thorough:                            # ... and every third of the many points outside
                points = [dict(g, pts=g["pts"][::3]) if g["cls"] == "outside" else g for g in points]
            out.append({"kind": "net", "fam": c["fam"], "lanelets": f["lanelets"], "net": f["net"], "routes": c["routes"],
                        "cuts": f["cuts"], "extra": f["extra"], "wedge": f["wedge"], "fine": f["fine"], "points": points,
                        "shapes": shapes, "src": "tlc",
                        "obstacles": f["obstacles"] if full or forked or c["routes"][-1]["r"] == "draw" or
                        (ctx.thorough and len(c["routes"]) == 2) else [],
                        "xpolys": c["polys"]})
        elif c["kind"] == "history":
            out.append(dict(c, src="tlc"))
        elif c["kind"] == "shape":
            for r in _SHAPE_ROUTES:
                if c["shape"]["k"] == "group" and r.startswith("set_"):
                    continue                                              # shape groups are immutable
                out.append({"kind": "shape", "name": c["name"], "shape": c["shape"], "probes": c["probes"], "sroute": r,
                            "src": "tlc"})
    out += _random_cases(ctx, fams)
    # how much of the space lies in a declared band (labels of the generator; the bands themselves are declared in the spec)
    noisy = lambda c: any(r["r"] == "translate_rotate" and r["a"][2] % 4 for r in c["routes"])
    nets = [c for c in out if c["kind"] == "net"]
    ctx.extra["bands"] = {
        "network_cases": len(nets), "network_cases_after_quarter_turn(B2)": sum(1 for c in nets if noisy(c)),
        "shape_queries": sum(len(c["shapes"]) for c in nets),
        "disc_queries_in_band(B1)": sum(1 for c in nets for q in c["shapes"] if q["kind"] == "disc" and q["cls"] == "touching"),
        "rotated_rect_queries_touching(B2)": sum(1 for c in nets for q in c["shapes"] if q["kind"] in ("rectq", "rect345")
                                                 and q["cls"].startswith("touching")),
        "shape_probes": sum(len(g["pts"]) for c in out if c["kind"] == "shape" for g in c["probes"]),
        "shape_probes_in_band(B1,B2)": sum(len(g["pts"]) for c in out if c["kind"] == "shape" for g in c["probes"]
                                          if g["cls"] == "band" or (g["cls"] in ("boundary", "vertex") and (
                                              c["sroute"] == "rotate" or (c["shape"]["k"] == "rect" and c["shape"]["rot"] != _ID))))}
    return out


def _fork_sample(routes, f):
    """Quick tier: of the mutations of a derived network keep a pure translation, a quarter turn, the removal of the first
    lanelet and the addition of the extra lanelet (thorough keeps all)."""
    last = routes[-1]
    if last["r"].startswith("fork_"):
        return True
    if last["r"] == "translate_rotate":
        return last["a"] in ([2, -2, 0], [-6, 4, 3])
    if last["r"] == "remove":
        return last["a"][0] == f["net"][0]["id"]
    return last["r"] == "add_extra" and last["a"] == [1]


def _random_cases(ctx, fams):
    """Seeded random box networks (1..4 axis-parallel boxes on the 6 x 4 lattice, any overlap) with random route sequences and
    random query shapes; the obstacle / cut tables are those of the spec."""
    rng = ctx.rng
    any_f = next(iter(fams.values()))
    builders = [["from_list", [0]], ["from_list", [1]], ["add_each", []], ["add_defer", []], ["add_from_network", []],
                ["scenario_add", []]]
    out = []
    for b in builders:                                                    # networks without lanelets
        for f in (None, "deepcopy", "pickle", "xml", "pb", "xml_net", "pb_net"):
            out.append({"kind": "net", "fam": "empty", "lanelets": [], "net": [], "cuts": any_f["cuts"], "obstacles": [],
                        "extra": any_f["extra"], "wedge": [], "fine": 8,
                        "routes": [dict(zip(("r", "a"), b))] + ([{"r": f, "a": []}] if f else []),
                        "points": any_f["points"][:2], "shapes": any_f["shapes"][:3], "src": "fixed"})
    for _ in range(1500 if ctx.thorough else 150):
        n = rng.randint(1, 4)
        lls, net = [], []
        for i in range(n):
            x0, y0 = rng.randint(0, 5), rng.randint(0, 3)
            x1, y1 = rng.randint(x0 + 1, 6), rng.randint(y0 + 1, 4)
            k = rng.choice([2, 2, 3])                                     # vertices per boundary (collinear extra vertices)
            xs = sorted({x0, x1} | set(rng.sample(range(x0, x1 + 1), min(k, x1 - x0 + 1))))
            right = [[x, y0] for x in xs]
            left = [[x, y1] for x in xs]
            lls.append({"id": 21 + i, "r": right, "l": left})
            net.append({"id": 21 + i, "v": [[2 * x, 2 * y] for x, y in right + left[::-1]]})
        routes = [dict(zip(("r", "a"), rng.choice(builders)))]
        for _ in range(rng.randint(0, 3)):
            r = rng.choice(["deepcopy", "deepcopy_orig", "pickle", "xml", "pb", "xml_net", "pb_net", "remove", "translate_rotate",
                            "remove_nortree", "remove_nortree", "add_extra", "add_extra_net", "draw"])
            a = []
            if r == "draw":
                a = [rng.randint(1, 2)]
            if r in ("add_extra", "add_extra_net"):
                if any(q["r"] in ("add_extra", "add_extra_net") for q in routes):
                    continue
                a = [rng.randint(0, 1)] if r == "add_extra" else []
            if r in ("remove", "remove_nortree"):
                gone = [z["a"][0] for z in routes if z["r"] in ("remove", "remove_nortree")]
                if n - len(gone) < 2:
                    continue
                a = [rng.choice([q["id"] for q in lls if q["id"] not in gone])]
            if r == "translate_rotate":
                a = [2 * rng.randint(-3, 3), 2 * rng.randint(-3, 3), rng.randint(0, 3)]
            routes.append({"r": r, "a": a})
        pts = [[rng.randint(-2, 14), rng.randint(-2, 10)] for _ in range(40)]
        shapes = []
        for _ in range(12):
            kind = rng.choice(["rect0", "rectq", "rect345", "disc", "poly"])
            c = [rng.randint(-3, 15), rng.randint(-3, 11)]
            if kind == "disc":
                s = {"k": "disc", "c": c, "r": rng.randint(1, 6)}
            elif kind == "poly":
                s = {"k": "poly", "v": [c, [c[0] + rng.randint(1, 5), c[1] + rng.randint(-2, 1)],
                                        [c[0] + rng.randint(-1, 3), c[1] + rng.randint(2, 5)]]}
            else:
                rot = _ID if kind == "rect0" else rng.choice(_TOKENS[1:4]) if kind == "rectq" else rng.choice(_TOKENS[4:])
                s = {"k": "rect", "c": c, "l": rng.randint(1, 4), "w": rng.randint(1, 3), "rot": rot}
            shapes.append({"kind": kind, "cls": "random", "shape": s})
        out.append({"kind": "net", "fam": "random", "lanelets": lls, "net": net, "routes": routes, "cuts": any_f["cuts"],
                    "extra": any_f["extra"], "fine": 8,
                    "wedge": [[8 * x + dx, 8 * y + dy] for q in net for x, y in q["v"] for dx in (-3, -1, 0, 1, 3) for dy in (-1, 0, 1)],
                    "points": [{"cls": "random", "pts": pts}], "shapes": shapes, "obstacles": any_f["obstacles"],
                    "src": "random"})
    return out


def nontrivial(case):
    if case["kind"] == "history":
        return ("history", json_key(case["shape"]), json_key(case["steps"]))
    if case["kind"] == "shape":
        return ("shape", case["name"], case["sroute"])
    if len(case["lanelets"]) < 2:
        return None
    return (case["fam"], json_key(case["lanelets"]), json_key(case["routes"]))


def json_key(x):
    import json
    return json.dumps(x, sort_keys=True)


# ---------------------------------------------------------------------------------------------- gamma / alpha
def _d2(x):
    v = 2.0 * float(x)
    r = round(v)
    if abs(v - r) > 1e-9:
        raise MachineryError("C06 alpha: coordinate %r is not on the half-integer lattice" % (x,))
    return int(r)


def _int(x):
    r = round(float(x))
    if abs(float(x) - r) > 1e-9:
        raise MachineryError("C06 alpha: size %r is not an integer" % (x,))
    return int(r)


def _angle(rot):
    return 0.0 if list(rot) == _ID else math.atan2(rot[1], rot[0])


def _token(o):
    c, s = math.cos(o), math.sin(o)
    for t in _TOKENS:
        if abs(c - t[0] / t[2]) < 1e-9 and abs(s - t[1] / t[2]) < 1e-9:
            return list(t)
    raise MachineryError("C06 alpha: orientation %r is not a rotation token" % (o,))


def g_shape(d):
    import numpy as np
    from commonroad.geometry.shape import Circle, Polygon, Rectangle, ShapeGroup
    k = d["k"]
    if k == "rect":
        return Rectangle(float(d["l"]), float(d["w"]), np.array([d["c"][0] / 2.0, d["c"][1] / 2.0]), _angle(d["rot"]))
    if k == "disc":
        return Circle(d["r"] / 2.0, np.array([d["c"][0] / 2.0, d["c"][1] / 2.0]))
    if k == "poly":
        return Polygon(np.array([[x / 2.0, y / 2.0] for x, y in d["v"]]))
    return ShapeGroup([g_shape(m) for m in d["ms"]])


def a_shape(s):
    from commonroad.geometry.shape import Circle, Polygon, Rectangle, ShapeGroup
    if isinstance(s, Rectangle):
        return {"k": "rect", "c": [_d2(s.center[0]), _d2(s.center[1])], "l": _int(s.length), "w": _int(s.width),
                "rot": _token(s.orientation)}
    if isinstance(s, Circle):
        return {"k": "disc", "c": [_d2(s.center[0]), _d2(s.center[1])], "r": _d2(s.radius)}
    if isinstance(s, Polygon):
        v = [[_d2(x), _d2(y)] for x, y in s.vertices]
        if len(v) > 1 and v[0] == v[-1]:
            v = v[:-1]
        return {"k": "poly", "v": v}
    if isinstance(s, ShapeGroup):
        return {"k": "group", "ms": [a_shape(m) for m in s.shapes]}
    raise MachineryError("C06 alpha: unknown shape %r" % (s,))


def _dk(x, sc):
    """float -> integer in units of 1/(2 sc)"""
    v = 2.0 * sc * float(x)
    r = round(v)
    if abs(v - r) > 1e-9 * sc:
        raise MachineryError("C06 alpha: coordinate %r is not on the 1/%d lattice" % (x, 2 * sc))
    return int(r)


def a_net(net, sc=1):
    out = []
    for la in sorted(net.lanelets, key=lambda q: q.lanelet_id):
        ring = [[_dk(x, sc), _dk(y, sc)] for x, y in la.right_vertices] + \
               [[_dk(x, sc), _dk(y, sc)] for x, y in la.left_vertices[::-1]]
        out.append({"id": int(la.lanelet_id), "v": ring})
    return out


def _pt(p):
    import numpy as np
    return np.array([p[0] / 2.0, p[1] / 2.0])


def _ptk(p, sc):
    import numpy as np
    return np.array([p[0] / (2.0 * sc), p[1] / (2.0 * sc)])


def _rotq(q, p):
    q %= 4
    return [p[0], p[1]] if q == 0 else [-p[1], p[0]] if q == 1 else [-p[0], -p[1]] if q == 2 else [p[1], -p[0]]


def _move_pt(m, p):
    return _rotq(m[2], [p[0] + m[0], p[1] + m[1]])


def _move_shape(m, d):
    """The query moves along with the network (input transformation; class labels are motion invariant)."""
    k = d["k"]
    if k == "rect":
        r = _rotq(m[2], d["rot"][:2])
        return dict(d, c=_move_pt(m, d["c"]), rot=[r[0], r[1], d["rot"][2]])
    if k == "disc":
        return dict(d, c=_move_pt(m, d["c"]))
    if k == "poly":
        return dict(d, v=[_move_pt(m, p) for p in d["v"]])
    return dict(d, ms=[_move_shape(m, x) for x in d["ms"]])


def g_lanelets(tokens):
    """Lattice lanelets; both boundaries carry non-dashed markings (no neighbours), so that drawing them takes the
    'shorten the end points of the marking' path of the renderer."""
    from commonroad.scenario.lanelet import LineMarking
    from crv import gamma
    return [gamma.lanelet_from_polylines(t["id"], t["l"], t["r"], line_marking_left_vertices=LineMarking.BROAD_SOLID,
                                         line_marking_right_vertices=LineMarking.SOLID) for t in tokens]


def g_obstacle(o):
    """Abstract obstacle [id, role, t0, occ] -> real obstacle through public constructors.  The obstacle shape is the first
    region moved to the origin, states carry the centres (polygons: the first vertex)."""
    import numpy as np
    from commonroad.prediction.prediction import Occupancy, SetBasedPrediction, TrajectoryPrediction
    from commonroad.scenario.obstacle import DynamicObstacle, ObstacleType, StaticObstacle
    from commonroad.scenario.state import InitialState, KSState
    from commonroad.scenario.trajectory import Trajectory

    def anchor(d):
        return d["v"][0] if d["k"] == "poly" else d["c"]

    def at_origin(d):
        a = anchor(d)
        if d["k"] == "poly":
            return g_shape(dict(d, v=[[x - a[0], y - a[1]] for x, y in d["v"]]))
        if d["k"] == "rect":
            return g_shape(dict(d, c=[0, 0], rot=_ID))
        return g_shape(dict(d, c=[0, 0]))

    def ori(d):
        return _angle(d["rot"]) if d["k"] == "rect" else 0.0

    first = o["occ"][0]
    t0 = o["t0"]
    if o["role"] == "setbased":
        init = InitialState(position=_pt(anchor(first)), orientation=ori(first), time_step=t0, velocity=0.0, acceleration=0.0,
                            yaw_rate=0.0, slip_angle=0.0)
        occs = [Occupancy(t0 + i, g_shape(d)) for i, d in enumerate(o["occ"]) if i > 0]
        return DynamicObstacle(o["id"], ObstacleType.CAR, at_origin(first), init, SetBasedPrediction(t0 + 1, occs))
    init = InitialState(position=_pt(anchor(first)), orientation=ori(first), time_step=t0, velocity=0.0, acceleration=0.0,
                        yaw_rate=0.0, slip_angle=0.0)
    if o["role"] == "static":
        return StaticObstacle(o["id"], ObstacleType.PARKED_VEHICLE, at_origin(first), init, signal_series=[])
    sts = [KSState(position=_pt(anchor(d)), orientation=ori(d), time_step=t0 + i, velocity=1.0, steering_angle=0.0)
           for i, d in enumerate(o["occ"]) if i > 0]
    pred = TrajectoryPrediction(Trajectory(t0 + 1, sts), at_origin(first)) if sts else None
    return DynamicObstacle(o["id"], ObstacleType.CAR, at_origin(first), init, pred)


_counter = itertools.count()


def _round_trip(fmt, net, obstacles, only_network=False):
    """Scenario(net, obstacles) -> file -> read back.  Returns (network, obstacles)."""
    from commonroad.common.file_reader import CommonRoadFileReader
    from commonroad.common.file_writer import CommonRoadFileWriter, OverwriteExistingFile
    from commonroad.common.util import FileFormat
    from commonroad.planning.planning_problem import PlanningProblemSet
    from commonroad.scenario.scenario import Location, Scenario, ScenarioID, Tag
    os.makedirs(_TMP, exist_ok=True)
    ff = FileFormat.XML if fmt == "xml" else FileFormat.PROTOBUF
    path = os.path.join(_TMP, "%d_%d.%s" % (os.getpid(), next(_counter), fmt))
    sc = Scenario(0.1, ScenarioID(), author="crv", tags={Tag.URBAN}, affiliation="crv", source="crv")
    sc.add_objects(net)
    for ob in obstacles:
        sc.add_objects(ob)
    try:
        CommonRoadFileWriter(sc, PlanningProblemSet(), "crv", "crv", "crv", {Tag.URBAN}, Location(), decimal_precision=12,
                             file_format=ff).write_to_file(path, OverwriteExistingFile.ALWAYS)
        if only_network:
            return CommonRoadFileReader(path, ff).open_lanelet_network(), obstacles
        sc2, _ = CommonRoadFileReader(path, ff).open()
        return sc2.lanelet_network, sorted(sc2.obstacles, key=lambda q: q.obstacle_id)
    finally:
        if os.path.exists(path):
            os.remove(path)


def _exc(ex):
    return type(ex).__name__


# ---------------------------------------------------------------------------------------------- part 1: networks
def _build(route, lanelets):
    from commonroad.scenario.lanelet import LaneletNetwork
    from crv import gamma
    r = route["r"]
    if r == "from_list":
        return LaneletNetwork.create_from_lanelet_list(lanelets, cleanup_ids=bool(route["a"][0]))
    if r == "add_from_network":
        src = LaneletNetwork.create_from_lanelet_list(lanelets)
        net = LaneletNetwork()
        net.add_lanelets_from_network(src)
        return net
    if r == "scenario_add":
        sc = gamma.scenario()
        sc.add_objects(lanelets)
        return sc.lanelet_network
    net = LaneletNetwork()
    for i, la in enumerate(lanelets):
        net.add_lanelet(la, rtree=(r == "add_each" or i == len(lanelets) - 1))
    return net


def _follow(route, net, obstacles, cuts, extra):
    import numpy as np
    from commonroad.scenario.lanelet import LaneletNetwork
    r, a = route["r"], route["a"]
    if r == "deepcopy":
        return copy.deepcopy(net), obstacles
    if r == "deepcopy_orig":
        copy.deepcopy(net)
        return net, obstacles
    if r == "pickle":
        return pickle.loads(pickle.dumps(net)), obstacles
    if r in ("xml", "pb"):
        return _round_trip(r, net, obstacles)
    if r in ("xml_net", "pb_net"):
        return _round_trip(r[:-4], net, obstacles, only_network=True)
    if r == "from_network":
        return LaneletNetwork.create_from_lanelet_network(net, shape_input=g_shape(cuts[a[0] - 1])), obstacles
    if r == "remove":
        net.remove_lanelet(a[0])
        return net, obstacles
    if r == "draw":                                                       # draw + render a[0] times, fresh small figure each time
        import matplotlib
        matplotlib.use("Agg")
        import matplotlib.pyplot as plt
        from commonroad.visualization.mp_renderer import MPRenderer
        for _ in range(a[0]):
            fig, ax = plt.subplots(figsize=(2, 2), dpi=40)
            try:
                rnd = MPRenderer(ax=ax)
                net.draw(rnd)
                rnd.render()
                fig.canvas.draw()
            finally:
                plt.close(fig)
        return net, obstacles
    if r == "remove_nortree":                                             # deferred: the index is rebuilt by a LATER operation
        net.remove_lanelet(a[0], rtree=False)
        return net, obstacles
    if r == "add_extra":
        net.add_lanelet(g_lanelets([extra])[0], rtree=bool(a[0]))
        return net, obstacles
    if r == "add_extra_net":
        net.add_lanelets_from_network(LaneletNetwork.create_from_lanelet_list(g_lanelets([extra])))
        return net, obstacles
    if r == "translate_rotate":
        net.translate_rotate(np.array([a[0] / 2.0, a[1] / 2.0]), 0.0 if a[2] % 4 == 0 else (a[2] % 4) * math.pi / 2)
        return net, obstacles
    raise MachineryError("C06: unknown route %r" % (route,))


def _occ(ob, t):
    o = ob.occupancy_at_time(t)
    return [] if o is None else [a_shape(o.shape)]


def _fork(route, net, cuts):
    """A second network derived from `net` (which is kept by the caller)."""
    from commonroad.scenario.lanelet import LaneletNetwork
    r, a = route["r"], route["a"]
    if r == "fork_list":
        return LaneletNetwork.create_from_lanelet_list(net.lanelets, cleanup_ids=bool(a[0]))
    if r == "fork_network":
        return LaneletNetwork.create_from_lanelet_network(net)
    if r == "fork_network_cut":
        return LaneletNetwork.create_from_lanelet_network(net, shape_input=g_shape(cuts[a[0] - 1]))
    if r == "fork_deepcopy":
        return copy.deepcopy(net)
    raise MachineryError("C06: unknown derivation %r" % (route,))


def _exec_net(case):
    import numpy as np
    ev = []
    routes = case["routes"]
    obstacles = [g_obstacle(o) for o in case["obstacles"]]
    sc = case.get("fine", 8) if any(r["r"] == "draw" for r in routes) else 1     # draw cases live on the 1/16 lattice
    base = [{"id": q["id"], "v": [[sc * x, sc * y] for x, y in q["v"]]} for q in case["net"]]
    net = None
    other, a_routes, a_label, a_base = None, None, None, None          # the ORIGINAL network once a second one is derived
    for i, rt in enumerate(routes):
        e = {"op": "route", "route": rt["r"], "a": rt["a"], "base": base, "routes": routes[:i + 1], "polys": [], "exc": "",
             "sig": "route/" + rt["r"]}
        if sc != 1:
            e["sc"] = sc
        if rt["r"] == "draw":
            before = [(la.lanelet_id, la.left_vertices.copy(), la.right_vertices.copy(), la.center_vertices.copy())
                      for la in net.lanelets] if net is not None else []
        if rt["r"] in ("from_network", "fork_network_cut"):
            e["cut"] = case["cuts"][rt["a"][0] - 1]
            e["sig"] += "/" + _KIND[e["cut"]["k"]]
        try:
            if i == 0:
                net = _build(rt, g_lanelets(case["lanelets"]))
            elif rt["r"].startswith("fork_"):
                other, a_routes, a_base = net, routes[:i], base
                a_label = rt["r"] + (str(rt["a"][0]) if rt["r"] == "fork_list" else "")
                net = _fork(rt, other, case["cuts"])
            else:
                net, obstacles = _follow(rt, net, obstacles, case["cuts"], case["extra"])
            if rt["r"] == "draw":                                       # projection: are all boundary arrays bit-identical?
                after = {la.lanelet_id: la for la in net.lanelets}
                e["same"] = int(len(after) == len(before) and all(
                    k in after and np.array_equal(lv, after[k].left_vertices) and np.array_equal(rv, after[k].right_vertices)
                    and np.array_equal(cv, after[k].center_vertices) for k, lv, rv, cv in before))
                try:
                    e["polys"] = a_net(net, sc)
                except MachineryError:
                    if e["same"]:
                        raise
                    e["polys"] = base                                    # moved off the lattice: reported by `same`, no queries
                    ev.append(e)
                    return {"ev": ev}
            else:
                e["polys"] = a_net(net, sc)
            if other is not None:                                       # what the step did to the lanelets of the original
                e["abase"], e["apolys"] = a_base, a_net(other, sc)
                e["sig"] = "route/%s/after-%s" % (rt["r"], a_label)
                a_base = e["apolys"]
        except MachineryError:
            raise
        except Exception as ex:
            e["exc"] = _exc(ex)
            ev.append(e)
            return {"ev": ev}
        ev.append(e)
        base = e["polys"]
    lite = len(routes) >= 3 and not case["obstacles"]
    if other is None:
        level = "none" if not obstacles else "lite" if sc != 1 and len(routes) > 1 and not case.get("full") else "full"
        _queries(ev, case, net, base, routes, routes[-1]["r"], obstacles, level, not lite, sc)
    else:
        _queries(ev, case, net, base, routes, routes[-1]["r"], [], "none", False, sc)
        _queries(ev, case, other, a_base, a_routes, "original-after-" + a_label, obstacles, "lite", True, sc)
    return {"ev": ev}


def _has_disc(d):
    return d["k"] == "disc" or (d["k"] == "group" and any(m["k"] == "disc" for m in d["ms"]))


def _queries(ev, case, net, polys, routes, label, obstacles, obs_level, with_contains, sc=1):
    """All lookups on one network; `polys` = its lanelet polygons read back just now, `routes` = ITS history."""
    import numpy as np
    motions = [r["a"] for r in routes if r["r"] == "translate_rotate"]
    common = {"route": label, "routes": routes, "polys": polys}
    if sc != 1:
        common["sc"] = sc

    def mv_pt(p, k=sc):                 # p in doubled coordinates (k = sc) or already in fine units (k = 1) -> fine units, moved
        p = [k * p[0], k * p[1]]
        for m in motions:
            p = _move_pt([sc * m[0], sc * m[1], m[2]], p)
        return p

    def mv_shape(d):
        for m in motions:
            d = _move_shape(m, d)
        return d

    points, shapes = case["points"], case["shapes"]
    if sc != 1:                         # fine lattice: probes around the end corners; no discs (32-bit products in the spec)
        shapes = [q for q in shapes if not _has_disc(q["shape"])]
        dis = {o["id"] for o in case["obstacles"] if any(_has_disc(d) for d in o["occ"])}
        obstacles = [ob for ob in obstacles if ob.obstacle_id not in dis]
    if not polys:                       # a network without lanelets: one lookup of each kind under its own signature
        points = [{"cls": "empty-network", "pts": [p for g in points for p in g["pts"]][:20]}]
        shapes = [dict(s, kind="any", cls="empty-network") for s in shapes[:3]]
        obstacles = []
    all_pts = []
    if sc != 1 and polys:
        points = points + [{"cls": "corner-wedge", "pts": case["wedge"], "fine": 1}]
    for g in points:
        pts = [mv_pt(p, 1 if g.get("fine") else sc) for p in g["pts"]]
        all_pts += pts
        e = dict(common, op="find_by_position", pts=pts, res=[], exc="",
                 sig="find_by_position/route=%s/%s" % (label, g["cls"]) if polys else "find_by_position/empty-network")
        try:
            res = net.find_lanelet_by_position([_ptk(p, sc) for p in pts])
            e["res"] = [[int(x) for x in r] for r in res]
        except Exception as ex:
            e["exc"] = _exc(ex)
        ev.append(e)
    for la in sorted(net.lanelets, key=lambda q: q.lanelet_id) if with_contains else []:
        e = dict(common, op="contains_points", lid=int(la.lanelet_id), pts=all_pts, res=[], exc="",
                 sig="contains_points/route=%s" % label)
        try:
            e["res"] = [int(bool(b)) for b in la.contains_points(np.array([_ptk(p, sc) for p in all_pts]))]
        except Exception as ex:
            e["exc"] = _exc(ex)
        ev.append(e)
    orig = label.startswith("original-")
    for s in shapes:
        d = mv_shape(s["shape"])
        e = dict(common, op="find_by_shape", shape=d, res=[], exc="",
                 sig=("find_by_shape/%s%s/%s" % ("original/" if orig else "", s["kind"], s["cls"])) if polys
                 else "find_by_shape/empty-network")
        try:
            e["res"] = [int(x) for x in net.find_lanelet_by_shape(g_shape(d))]
        except Exception as ex:
            e["exc"] = _exc(ex)
        ev.append(e)
    if obstacles and obs_level != "none":
        t0 = {o["id"]: o["t0"] for o in case["obstacles"]}
        for t in (0, 1, 2) if obs_level == "full" else (0,):
            present = [ob for ob in obstacles if t0[ob.obstacle_id] <= t]
            obs = [{"id": int(ob.obstacle_id), "occ": _occ(ob, t)} for ob in present]
            for la in sorted(net.lanelets, key=lambda q: q.lanelet_id):
                e = dict(common, op="get_obstacles", lid=int(la.lanelet_id), t=t, obs=obs, res=[], exc="",
                         sig="get_obstacles/present")
                try:
                    e["res"] = [int(o.obstacle_id) for o in la.get_obstacles(present, t)]
                except Exception as ex:
                    e["exc"] = _exc(ex)
                ev.append(e)
        obs_all = [{"id": int(ob.obstacle_id), "occ": _occ(ob, 0)} for ob in obstacles]
        present = [ob for ob in obstacles if t0[ob.obstacle_id] <= 0]
        obs_p = [o for o in obs_all if t0[o["id"]] <= 0]
        for la in sorted(net.lanelets, key=lambda q: q.lanelet_id)[:1] if obs_level == "full" else []:
            e = dict(common, op="get_obstacles", lid=int(la.lanelet_id), t=0, obs=obs_all, res=[], exc="",
                     sig="get_obstacles/absent-at-t")
            try:
                e["res"] = [int(o.obstacle_id) for o in la.get_obstacles(obstacles, 0)]
            except Exception as ex:
                e["exc"] = _exc(ex)
            ev.append(e)
        for lst, obs, tag in ((present, obs_p, "present"), (obstacles, obs_all, "absent-at-0"))[:2 if obs_level == "full" else 1]:
            e = dict(common, op="map_obstacles", obs=obs, res=[], exc="", sig="map_obstacles/" + tag)
            try:
                m = net.map_obstacles_to_lanelets(lst)
                e["res"] = [{"lid": int(k), "obs": [int(o.obstacle_id) for o in v]} for k, v in sorted(m.items())]
            except Exception as ex:
                e["exc"] = _exc(ex)
            ev.append(e)
            e = dict(common, op="filter_obstacles", obs=obs, res=[], exc="", sig="filter_obstacles/" + tag)
            try:
                e["res"] = [int(o.obstacle_id) for o in net.filter_obstacles_in_network(lst)]
            except Exception as ex:
                e["exc"] = _exc(ex)
            ev.append(e)


# ---------------------------------------------------------------------------------------------- part 2: shapes
_M_TRANS = [2, -2, 0]
_M_ROT = [0, 0, 1]
_M_LOCAL = [4, 2, 0]


def _via_file(fmt, shape):
    """The shape as an occupancy of a set-based prediction, written to a file and read back."""
    import numpy as np
    from commonroad.geometry.shape import Rectangle
    from commonroad.prediction.prediction import Occupancy, SetBasedPrediction
    from commonroad.scenario.lanelet import LaneletNetwork
    from commonroad.scenario.obstacle import DynamicObstacle, ObstacleType
    from crv import gamma
    ob = DynamicObstacle(77, ObstacleType.CAR, Rectangle(1.0, 1.0), gamma.init_state(0.0, 0.0),
                         SetBasedPrediction(1, [Occupancy(1, shape)]))
    net = LaneletNetwork.create_from_lanelet_list([gamma.lanelet(5, 0.0, 0.0, 1.0, 1.0)])
    _, obs = _round_trip(fmt, net, [ob])
    return obs[0].occupancy_at_time(1).shape


def _perturbed(d):
    if d["k"] == "rect":
        return dict(d, c=[d["c"][0] + 2, d["c"][1] - 4], l=d["l"] + 2, w=d["w"] + 1, rot=_ID if d["rot"] != _ID else [0, 1, 1])
    if d["k"] == "disc":
        return dict(d, c=[d["c"][0] - 6, d["c"][1] + 2], r=d["r"] + 2)
    return dict(d, v=[[x + 4, y + 6] for x, y in d["v"]])


def _assign(shape, d):
    import numpy as np
    if d["k"] == "rect":
        shape.length, shape.width = float(d["l"]), float(d["w"])
        shape.center = _pt(d["c"])
        shape.orientation = _angle(d["rot"])
    elif d["k"] == "disc":
        shape.radius = d["r"] / 2.0
        shape.center = _pt(d["c"])
    else:
        shape.vertices = np.array([[x / 2.0, y / 2.0] for x, y in d["v"]])


def _shape_by_route(route, d):
    """-> (shape object, motion applied to the probes or None, routes list for the event)"""
    import numpy as np
    s = g_shape(d)
    if route == "ctor":
        return s, None
    if route == "deepcopy":
        return copy.deepcopy(s), None
    if route == "pickle":
        return pickle.loads(pickle.dumps(s)), None
    if route in ("xml", "pb"):
        return _via_file(route, s), None
    if route == "translate":
        return s.translate_rotate(np.array([_M_TRANS[0] / 2.0, _M_TRANS[1] / 2.0]), 0.0), _M_TRANS
    if route == "rotate":
        return s.translate_rotate(np.array([0.0, 0.0]), math.pi / 2), _M_ROT
    if route == "local":
        return s.rotate_translate_local(np.array([_M_LOCAL[0] / 2.0, _M_LOCAL[1] / 2.0]), 0.0), _M_LOCAL
    s = g_shape(_perturbed(d))
    if route == "set_warm":
        s.contains_point(np.array([0.25, 0.25]))
        _covers(s, [1, 1])
    _assign(s, d)
    return s, None


def _covers(shape, p):
    import shapely.geometry
    from commonroad.geometry.shape import ShapeGroup
    pt = shapely.geometry.Point(p[0] / 2.0, p[1] / 2.0)
    if isinstance(shape, ShapeGroup):                                    # a group exports the geometries of its members
        return int(any(bool(m.shapely_object.covers(pt)) for m in shape.shapes))
    return int(bool(shape.shapely_object.covers(pt)))


def _exec_shape(case):
    route, d = case["sroute"], case["shape"]
    kind = _KIND[d["k"]]
    routes = [{"r": "translate_rotate", "a": _M_ROT}] if route == "rotate" else [{"r": route, "a": []}]
    try:
        shape, m = _shape_by_route(route, d)
        desc = a_shape(shape)
    except MachineryError:
        raise
    except Exception as ex:
        return {"ev": [{"op": "contains_point", "route": route, "routes": routes, "shape": d, "pts": [], "res": [],
                        "exc": _exc(ex), "sig": "shape/contains_point/%s/route=%s" % (kind, route)}]}
    ev = []
    for g in case["probes"]:
        pts = [_move_pt(m, p) for p in g["pts"]] if m else g["pts"]
        common = {"route": route, "routes": routes, "shape": desc, "pts": pts}
        tag = "route=" + route if route.startswith("set_") else g["cls"]     # attribute assignment: its own signatures
        e = dict(common, op="contains_point", res=[], exc="", sig="shape/contains_point/%s/%s" % (kind, tag))
        try:
            e["res"] = [int(bool(shape.contains_point(_pt(p)))) for p in pts]
        except Exception as ex:
            e["exc"] = _exc(ex)
        ev.append(e)
        e2 = dict(common, op="exported_covers", res=[], cp=e["res"], exc="", sig="shape/exported/%s/%s" % (kind, tag))
        try:
            e2["res"] = [_covers(shape, p) for p in pts]
        except Exception as ex:
            e2["exc"] = _exc(ex)
        ev.append(e2)
    return {"ev": ev}


def _draw_once(drawable):
    import matplotlib
    matplotlib.use("Agg")
    import matplotlib.pyplot as plt
    from commonroad.visualization.mp_renderer import MPRenderer
    fig, ax = plt.subplots(figsize=(2, 2), dpi=40)
    try:
        rnd = MPRenderer(ax=ax)
        drawable.draw(rnd)
        rnd.render()
        fig.canvas.draw()
    finally:
        plt.close(fig)


def _exec_history(case):
    """One shape OBJECT through export -> attribute assignment -> (vertices read / drawn) -> queries; the expectation of every
    query is computed from the attributes the object has at that moment (alpha of the object)."""
    import numpy as np
    from commonroad.geometry.shape import Rectangle, ShapeGroup
    from commonroad.prediction.prediction import Occupancy, SetBasedPrediction
    from commonroad.scenario.lanelet import LaneletNetwork
    from commonroad.scenario.obstacle import DynamicObstacle, ObstacleType
    from crv import gamma
    lls = []
    for q in case["net"]:
        h = len(q["v"]) // 2
        lls.append({"id": q["id"], "r": [[x / 2.0, y / 2.0] for x, y in q["v"][:h]],
                    "l": [[x / 2.0, y / 2.0] for x, y in q["v"][h:][::-1]]})
    net = LaneletNetwork.create_from_lanelet_list(g_lanelets(lls))
    polys = a_net(net)
    shape = g_shape(case["shape"])
    group = isinstance(shape, ShapeGroup)
    target = shape.shapes[0] if group else shape
    final = case["final"]["ms"][0] if group else case["final"]
    owner = DynamicObstacle(77, ObstacleType.CAR, Rectangle(1.0, 1.0), gamma.init_state(-40.0, -40.0),
                            SetBasedPrediction(1, [Occupancy(1, shape)]))
    routes = [{"r": "history", "a": []}]
    kind = _KIND[case["shape"]["k"]]
    first = sorted(net.lanelets, key=lambda q: q.lanelet_id)[0]
    ev = []
    try:
        for st in case["steps"]:
            r = st["r"]
            if r == "export":
                how = st["a"][0]
                if how == 1 or (how == 3 and group):                    # find_lanelet_by_shape takes no groups
                    [m.shapely_object for m in (shape.shapes if group else [shape])]
                elif how == 2:
                    shape.contains_point(np.array([0.25, 0.25]))
                elif how == 3:
                    net.find_lanelet_by_shape(shape)
                else:
                    first.get_obstacles([owner], 1)
            elif r == "set_center":
                target.center = _pt(final["c"])
            elif r == "set_orientation":
                target.orientation = _angle(final["rot"])
            elif r == "set_length":
                target.length = float(final["l"])
            elif r == "set_width":
                target.width = float(final["w"])
            elif r == "set_radius":
                target.radius = final["r"] / 2.0
            elif r == "set_vertices":
                target.vertices = np.array([[x / 2.0, y / 2.0] for x, y in final["v"]])
            elif r == "read":
                if st["a"][0] == 1:
                    target.vertices
                else:
                    _draw_once(shape)
        desc = a_shape(shape)
    except MachineryError:
        raise
    except Exception as ex:
        return {"ev": [{"op": "contains_point", "route": "history", "routes": routes, "shape": case["final"], "pts": [], "res": [],
                        "exc": _exc(ex), "sig": "shape-history/contains_point/%s" % kind}]}
    for g in case["probes"]:
        common = {"route": "history", "routes": routes, "shape": desc, "pts": g["pts"]}
        e = dict(common, op="contains_point", res=[], exc="", sig="shape-history/contains_point/%s" % kind)
        try:
            e["res"] = [int(bool(shape.contains_point(_pt(p)))) for p in g["pts"]]
        except Exception as ex:
            e["exc"] = _exc(ex)
        ev.append(e)
        e2 = dict(common, op="exported_covers", res=[], cp=e["res"], exc="", sig="shape-history/exported/%s" % kind)
        try:
            e2["res"] = [_covers(shape, p) for p in g["pts"]]
        except Exception as ex:
            e2["exc"] = _exc(ex)
        ev.append(e2)
    common = {"route": "history", "routes": routes, "polys": polys}
    if not group:
        e = dict(common, op="find_by_shape", shape=desc, res=[], exc="", sig="shape-history/find_by_shape/%s" % kind)
        try:
            e["res"] = [int(x) for x in net.find_lanelet_by_shape(shape)]
        except Exception as ex:
            e["exc"] = _exc(ex)
        ev.append(e)
    for la in sorted(net.lanelets, key=lambda q: q.lanelet_id):
        e = dict(common, op="get_obstacles", lid=int(la.lanelet_id), t=1, obs=[{"id": 77, "occ": _occ(owner, 1)}], res=[], exc="",
                 sig="shape-history/get_obstacles/%s" % kind)
        try:
            e["res"] = [int(o.obstacle_id) for o in la.get_obstacles([owner], 1)]
        except Exception as ex:
            e["exc"] = _exc(ex)
        ev.append(e)
    return {"ev": ev}


def execute(case):
    use_repo()
    if case["kind"] == "history":
        return _exec_history(case)
    return _exec_net(case) if case["kind"] == "net" else _exec_shape(case)


def corrupt(trace, rng):
    """One logged result corrupted: an id that is not in the network added to a lookup result, or one decided
    containment bit flipped."""
    cand = []
    for i, e in enumerate(trace["ev"]):
        if e.get("exc"):
            continue
        if e["op"] == "find_by_position" and e["res"]:
            cand.append((i, "id"))
        elif e["op"] == "find_by_shape":
            cand.append((i, "ids"))
        elif e["op"] in ("contains_point", "exported_covers") and e["res"] and \
                e["sig"].rsplit("/", 1)[-1] in ("inside", "outside", "lt0.5r", "gt1.01r"):
            cand.append((i, "bit"))
    if not cand:
        return None
    i, how = rng.choice(cand)
    e = trace["ev"][i]
    if how == "id":
        e["res"][rng.randrange(len(e["res"]))].append(99)
    elif how == "ids":
        e["res"].append(99)
    else:
        k = rng.randrange(len(e["res"]))
        e["res"][k] = 1 - e["res"][k]
        if e["op"] == "exported_covers":
            e["cp"] = list(e["cp"])
    return trace
