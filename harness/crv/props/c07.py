"""C07 - obstacle-lanelet assignment is geometrically correct and invertible
(spec: Assignment.tla, MC_Assignment.tla, Trace_Assignment.tla)."""
import json
import math
import os

from crv import graph, tlc
from crv.core import use_repo

PROPERTY = "C07"
MODULES = ["Assignment", "MC_Assignment", "Trace_Assignment"]
TRACE = ("Trace_Assignment", "Trace_Assignment.cfg")
EXHAUSTIVE = True
RULE = ("TLC explores all histories (<= 6 steps) of add / assign / remove / obstacle motion / lanelet removal over a lattice world of 3 lanelets and 5 "
        "obstacles (static rectangle whose shape but not centre reaches a second lanelet, static disc touching two "
        "lanelets, dynamic rectangle crossing a shared edge, prediction-less dynamic polygon on an edge) on the "
        "implementation-shaped model; a transition cover of the dumped graph, both file readers with lanelet "
        "assignment, and seeded random lattice worlds (<= 5 lanelets incl. overlapping, <= 4 obstacles, histories of "
        "10 steps) run on real scenarios; after every call all forward relations and all lanelet registries are "
        "logged and TLC recomputes centre / shape truth from the lattice world and checks the registries to be the "
        "exact inverse. distinct_nontrivial = distinct (world, history).")
ASSUMPTIONS = ["exact states, trajectory or no prediction, shapes: rectangle, polygon (box), disc (statement's scope)",
               "lanelets are axis-parallel integer boxes; obstacle poses have half-integer centres and quarter-turn "
               "orientations, so closed-set truth is exact"]

WORLD0 = {"lan": [[1, 0, 0, 2, 2], [2, 2, 0, 4, 2], [3, 0, 2, 2, 4]],
          "obs": [{"id": 11, "kind": "static", "shape": ["rect", 2, 1], "t0": 0, "poses": [[3, 2, 0]]},
                  {"id": 12, "kind": "static", "shape": ["disc", 1, 0], "t0": 0, "poses": [[2, 2, 0]]},
                  {"id": 13, "kind": "dynamic", "shape": ["rect", 1, 1], "t0": 0, "poses": [[2, 2, 0], [4, 2, 0], [6, 2, 1]]},
                  {"id": 14, "kind": "dynamic", "shape": ["poly", 2, 2], "t0": 1, "poses": [[2, 4, 0]]},
                  {"id": 15, "kind": "dynamic", "shape": ["rect", 3, 1], "t0": 0, "poses": [[2, 2, 0], [2, 2, 1], [2, 2, 0]]},
                  {"id": 16, "kind": "dynamic", "shape": ["roff", 1, 1], "t0": 0, "poses": [[3, 2, 0], [3, 2, 1]]}]}


def model_check(ctx):
    ctx.mc("MC_Assignment", "MC_Assignment_t.cfg" if ctx.thorough else "MC_Assignment.cfg")
    ctx.mc_expect("MC_Assignment", "DEV_Assignment_1.cfg", "InvInverseStatic")
    ctx.mc_expect("MC_Assignment", "DEV_Assignment_2.cfg", ("InvInverseStatic", "InvInverseDynamic"))
    ctx.mc_expect("MC_Assignment", "DEV_Assignment_3.cfg", "InvRemoveTotal")
    ctx.mc_expect("MC_Assignment", "DEV_Assignment_4.cfg", ("InvInverseStatic", "InvInverseDynamic"))
    ctx.mc_expect("MC_Assignment", "DEV_Assignment_5.cfg", "PropAssignTruth")


def cases(ctx):
    r = tlc.run_tlc("MC_Assignment", "GEN_Assignment.cfg", "c07_gen", workers=1, timeout=900)
    if not r["ok"]:
        raise tlc.MachineryError("GEN_Assignment failed: " + r["out"][-2000:])
    g = graph.parse_edges(tlc.tla_unquote(p) for p in tlc.printed_tuples(r["out"], "EDGE"))
    init = [k for k in g if json.loads(k)["steps"] == 0][0]
    walks = graph.cover_walks(g, init, max_len=5, rng=ctx.rng)
    ne = sum(len(v) for v in g.values())
    ctx.mc_runs.append({"module": "MC_Assignment", "cfg": "GEN_Assignment.cfg", "distinct_states": r["distinct"],
                        "states_generated": r["generated"], "depth": r["depth"], "wall_s": r["wall_s"],
                        "verdict": "dumped %d labelled edges -> %d covering walks" % (ne, len(walks))})
    cs = []
    for i, w in enumerate(walks):
        cs.append({"src": "tlc", "world": WORLD0, "ops": [[a[0], a[1]] for a in w], "reuse": 1 if i % 3 else 0})
    # reader routes on every subset of the model world's obstacles
    for mask in range(1, 64, 3):
        ids = [o["id"] for k, o in enumerate(WORLD0["obs"]) if mask >> k & 1]
        for fmt in ("open_xml", "open_pb"):
            cs.append({"src": "reader", "world": WORLD0, "ops": [["add", i] for i in ids] + [[fmt, 0]], "reuse": 0})
    rng = ctx.rng
    for _ in range(20000 if ctx.thorough else 500):
        cs.append({"src": "random", "seed": rng.randrange(1 << 30), "big": 1 if ctx.thorough else 0})
    return cs


def nontrivial(case):
    return json.dumps(case.get("ops") or case.get("seed"))


def _random_case(seed, big=0):
    import random
    r = random.Random(seed)
    lan = []
    for i in range(1, r.randint(2, 7 if big else 5) + 1):
        x0, y0 = r.randint(0, 4), r.randint(0, 3)
        lan.append([i, x0, y0, x0 + r.choice([1, 2, 3]), y0 + r.choice([1, 2])])
    obs = []
    for k in range(r.randint(1, 6 if big else 4)):
        kind = r.choice(["static", "dynamic", "dynamic"])
        shape = r.choice([["rect", 2, 1], ["rect", 1, 1], ["rect", 3, 1], ["poly", 2, 2], ["poly", 1, 3], ["disc", 1, 0],
                          ["disc", 2, 0], ["roff", 1, 1], ["roff", 2, 1]])
        n = 1 if kind == "static" else r.randint(1, 4)
        poses = [[r.randint(-2, 14), r.randint(-2, 10), r.randint(0, 3)] for _ in range(n)]
        for i in range(1, n):                 # standing still / turning on the spot: same position, maybe another heading
            if r.random() < 0.35:
                poses[i] = [poses[i - 1][0], poses[i - 1][1], r.randint(0, 3)]
        obs.append({"id": 11 + k, "kind": kind, "shape": shape, "t0": r.randint(0, 2) if kind == "dynamic" else 0,
                    "poses": poses})
    world = {"lan": lan, "obs": obs}
    ops, present = [], set()
    for _ in range(18 if big else 10):
        k = r.random()
        if k < 0.35 and len(present) < len(obs):
            o = r.choice([o["id"] for o in obs if o["id"] not in present])
            ops.append(["add", o])
            present.add(o)
        elif k < 0.58:
            ops.append(["assign", 0])
        elif k < 0.65:
            ops.append(["assign_center", 0])
        elif k < 0.80 and present:
            o = r.choice(sorted(present))
            ops.append(["remove", o])
            present.discard(o)
        elif k < 0.88 and present:
            ops.append(["move", r.choice(sorted(present)), [2 * r.randint(-2, 2), 2 * r.randint(-2, 2)]])
        elif k < 0.93:
            ops.append([r.choice(["remove_lanelet", "remove_lanelet", "replace_network"]), r.choice(lan)[0]])
        elif k < 0.96:
            ops.append(["move_network", 0, [4 * r.randint(-1, 1), 4 * r.randint(-1, 1)]])
        elif present:
            ops.append([r.choice(["open_xml", "open_pb"]), 0])
    return world, ops, r.randint(0, 1)


# ---- gamma ---------------------------------------------------------------------------------------------

def _shape(sh):
    import numpy as np
    from commonroad.geometry.shape import Circle, Polygon, Rectangle
    if sh[0] == "rect":
        return Rectangle(float(sh[1]), float(sh[2]))
    if sh[0] == "roff":                                    # the shape's own centre is not the obstacle's reference point
        return Rectangle(float(sh[1]), float(sh[2]), np.array([1.0, 0.0]))
    if sh[0] == "disc":
        return Circle(float(sh[1]))
    l2, w2 = sh[1] / 2.0, sh[2] / 2.0
    return Polygon(np.array([[-l2, -w2], [l2, -w2], [l2, w2], [-l2, w2]]))


def build_obstacle(o):
    import numpy as np
    from commonroad.prediction.prediction import TrajectoryPrediction
    from commonroad.scenario.obstacle import DynamicObstacle, ObstacleType, StaticObstacle
    from commonroad.scenario.state import InitialState, KSState
    from commonroad.scenario.trajectory import Trajectory
    p0 = o["poses"][0]
    init = InitialState(position=np.array([p0[0] / 2.0, p0[1] / 2.0]), orientation=p0[2] * math.pi / 2, time_step=o["t0"],
                        velocity=0.0, acceleration=0.0, yaw_rate=0.0, slip_angle=0.0)
    if o["kind"] == "static":
        return StaticObstacle(o["id"], ObstacleType.PARKED_VEHICLE, _shape(o["shape"]), init)
    pred = None
    if len(o["poses"]) > 1:
        sts = [KSState(position=np.array([p[0] / 2.0, p[1] / 2.0]), orientation=p[2] * math.pi / 2, time_step=o["t0"] + 1 + i,
                       velocity=1.0, steering_angle=0.0) for i, p in enumerate(o["poses"][1:])]
        pred = TrajectoryPrediction(Trajectory(o["t0"] + 1, sts), _shape(o["shape"]))
    return DynamicObstacle(o["id"], ObstacleType.CAR, _shape(o["shape"]), init, pred)


def build_scenario(world):
    from commonroad.scenario.scenario import Tag
    from crv import gamma as G
    sc = G.scenario()
    sc.author, sc.affiliation, sc.source, sc.tags = "a", "b", "c", {Tag.URBAN}
    for (i, x0, y0, x1, y1) in world["lan"]:
        sc.add_objects(G.lanelet(i, float(x0), float(y0), float(x1 - x0), float(y1 - y0)))
    return sc


# ---- alpha ---------------------------------------------------------------------------------------------

def _poses_of(o):
    """Current poses of a real obstacle as <<cx2, cy2, q>> (doubled centre, quarter turns)."""
    sts = [o.initial_state] + (list(o.prediction.trajectory.state_list) if getattr(o, "prediction", None) is not None else [])
    out = []
    for st in sts:
        x2, y2, q = 2.0 * float(st.position[0]), 2.0 * float(st.position[1]), float(st.orientation) / (math.pi / 2)
        if max(abs(x2 - round(x2)), abs(y2 - round(y2)), abs(q - round(q))) > 1e-6:
            raise tlc.MachineryError("off-lattice pose %r" % ((x2, y2, q),))
        out.append([int(round(x2)), int(round(y2)), int(round(q)) % 4])
    return out


def _box_of(la):
    """Current integer box <<id, x0, y0, x1, y1>> of a real lanelet."""
    import numpy as np
    v = np.concatenate((la.left_vertices, la.right_vertices))
    xs, ys = v[:, 0], v[:, 1]
    b = [float(xs.min()), float(ys.min()), float(xs.max()), float(ys.max())]
    if any(abs(x - round(x)) > 1e-6 for x in b):
        raise tlc.MachineryError("off-lattice lanelet %r" % (b,))
    return [int(la.lanelet_id)] + [int(round(x)) for x in b]


def _ids(s):
    return sorted(int(x) for x in s)


def project(sc):
    obs = []
    for o in sc.obstacles:
        ic, isl = o.initial_center_lanelet_ids, o.initial_shape_lanelet_ids
        pred = getattr(o, "prediction", None)
        ca = getattr(pred, "center_lanelet_assignment", None) or {}
        sa = getattr(pred, "shape_lanelet_assignment", None) or {}
        obs.append({"id": int(o.obstacle_id), "icf": 0 if ic is None else 1, "ic": _ids(ic or ()),
                    "isf": 0 if isl is None else 1, "is": _ids(isl or ()),
                    "ca": [[int(t), _ids(v)] for t, v in sorted(ca.items())],
                    "sa": [[int(t), _ids(v)] for t, v in sorted(sa.items())]})
    reg = []
    for la in sc.lanelet_network.lanelets:
        dy = la.dynamic_obstacles_on_lanelet or {}
        reg.append({"id": int(la.lanelet_id), "st": _ids(la.static_obstacles_on_lanelet or ()),
                    "dy": [[int(t), _ids(v)] for t, v in sorted(dy.items())]})
    return {"obs": sorted(obs, key=lambda r: r["id"]), "reg": sorted(reg, key=lambda r: r["id"])}


# ---- execution -----------------------------------------------------------------------------------------

def execute(case):
    use_repo()
    from commonroad.common.file_reader import CommonRoadFileReader
    from commonroad.common.file_writer import CommonRoadFileWriter, OverwriteExistingFile
    from commonroad.common.util import FileFormat
    from commonroad.planning.planning_problem import PlanningProblemSet
    if case.get("src") == "random":
        world, ops, reuse = _random_case(case["seed"], case.get("big", 0))
    else:
        world, ops, reuse = case["world"], case["ops"], case.get("reuse", 0)
    by_id = {o["id"]: o for o in world["obs"]}
    sc = build_scenario(world)
    objs, ev = {}, []
    for step in ops:
        op, arg = step[0], step[1]
        exc, sig, fresh_flag, d = "None", op, 0, [0, 0]
        try:
            if op == "add":
                if sc.obstacle_by_id(arg) is not None:
                    continue
                if not (reuse and arg in objs):
                    objs[arg] = build_obstacle(by_id[arg])
                    sig = "add/fresh/" + by_id[arg]["kind"]
                    fresh_flag = 1
                else:
                    sig = "add/again/" + by_id[arg]["kind"]
                sc.add_objects(objs[arg])
            elif op == "move":                                     # obstacle-level rigid motion by a lattice vector
                import numpy as np
                o = sc.obstacle_by_id(arg)
                if o is None:
                    continue
                d = list(step[2]) if len(step) > 2 else [4, 0]       # doubled coordinates
                sig = "move/%s/%s" % (by_id[arg]["kind"], "assigned" if o.initial_shape_lanelet_ids is not None else "unassigned")
                o.translate_rotate(np.array([d[0] / 2.0, d[1] / 2.0]), 0.0)
            elif op == "move_network":                             # network-level rigid motion by a lattice vector
                import numpy as np
                d = list(step[2]) if len(step) > 2 else [4, 0]       # doubled coordinates (even: whole units)
                sc.lanelet_network.translate_rotate(np.array([d[0] / 2.0, d[1] / 2.0]), 0.0)
            elif op == "remove_lanelet":
                la = sc.lanelet_network.find_lanelet_by_id(arg)
                if la is None:
                    continue
                sc.remove_lanelet(la)
            elif op == "replace_network":
                from commonroad.scenario.lanelet import LaneletNetwork
                from crv import gamma as G
                sc.replace_lanelet_network(LaneletNetwork.create_from_lanelet_list(
                    [G.lanelet(i, float(x0), float(y0), float(x1 - x0), float(y1 - y0)) for (i, x0, y0, x1, y1) in world["lan"]]))
            elif op == "assign":
                sc.assign_obstacles_to_lanelets()
            elif op == "assign_center":
                sc.assign_obstacles_to_lanelets(use_center_only=True)
            elif op == "remove":
                o = sc.obstacle_by_id(arg)
                if o is None:
                    continue
                sig = "remove/%s/%s" % (by_id[arg]["kind"], "assigned" if o.initial_shape_lanelet_ids is not None else "unassigned")
                sc.remove_obstacle(o)
            elif op in ("open_xml", "open_pb"):
                tmpd = os.path.join(tlc.OUT, "c07_tmp")
                os.makedirs(tmpd, exist_ok=True)
                path = os.path.join(tmpd, "p%d.%s" % (os.getpid(), "xml" if op == "open_xml" else "pb"))
                # write a scenario that carries no assignment yet (the CURRENT lattice world, projected from the real
                # objects: remaining lanelets, obstacles at their current poses), read it back with lanelet assignment
                fresh = build_scenario({"lan": [_box_of(la) for la in sc.lanelet_network.lanelets]})
                for o in sc.obstacles:
                    fresh.add_objects(build_obstacle(dict(by_id[o.obstacle_id], poses=_poses_of(o))))
                CommonRoadFileWriter(fresh, PlanningProblemSet(), decimal_precision=6,
                                     file_format=FileFormat.XML if op == "open_xml" else FileFormat.PROTOBUF) \
                    .write_to_file(path, OverwriteExistingFile.ALWAYS)
                sc, _ = CommonRoadFileReader(path).open(lanelet_assignment=True)
                os.remove(path)
                objs = {}
            else:
                raise tlc.MachineryError("unknown op " + op)
        except tlc.MachineryError:
            raise
        except Exception as ex:
            exc = "exc:" + type(ex).__name__
        ev.append(dict(project(sc), op=op, arg=arg, exc=exc, sig=sig, fresh=fresh_flag, d=d))
    return {"ev": ev, "world": world}


def corrupt(trace, rng):
    """Remove one obstacle from a registry right after a full assignment (every obstacle in the scenario is then in
    step with the registries): the inverse relation must be rejected."""
    full = [e for e in trace["ev"] if e["op"] in ("assign", "open_xml", "open_pb") and e["exc"] == "None"]
    for e in rng.sample(full, len(full)):
        present = {o["id"] for o in e["obs"]}
        for r in e["reg"]:
            if r["st"] and r["st"][0] in present:
                r["st"] = r["st"][1:]
                return trace
            if r["dy"] and r["dy"][0][1] and r["dy"][0][1][0] in present:
                r["dy"][0][1] = r["dy"][0][1][1:]
                return trace
    return None
