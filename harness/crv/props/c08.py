"""C08 - goal-region membership is decided correctly (spec: Goal.tla)."""
from crv.core import use_repo

PROPERTY = "C08"
MODULES = ["Goal", "MC_Goal", "Trace_Goal"]
TRACE = ("Trace_Goal", "Trace_Goal.cfg")
EXHAUSTIVE = True
RULE = ("TLC enumerates goal regions per dimension and hands each one over with its probe states: all 1176 angle "
        "intervals (start -24..24, length 0..23 on the pi/12 grid) x (49 grid angles + the int 0 + 9 point-mass "
        "velocity vectors; thorough: + magnitude-2 vectors and 8 angles beyond +-2pi); 24 regions (rect, disc, polygon, "
        "group, lanelets, 6 shape groups mixing discs / rects / polygons / nested groups) x a 13x13 half-integer probe grid for kinematic and point-mass states; all time intervals "
        "on 0..6 / velocity intervals on -1..3 and 16 combinations x 95 states; 64 mixed goal states and 192 (thorough "
        "384) two-state regions x 64 mixed states, plus 16 trajectories of 1..3 states for PlanningProblem.goal_reached; "
        "plus 400 (thorough 4000) seeded random regions of 1..3 goal states with larger values, 30 states and up to 4 "
        "trajectories each. Goal states are built as KSState and as CustomState (alternating by case); lanelet goals "
        "as the ShapeGroup of lanelet polygons looked up in a LaneletNetwork + lanelets_of_goal_position. "
        "Moved goals: 8 position goals x 8 lattice motions (translation, quarter turns) and 4 angle goals x 4 "
        "motions, each cold and after a first query (warm), moved through GoalRegion / PlanningProblem / "
        "PlanningProblemSet.translate_rotate (cycling), then queried on the moved 13x13 probe grid + 25 probes at the old "
        "location and 6 trajectories; every second random case moves its goal as well. "
        "State classes: 13 heading / speed goals x 144 states of 9 classes by stored attributes (KSState, STState, "
        "ExtendedPMState, MBState, InitialState, CustomState{o,v}, CustomState{o,v,vy}; PMState, CustomState{v,vy}) with "
        "headings -9,-6,-2,0,2,6,9,12 (x pi/12) + one trajectory per class; random states draw a class as well. "
        "File route: 4 lanelet-referenced goal regions in a 3-lanelet network are written (XML cold, protobuf warm; XML warm for [scn,pps]) "
        "and read back, queried as read, and after Scenario / PlanningProblemSet.translate_rotate histories [scn], "
        "[scn,pps], [pps,scn], [pps] with 4 lattice motions, on 63 probes at the old place, the once-moved and the "
        "twice-moved place, plus 4 trajectories. "
        "Signatures: exceptions are grouped by goal shape / angle-interval length class / value type, wrong verdicts "
        "by goal shape / heading group of the point-mass state. "
        "distinct_nontrivial = distinct goal regions with at least one constraint besides time.")
ASSUMPTIONS = ["time_step is mandatory in a goal state (GoalRegion rejects goal states without it), so the spec-level "
               "law 'no constraint => always reached' is exercised on the code as 'time interval covering all steps'",
               "orientations live on the k*pi/12 grid (float k*math.pi/12) or are the int 0; an orientation equal to an "
               "interval end point after a non-zero number of full turns (or any end point of an interval the "
               "constructor moved by 2pi) is an EITHER band; everything else is exact",
               "positions are half-integers; rectangles axis-parallel; Circle.contains_point is exact on this data, "
               "so discs have no band",
               "point-mass velocity vectors lie on the 8 compass directions (or are (0,0)) whenever the goal "
               "constrains the orientation; atan2 of those equals the grid float exactly (checked on this machine)",
               "moved goals: motions are integer/half-integer translations and quarter turns, exact on the lattice; after "
               "a quarter turn (q != 0) pure boundary contact and angle-interval end points are EITHER (cos(pi/2) = 6e-17), "
               "interior and exterior probes must be decided; for q = 0 everything is exact",
               "file route: positions are half-integers (exact in XML text and protobuf doubles); angle end points went "
               "through print/parse, so every end-point hit is EITHER; the goal must move once per planning-problem-set "
               "motion and never with the scenario",
               "state classes: a state that stores an orientation and NO velocity_y is judged by it and by its stored "
               "velocity (ExtendedPMState only derives velocity_y); a state without stored orientation but with velocity "
               "and velocity_y is judged by atan2(vy, vx) and hypot(vx, vy); a state that stores BOTH an orientation and a "
               "velocity_y (MBState, CustomState{o,v,vy}) is outside the statement's 'kinematic and point-mass' classes: "
               "both readings are accepted for the orientation / velocity constraints (EITHER unless they agree), time and "
               "position stay exact, and the call must still not raise. Observed: the library overrides the stored heading "
               "and speed of such states by atan2(velocity_y, velocity) / hypot (e.g. MBState(orientation=0, velocity=1, "
               "velocity_y=1) does not reach a goal with orientation [-0.5, 0.5])",
               "expected verdicts are computed by TLC from Goal.tla!Reached / GoalReachedV / IndexOk / MovedReached, never in Python"]

_DIRS = {(1, 0): "E", (1, 1): "NE", (0, 1): "N", (-1, 1): "NW", (-1, 0): "W", (-1, -1): "SW", (0, -1): "S",
         (1, -1): "SE", (0, 0): "zero"}


def _pm_dir(s):
    """Heading group of a point-mass velocity vector (the heading decides verdicts, not totality)."""
    vx, vy = s["vx"], s["vy"]
    if vx and vy and abs(vx) != abs(vy):
        return "other"
    if vy == 0 and vx >= 0:
        return "+x"                      # E and (0, 0): heading 0
    if vx > 0:
        return "right"                   # NE, SE
    if vx == 0:
        return "vertical"                # N, S
    return "left"                        # NW, W, SW


def _goal_tags(goal):
    """Abstract shape of a goal region: (head, length class of the longest angle interval or None, attrs)."""
    attrs = set()
    lens, kinds = [], set()
    for g in goal:
        if g["pos"]["k"] != "none":
            attrs.add("position")
            kinds.add(g["pos"]["k"])
        if g["ori"]["k"] != "none":
            attrs.add("orientation")
            lens.append(g["ori"]["b"] - g["ori"]["a"])
        if g["vel"]["k"] != "none":
            attrs.add("velocity")
    if not attrs:
        head = "time"
    elif len(attrs) == 1:
        head = next(iter(attrs))
    else:
        head = "mixed"
    if head == "position":
        head += ":" + (next(iter(kinds)) if len(kinds) == 1 else "several")
    lc = None
    if lens:
        m = max(lens)
        lc = "len>pi" if m > 12 else "len=pi" if m == 12 else "len<pi"
    return head, lc, attrs


def _sig(op, goal, s, res):
    """Signature = shape of the call.  Which input features are kept depends on the kind of outcome only:
    an exception is about the goal's interval class and the value type, a verdict about the state's heading group."""
    head, lc, attrs = _goal_tags(goal)
    parts = [head]
    exc = res not in ("T", "F")
    if exc and lc:
        parts.append(lc)
    if s["kind"] == "pm":
        parts.append("pm/" + _pm_dir(s) if (not exc and "orientation" in attrs) else "pm")
    elif "orientation" in attrs:
        parts.append("int" if s["thint"] else "float")
    elif "velocity" in attrs:
        parts.append("int" if s["vint"] else "float")
    if s.get("cls") not in (None, "KSState", "PMState"):
        parts.append("cls:" + s["cls"])
    return op + "/" + "/".join(parts)


def model_check(ctx):
    ctx.mc("MC_Goal", "MC_Goal_t.cfg" if ctx.thorough else "MC_Goal.cfg", coverage=ctx.thorough, timeout=3000)


# ---- seeded random cases: same descriptor language, larger values --------------------------------------------------
def _rand_region(rng):
    k = rng.choice(["rect", "disc", "poly", "group", "lanelets", "mgroup", "mgroup", "none", "none"])
    if k == "none":
        return {"k": "none"}
    if k == "mgroup":                          # mixed shape group around one spot so that members overlap; may nest once
        x, y = rng.randint(-20, 20), rng.randint(-20, 20)

        def member(depth):
            kind = rng.choice(["rect", "disc", "disc", "poly"] + (["mgroup"] if depth == 0 else []))
            if kind == "rect":
                x0, y0 = x + rng.randint(-8, 8), y + rng.randint(-8, 8)
                return {"k": "rect", "r": [x0, y0, x0 + rng.randint(1, 10), y0 + rng.randint(1, 10)]}
            if kind == "disc":
                return {"k": "disc", "c": [x + rng.randint(-8, 8), y + rng.randint(-8, 8)], "rad": rng.randint(2, 14)}
            if kind == "poly":
                while True:
                    v = [[x + 2 * rng.randint(-6, 6), y + 2 * rng.randint(-6, 6)] for _ in range(3)]
                    if (v[1][0] - v[0][0]) * (v[2][1] - v[0][1]) - (v[1][1] - v[0][1]) * (v[2][0] - v[0][0]) != 0:
                        return {"k": "poly", "v": v}
            return {"k": "mgroup", "ms": [member(1) for _ in range(rng.randint(1, 2))]}
        return {"k": "mgroup", "ms": [member(0) for _ in range(rng.randint(1, 3))]}

    def rect():
        x0, y0 = rng.randint(-30, 30), rng.randint(-30, 30)
        return [x0, y0, x0 + rng.randint(1, 12), y0 + rng.randint(1, 12)]
    if k == "rect":
        return {"k": "rect", "r": rect()}
    if k == "disc":
        return {"k": "disc", "c": [rng.randint(-30, 30), rng.randint(-30, 30)], "rad": rng.randint(1, 20)}
    if k == "poly":
        while True:
            v = [[2 * rng.randint(-15, 15), 2 * rng.randint(-15, 15)] for _ in range(3)]
            cr = (v[1][0] - v[0][0]) * (v[2][1] - v[0][1]) - (v[1][1] - v[0][1]) * (v[2][0] - v[0][0])
            if cr != 0:                        # non-degenerate triangle (input well-formedness, not a verdict)
                return {"k": "poly", "v": v}
    if k == "group":
        return {"k": "group", "rs": [rect() for _ in range(rng.randint(1, 3))]}
    x0, y0, w = 2 * rng.randint(-10, 10), 2 * rng.randint(-10, 10), 2 * rng.randint(1, 3)
    n = rng.randint(1, 3)
    return {"k": "lanelets", "rs": [[x0 + 8 * j, y0, x0 + 8 * (j + 1), y0 + w] for j in range(n)]}


def _leaves(pos):
    return [x for m in pos["ms"] for x in _leaves(m)] if pos["k"] == "mgroup" else [pos]


def _region_points(rng, pos):
    """Probe points in and around a region (doubled coordinates)."""
    if pos["k"] == "none":
        return [[rng.randint(-5, 5), rng.randint(-5, 5)]]
    if pos["k"] == "mgroup":                   # points around every primitive member (discs: out to the full radius)
        return [p for m in _leaves(pos) for p in _region_points(rng, m)[:4]]
    if pos["k"] == "rect":
        xs, ys = [pos["r"][0], pos["r"][2]], [pos["r"][1], pos["r"][3]]
    elif pos["k"] == "disc":
        xs = [pos["c"][0] - pos["rad"], pos["c"][0] + pos["rad"]]
        ys = [pos["c"][1] - pos["rad"], pos["c"][1] + pos["rad"]]
    elif pos["k"] == "poly":
        xs, ys = [p[0] for p in pos["v"]], [p[1] for p in pos["v"]]
    else:
        xs = [r[0] for r in pos["rs"]] + [r[2] for r in pos["rs"]]
        ys = [r[1] for r in pos["rs"]] + [r[3] for r in pos["rs"]]
    pts = [[rng.randint(min(xs) - 2, max(xs) + 2), rng.randint(min(ys) - 2, max(ys) + 2)] for _ in range(6)]
    pts += [[rng.choice(xs), rng.randint(min(ys), max(ys))], [rng.randint(min(xs), max(xs)), rng.choice(ys)]]
    return pts


def _rand_case(rng, i):
    goal = []
    for _ in range(rng.choice([1, 1, 2, 3])):
        lo = rng.randint(0, 40)
        g = {"t": {"k": "iv", "lo": lo, "hi": lo + rng.randint(0, 15)}, "pos": _rand_region(rng),
             "ori": {"k": "none"}, "vel": {"k": "none"}}
        if rng.random() < 0.5:
            a = rng.randint(-24, 24)
            g["ori"] = {"k": "ang", "a": a, "b": a + rng.randint(0, 23)}
        if rng.random() < 0.5:
            lo = rng.randint(-5, 20)
            g["vel"] = {"k": "iv", "lo": lo, "hi": lo + rng.randint(0, 10), "fl": rng.randint(0, 1)}
        goal.append(g)
    has_ori = any(g["ori"]["k"] != "none" for g in goal)
    states = []
    for _ in range(30):
        g = rng.choice(goal)
        t = rng.choice([g["t"]["lo"], g["t"]["hi"], rng.randint(0, 60), rng.randint(g["t"]["lo"], g["t"]["hi"])])
        p = rng.choice(_region_points(rng, g["pos"]))
        if rng.random() < 0.65:
            if rng.random() < 0.1:
                th, thint = 0, 1
            elif g["ori"]["k"] != "none" and rng.random() < 0.6:
                th, thint = rng.randint(g["ori"]["a"] - 2, g["ori"]["b"] + 2), 0
                while th > 24:
                    th -= 24
                while th < -24:
                    th += 24
            else:
                th, thint = rng.randint(-24, 24), 0
            v = rng.randint(-6, 31) if g["vel"]["k"] == "none" else rng.randint(g["vel"]["lo"] - 1, g["vel"]["hi"] + 1)
            st = {"kind": "ks", "t": t, "p": p, "th": th, "thint": thint, "v": v, "vint": rng.randint(0, 1)}
            if rng.random() < 0.5:            # the same stored values in another state class
                st.update(cls=rng.choice(_KS_CLASSES), vy=rng.randint(-9, 9))
            states.append(st)
        else:
            if has_ori or rng.random() < 0.5:
                d = rng.choice([d for d in _DIRS if d != (0, 0)] + [(0, 0)])
                m = rng.randint(1, 20)
                vx, vy = m * d[0], m * d[1]
            else:
                vx, vy = rng.randint(-20, 20), rng.randint(-20, 20)
            states.append({"kind": "pm", "t": t, "p": p, "vx": vx, "vy": vy, "vint": rng.randint(0, 1),
                           "cls": rng.choice(("PMState", "CustomVV"))})
    trajs = []
    for kind in ("ks", "pm"):
        pool = [s for s in states if s["kind"] == kind]
        for _ in range(2):
            if pool:
                n = rng.randint(1, 4)
                t0 = rng.randint(0, 40)
                tag = rng.choice(pool).get("cls")          # one state class per trajectory (Trajectory demands it)
                tr = []
                for j in range(n):
                    st = dict(rng.choice(pool), t=t0 + j)
                    if tag:
                        st["cls"] = tag
                        if kind == "ks":
                            st.setdefault("vy", 0)
                    else:
                        st.pop("cls", None)
                    tr.append(st)
                trajs.append(tr)
    return {"cls": "random", "goal": goal, "states": states, "trajs": trajs, "src": "random"}


_VIAS = ("goal", "problem", "set")
_KS_CLASSES = ("KSState", "STState", "ExtendedPMState", "MBState", "InitialState", "CustomOV", "CustomOVV")


def _rotq(q, x, y):
    for _ in range(q % 4):
        x, y = -y, x
    return x, y


def _move_state(s, mv):
    """Input generation for random moved cases: the probe state carried along with the lattice motion (p -> R^q(p + t),
    heading + 6q grid steps).  Produces inputs only; expected verdicts come from Goal.tla!MovedReached."""
    q = mv["q"] % 4
    r = dict(s)
    r["p"] = list(_rotq(q, s["p"][0] + mv["t"][0], s["p"][1] + mv["t"][1]))
    if s["kind"] == "pm":
        r["vx"], r["vy"] = _rotq(q, s["vx"], s["vy"])
    elif not s["thint"]:
        th = s["th"] + 6 * q
        r["th"] = th - 24 if th > 24 else th
    return r


def _cls_tag(s):
    return "/cls:" + s["cls"] if s.get("cls") not in (None, "KSState", "PMState") else ""


def _expand_moved(c, n):
    """One TLC 'moved goal' case -> one executable case per motion x {cold, warm}; the route cycles through
    GoalRegion / PlanningProblem / PlanningProblemSet.translate_rotate."""
    out = []
    for k, mv in enumerate(c["moves"]):
        for warm in (0, 1):
            out.append({"cls": c["cls"], "goal": c["goal"], "states": c["states"] if warm else [], "trajs": [],
                        "mv": mv, "warm": warm, "via": _VIAS[(n + k + warm) % 3], "mstates": c["mstates"][k],
                        "mtrajs": c["mtrajs"][k], "src": "tlc"})
    return out


_FILE_VARIANTS = (("xml", 0), ("xml", 1), ("pb", 1))        # (format, warm)


def _expand_file(c):
    """One TLC 'goal read from a file' case -> as-read queries (history []) and, per motion x history x variant, one case."""
    out = []
    common = {"cls": "file", "goal": c["goal"], "lanes": c["lanes"], "states": [], "trajs": [], "src": "tlc"}
    for fmt, warm in _FILE_VARIANTS[::2]:
        out.append(dict(common, fmt=fmt, warm=warm, mv=c["fmoves"][0], hist=[], fstates=c["fstates"][0][:63],
                        ftrajs=[]))
    for k, mv in enumerate(c["fmoves"]):
        for hist in c["fhists"]:
            for fmt, warm in _FILE_VARIANTS:
                if (fmt, warm) == ("xml", 1) and hist != ["scn", "pps"]:
                    continue                                  # XML warm only for the full history (keeps the quick tier short)
                out.append(dict(common, fmt=fmt, warm=warm, mv=mv, hist=hist, fstates=c["fstates"][k],
                                ftrajs=c["ftrajs"][k]))
    return out


def cases(ctx):
    raw = ctx.gen("MC_Goal", "GEN_Goal_t.cfg" if ctx.thorough else "GEN_Goal.cfg")
    bands, mbands, cbands, cs = 0, 0, 0, []
    for n, c in enumerate(raw):
        c["src"] = "tlc"
        b = c.pop("bands", 0)                 # evidence only; never reaches execute()
        if c["cls"] == "file":
            cs.extend(_expand_file(c))
        elif c.get("moves"):
            mbands += b
            cs.extend(_expand_moved(c, n))
        else:
            bands += b
            if c["cls"] == "cls":
                cbands += b
            for k in ("moves", "mstates", "mtrajs", "lanes", "fmoves", "fhists", "fstates", "ftrajs"):
                c.pop(k, None)
            cs.append(c)
    ctx.extra["either_band"] = {"tlc_probe_states": sum(len(c["states"]) for c in cs if "mv" not in c),
                                "file_probe_states": sum(len(c["fstates"]) for c in cs if "hist" in c),
                                "expected_EITHER": bands,
                                "of_which_state_class_dimension": cbands,
                                "moved_probe_states": sum(len(c["mstates"]) for c in cs if "mstates" in c) // 2,
                                "moved_expected_EITHER": mbands,
                                "note": "declared in Goal.tla: states that store BOTH an orientation and a velocity_y (MBState, "
                                        "CustomState{o,v,vy}): orientation / velocity constraints decided only where the "
                                        "stored and the atan2 / hypot reading agree (all EITHER verdicts of the "
                                        "state-class dimension are of this kind); orientation on an interval end point after a non-zero "
                                        "number of full turns / of an interval the constructor moved by 2pi; for goals "
                                        "turned by a quarter turn: pure boundary contact and interval end points"}
    rng = ctx.rng
    for i in range(4000 if ctx.thorough else 400):
        c = _rand_case(rng, i)
        if i % 2:                             # every second random case also moves its goal
            mv = {"t": [rng.randint(-10, 10), rng.randint(-10, 10)], "q": rng.randint(0, 3)}
            c.update(mv=mv, warm=rng.randint(0, 1), via=rng.choice(_VIAS),
                     mstates=[_move_state(s, mv) for s in c["states"]] + c["states"][:8],
                     mtrajs=[[_move_state(s, mv) for s in tr] for tr in c["trajs"]])
            if not c["warm"]:
                c["states"], c["trajs"] = [], []
        cs.append(c)
    for i, c in enumerate(cs):
        c["gclass"] = "custom" if i % 2 else "ks"           # goal states as CustomState / KSState
    return cs


def nontrivial(case):
    head, lc, attrs = _goal_tags(case["goal"])
    if not attrs:
        return None
    import json
    return json.dumps([case["goal"], case.get("mv"), case.get("warm"), case.get("hist"), case.get("fmt")], sort_keys=True)


def _exc(ex):
    return "exc:" + type(ex).__name__


def _ask(region, s):
    import numpy as np
    from crv import gamma
    try:
        r = region.is_reached(gamma.query_state_cls(s))
        if isinstance(r, (bool, np.bool_)):
            return "T" if r else "F"
        return "exc:ReturnType_" + type(r).__name__
    except Exception as ex:
        return _exc(ex)


def _ask_traj(problem, tr):
    from crv import gamma
    from commonroad.scenario.trajectory import Trajectory
    try:
        traj = Trajectory(tr[0]["t"], [gamma.query_state_cls(s) for s in tr])
    except Exception as ex:
        from crv.tlc import MachineryError
        raise MachineryError("driver could not build trajectory %r: %r" % (tr, ex))
    try:
        ok, i = problem.goal_reached(traj)
        return ("T" if ok else "F"), int(i)
    except Exception as ex:
        return _exc(ex), -1


def _execute_file(case):
    """Goal read from a file: write scenario + planning problem (goal position = lanelet references), read back, optional
    first query (warm), apply the history of Scenario / PlanningProblemSet.translate_rotate(mv), query."""
    import math
    import os
    import numpy as np
    from crv import gamma
    from crv.tlc import OUT
    goal, mv, hist, fmt, warm = case["goal"], case["mv"], case["hist"], case["fmt"], case["warm"]
    head, lc, attrs = _goal_tags(goal)
    base = {"goal": goal, "mv": mv, "hist": hist, "fmt": fmt, "warm": warm}
    tag = "/file:%s/%s/%s" % (fmt, "+".join(hist) if hist else "as-read", "warm" if warm else "cold")
    d = os.path.join(OUT, "c08_tmp")
    os.makedirs(d, exist_ok=True)
    ev = []
    try:
        import logging
        logging.getLogger("commonroad").setLevel(logging.ERROR)   # the writers log notes about default locations
        sc, pps, problem = gamma.goal_file_roundtrip(goal, case["lanes"], fmt,
                                                     os.path.join(d, "g%d.%s" % (os.getpid(), fmt)),
                                                     case.get("gclass", "custom"))
    except Exception as ex:
        return {"ev": [dict(base, op="file_is_reached", state=case["fstates"][0], res=_exc(ex),
                            sig="roundtrip/" + head + tag)]}
    if warm:                                  # first query before anything moves: judged as read (history so far = [])
        s = case["fstates"][0]
        ev.append(dict(base, hist=[], op="file_is_reached", state=s, res=_ask(problem.goal, s),
                       sig="is_reached/" + head + "/file:%s/as-read/warm" % fmt))
    t = np.array([mv["t"][0] / 2.0, mv["t"][1] / 2.0])
    angle = (mv["q"] % 4) * math.pi / 2
    try:
        for step in hist:
            (sc if step == "scn" else pps).translate_rotate(t, angle)
    except Exception as ex:
        ev.append(dict(base, op="file_is_reached", state=case["fstates"][0], res=_exc(ex),
                       sig="translate_rotate/" + head + tag))
        return {"ev": ev}
    for s in case["fstates"]:
        ev.append(dict(base, op="file_is_reached", state=s, res=_ask(problem.goal, s), sig="is_reached/" + head + tag))
    for tr in case["ftrajs"]:
        res, idx = _ask_traj(problem, tr)
        ev.append(dict(base, op="file_goal_reached", traj=tr, res=res, idx=idx, sig="goal_reached/" + head + tag))
    return {"ev": ev}


def execute(case):
    use_repo()
    if case.get("cls") == "file":
        return _execute_file(case)
    import math
    import numpy as np
    from crv import gamma
    goal = case["goal"]
    head, lc, attrs = _goal_tags(goal)
    ev = []
    try:
        region = gamma.goal_region(goal, case.get("gclass", "ks"))
        problem = gamma.planning_problem(region)
    except Exception as ex:              # admissible goal that cannot even be built: reported as a failed check
        st = (case["states"] or case.get("mstates"))[0]
        return {"ev": [{"op": "is_reached", "goal": goal, "state": st, "res": _exc(ex),
                        "sig": "construct/" + head + ("/" + lc if lc else "")}]}
    for s in case["states"]:
        res = _ask(region, s)
        ev.append({"op": "is_reached", "goal": goal, "state": s, "res": res, "sig": _sig("is_reached", goal, s, res)})
    for tr in case.get("trajs", []):
        res, idx = _ask_traj(problem, tr)
        # signature: the goal shape plus the state kind of the trajectory (per-state tags would multiply sigs)
        ev.append({"op": "goal_reached", "goal": goal, "traj": tr, "res": res, "idx": idx,
                   "sig": "goal_reached/" + head + ("/" + lc if lc and res not in ("T", "F") else "") + "/" +
                          tr[0]["kind"] + _cls_tag(tr[0])})
    if "mv" not in case:
        return {"ev": ev}
    # ---- moved goal: (optionally queried above = warm) -> translate_rotate through one of three routes -> query again
    mv, via, warm = case["mv"], case["via"], case["warm"]
    base = {"goal": goal, "mv": mv, "via": via, "warm": warm}
    tag = "/moved/" + ("warm" if warm else "cold")
    t = np.array([mv["t"][0] / 2.0, mv["t"][1] / 2.0])
    angle = (mv["q"] % 4) * math.pi / 2
    try:
        if via == "goal":
            region.translate_rotate(t, angle)
        elif via == "problem":
            problem.translate_rotate(t, angle)
        else:
            from commonroad.planning.planning_problem import PlanningProblemSet
            PlanningProblemSet([problem]).translate_rotate(t, angle)
    except Exception as ex:
        ev.append(dict(base, op="moved_is_reached", state=case["mstates"][0], res=_exc(ex),
                       sig="translate_rotate/" + head + ("/" + lc if lc else "") + tag))
        return {"ev": ev}
    for s in case["mstates"]:
        res = _ask(problem.goal, s)
        ev.append(dict(base, op="moved_is_reached", state=s, res=res,
                       sig="is_reached/" + head + ("/" + lc if lc and res not in ("T", "F") else "") + tag + _cls_tag(s)))
    for tr in case.get("mtrajs", []):
        res, idx = _ask_traj(problem, tr)
        ev.append(dict(base, op="moved_goal_reached", traj=tr, res=res, idx=idx,
                       sig="goal_reached/" + head + ("/" + lc if lc and res not in ("T", "F") else "") + tag +
                           _cls_tag(tr[0])))
    return {"ev": ev}


def _off_band(goal, s):
    """True when no orientation end point (modulo a full turn) is hit: the verdict cannot be an EITHER band, so a
    flipped result must be rejected.  Only selects WHERE to corrupt; judges nothing."""
    if s.get("cls") in ("MBState", "CustomOVV"):
        return False                          # both readings accepted there (declared band)
    if s["kind"] == "pm":
        return all(g["ori"]["k"] == "none" for g in goal)
    return all(g["ori"]["k"] == "none" or ((s["th"] - g["ori"]["a"]) % 24 and (s["th"] - g["ori"]["b"]) % 24)
               for g in goal)


def corrupt(trace, rng):
    """Flip one logged is_reached verdict (T <-> F) away from the bands: the trace spec must reject that event."""
    evs = [i for i, e in enumerate(trace["ev"])
           if e["op"] == "is_reached" and e["res"] in ("T", "F") and _off_band(e["goal"], e["state"])]
    if not evs:
        return None
    i = rng.choice(evs)
    trace["ev"][i]["res"] = "F" if trace["ev"][i]["res"] == "T" else "T"
    return trace
