"""C09 - object ids stay unique and the id pool stays exact (spec: ScenarioStore.tla, MC_ScenarioStore.tla)."""
import copy
import json
import os

from crv import graph, tlc
from crv.core import use_repo

PROPERTY = "C09"
MODULES = ["ScenarioStore", "MC_ScenarioStore", "Trace_ScenarioStore"]
TRACE = ("Trace_ScenarioStore", "Trace_ScenarioStore.cfg")
EXHAUSTIVE = True
RULE = ("TLC explores the implementation-shaped store model (16 object tokens with colliding ids, all add / remove "
        "(single+list) / replace / erase / generate operations) exhaustively and dumps the labelled state graph of "
        "three sub-universes; a transition cover (walks from the empty scenario taking every edge once) is executed "
        "on a real Scenario, plus seeded random histories over the whole universe; after every call the contained "
        "objects (public accessors) and the reserved ids (black-box probe on a deep copy) are logged and TLC "
        "validates every step against the contract. distinct_nontrivial = distinct (state, operation) edges taken.")
ASSUMPTIONS = ["removals are only issued for contained objects (statement's precondition)",
               "reserved ids are observed by trying to add a fresh EnvironmentObstacle to a deep copy",
               "add_objects(LaneletNetwork) onto a non-empty network: containment not constrained, invariants are"]

_TOK = None
PROBE = range(1, 10)


def tokens(refresh=False):
    global _TOK
    path = os.path.join(tlc.OUT, "c09_tokens.json")
    if _TOK is None and os.path.exists(path) and not refresh:
        with open(path) as f:
            _TOK = json.load(f)
    if _TOK is None or refresh:
        r = tlc.run_tlc("MC_ScenarioStore", "TOK_ScenarioStore.cfg", "c09_tokens", workers=1, timeout=300)
        for p in tlc.printed_tuples(r["out"], "TOKENS"):
            _TOK = json.loads(tlc.tla_unquote(p))
        if _TOK is None:
            raise tlc.MachineryError("token table not printed:\n" + r["out"][-2000:])
        with open(path + ".tmp%d" % os.getpid(), "w") as f:
            json.dump(_TOK, f)
        os.replace(path + ".tmp%d" % os.getpid(), path)
    return _TOK


def model_check(ctx):
    ctx.mc("MC_ScenarioStore", "MC_ScenarioStore.cfg" if ctx.thorough else "MC_ScenarioStore_q.cfg",
           coverage=False, timeout=1800)
    # each deviation constant documents one shipped / repaired defect: TLC must produce its counterexample
    ctx.mc_expect("MC_ScenarioStore", "DEV_ScenarioStore_1.cfg", "InvPoolExact")
    ctx.mc_expect("MC_ScenarioStore", "DEV_ScenarioStore_2.cfg", "PropRejectAtomic")
    ctx.mc_expect("MC_ScenarioStore", "DEV_ScenarioStore_3.cfg", "PropRejectAtomic")
    ctx.mc_expect("MC_ScenarioStore", "DEV_ScenarioStore_4.cfg", "InvPoolExact")
    ctx.mc_expect("MC_ScenarioStore", "DEV_ScenarioStore_5.cfg", "InvPoolExact")
    if ctx.thorough:      # unbounded histories: inductive invariant of spec/APA_ScenarioStore.tla checked by Apalache (crv/apalache.py)
        from crv import apalache
        apalache.append_run(ctx, "APA_ScenarioStore")


def cases(ctx):
    tok = tokens(refresh=True)
    cs = []
    init = json.dumps({"C": [], "ids": [], "cnt": -1, "gen": [], "sg": [], "lt": []}, sort_keys=True)
    cfgs = ["GEN_ScenarioStore_1.cfg", "GEN_ScenarioStore_2.cfg", "GEN_ScenarioStore_3.cfg", "GEN_ScenarioStore_4.cfg"]
    n_edges = 0
    for cfg in cfgs:
        r = tlc.run_tlc("MC_ScenarioStore", cfg, "c09_" + cfg[:-4], workers=1, timeout=1800)
        if not r["ok"]:
            raise tlc.MachineryError("GEN failed: " + r["out"][-2000:])
        g = graph.parse_edges(tlc.tla_unquote(p) for p in tlc.printed_tuples(r["out"], "EDGE"))
        ne = sum(len(v) for v in g.values())
        n_edges += ne
        limit = None if ctx.thorough else 40000
        walks = graph.cover_walks(g, init, max_len=30, rng=ctx.rng, limit_edges=limit)
        ctx.mc_runs.append({"module": "MC_ScenarioStore", "cfg": cfg, "distinct_states": r["distinct"],
                            "states_generated": r["generated"], "depth": r["depth"], "wall_s": r["wall_s"],
                            "verdict": "dumped %d labelled edges -> %d covering walks%s" %
                                       (ne, len(walks), "" if limit is None or ne <= limit else
                                        " (quick tier: first %d edges)" % limit)})
        for w in walks:
            cs.append({"src": cfg[4:-4], "ops": [{"op": a["op"], "toks": a["toks"], "ref": a["ref"]} for a in w]})
    ctx.extra["graph_edges"] = n_edges
    # seeded random histories over the whole universe (longer than the exhaustive depth)
    rng = ctx.rng
    objs = sorted(n for n in tok if tok[n]["k"] != "network")
    nets = sorted(n for n in tok if tok[n]["k"] == "network")
    for _ in range(2000 if ctx.thorough else 300):
        cs.append({"src": "random", "random": rng.randrange(1 << 30), "len": rng.randint(10, 40), "ops": None,
                   "objs": objs, "nets": nets})
    return cs


def nontrivial(case):
    return json.dumps(case.get("ops") or case.get("random"), sort_keys=True)


# ---- gamma -----------------------------------------------------------------------------------------

def build(name):
    from crv import gamma as G
    t = tokens()[name]
    k, i = t["k"], t["id"]
    if k == "lanelet":
        return G.lanelet(i, x0=3.0 * i + 0.25 * t["tag"], traffic_signs=set(t["sg"]), traffic_lights=set(t["lt"]))
    if k == "sign":
        return G.sign(i, (3.0 * i, 2.0))
    if k == "light":
        return G.light(i, (3.0 * i, 3.0))
    if k == "inter":
        return G.intersection(i, [(inc, {1}, {2}, set(), set()) for inc in t["inc"]])
    if k == "static":
        return G.static_obstacle(i, 3.0 * i + 0.5, 0.5)
    if k == "dynamic":
        return G.dynamic_obstacle(i, 3.0 * i + 0.5, 0.5, poses=[(3.0 * i + 1.5, 0.5, 0.0)])
    if k == "phantom":
        return G.phantom_obstacle(i)
    if k == "env":
        return G.environment_obstacle(i)
    if k == "network":
        mem = [(m, tokens()[m]["k"], build(m)) for m in t["ord"]]
        return G.network([o for _, kk, o in mem if kk == "lanelet"], [o for _, kk, o in mem if kk == "sign"],
                         [o for _, kk, o in mem if kk == "light"], [o for _, kk, o in mem if kk == "inter"])
    raise ValueError(name)


# ---- alpha -----------------------------------------------------------------------------------------

def _name(kind, i, tag=0, inc=None):
    for n, t in tokens().items():
        if t["k"] == kind and t["id"] == i and (kind != "lanelet" or t["tag"] == tag) and \
                (kind != "inter" or list(t["inc"]) == list(inc)):
            return n
    return "?%s:%s" % (kind, i)


def _tag(la):
    return int(round((float(la.right_vertices[0][0]) - 3.0 * la.lanelet_id) / 0.25))


def project(sc):
    from commonroad.scenario.obstacle import ObstacleRole
    C, sg, lt = [], [], []
    net = sc.lanelet_network
    for la in net.lanelets:
        n = _name("lanelet", la.lanelet_id, _tag(la))
        C.append(n)
        sg.append([n, sorted(int(x) for x in la.traffic_signs)])
        lt.append([n, sorted(int(x) for x in la.traffic_lights)])
    for s in net.traffic_signs:
        C.append(_name("sign", s.traffic_sign_id))
    for s in net.traffic_lights:
        C.append(_name("light", s.traffic_light_id))
    for x in net.intersections:
        C.append(_name("inter", x.intersection_id, inc=[i.incoming_id for i in x.incomings]))
    roles = {ObstacleRole.STATIC: "static", ObstacleRole.DYNAMIC: "dynamic", ObstacleRole.Phantom: "phantom",
             ObstacleRole.ENVIRONMENT: "env"}
    for o in sc.obstacles:
        C.append(_name(roles[o.obstacle_role], o.obstacle_id))
    # reserved ids: black-box probe on a deep copy
    from crv import gamma as G
    cp = copy.deepcopy(sc)
    reserved = []
    for i in PROBE:
        try:
            cp.add_objects(G.environment_obstacle(i))
        except ValueError:
            reserved.append(i)
    return {"C": sorted(C), "sg": sg, "lt": lt, "reserved": reserved,
            "unknown": sum(1 for n in C if n.startswith("?")) + (len(C) - len(set(C)))}


# ---- execution ---------------------------------------------------------------------------------------

def _find(sc, name):
    t = tokens()[name]
    k, i = t["k"], t["id"]
    net = sc.lanelet_network
    if k == "lanelet":
        la = net.find_lanelet_by_id(i)
        if la is not None and _tag(la) != t["tag"]:
            return None
        return la
    if k == "sign":
        return net.find_traffic_sign_by_id(i)
    if k == "light":
        return net.find_traffic_light_by_id(i)
    if k == "inter":
        return net.find_intersection_by_id(i)
    return sc.obstacle_by_id(i)


def apply_op(sc, a):
    """Perform one operation; returns (res, gid)."""
    op, toks = a["op"], a["toks"]
    gid = 0
    try:
        if op == "add":
            t = tokens()[toks[0]]
            if t["k"] in ("sign", "light"):
                # signs / lights are added with lanelet ids that are not (or no longer) in the network: the lanelets that
                # name them but are absent, and one id (9) no object of the universe has
                f = "sg" if t["k"] == "sign" else "lt"
                ids = {u["id"] for u in tokens().values() if u["k"] == "lanelet" and t["id"] in u[f]} | {9}
                ids = {i for i in ids if sc.lanelet_network.find_lanelet_by_id(i) is None}    # absent ones only: the
                # references of contained lanelets are part of the modelled state and must not be re-created here
                sc.add_objects(build(toks[0]), ids)
            else:
                sc.add_objects(build(toks[0]))
        elif op == "add_list":
            sc.add_objects([build(n) for n in toks])
        elif op == "replace":
            sc.replace_lanelet_network(build(toks[0]))
        elif op == "erase":
            sc.erase_lanelet_network()
        elif op == "gen":
            gid = int(sc.generate_object_id())
        elif op == "remove_absent":
            objs = [build(n) for n in toks]           # obstacles that are not in the scenario (ids may be in use elsewhere)
            if any(sc.obstacle_by_id(tokens()[n]["id"]) is not None for n in toks):
                return "skip", gid                    # an obstacle with that id is contained: not the absent case
            sc.remove_obstacle(objs if a.get("ref") else objs[0])
        else:
            objs = [_find(sc, n) for n in toks]
            if any(o is None for o in objs):
                return "skip", gid        # real state diverged from the model earlier (already reported): precondition unmet
            arg = objs if a.get("list", a["ref"] if op != "remove_lanelet" else (1 if len(objs) > 1 else 0)) else objs[0]
            if op == "remove_obstacle":
                sc.remove_obstacle(arg)
            elif op == "remove_sign":
                sc.remove_traffic_sign(arg)
            elif op == "remove_light":
                sc.remove_traffic_light(arg)
            elif op == "remove_inter":
                sc.remove_intersection(arg)
            elif op == "remove_lanelet":
                sc.remove_lanelet(arg, referenced_elements=bool(a["ref"]))
            else:
                raise tlc.MachineryError("unknown op " + op)
        return "ok", gid
    except tlc.MachineryError:
        raise
    except ValueError:
        return "ValueError", gid
    except Exception as ex:                       # any other exception: the call failed (clause Total)
        return "exc:" + type(ex).__name__, gid


def _sig(a, sc_nonempty):
    tok = tokens()
    kinds = sorted({tok[n]["k"] for n in a["toks"]})
    s = a["op"]
    if a["op"] in ("add", "add_list", "replace"):
        s += ":" + "+".join(kinds)
        if a["op"] == "add" and kinds == ["network"] and sc_nonempty:
            s += "@nonempty"
    elif a["op"] == "remove_absent":
        s += "[list]" if a["ref"] else "[single]"
    elif a["op"].startswith("remove"):
        is_list = a.get("list", a["ref"] if a["op"] != "remove_lanelet" else (1 if len(a["toks"]) > 1 else 0))
        s += "[list]" if is_list else "[single]"
        if a["op"] == "remove_lanelet":
            s += "ref" if a["ref"] else "noref"
    return s


def _random_ops(case):
    """Random history: choose operations that respect the removal precondition by tracking the *observed* contents."""
    import random
    rng = random.Random(case["random"])
    return rng


def execute(case):
    use_repo()
    from crv import gamma as G
    tokens()
    sc = G.scenario()
    ev = []
    tok = tokens()
    rng = None
    ops = case["ops"]
    n = len(ops) if ops is not None else case["len"]
    if ops is None:
        import random
        rng = random.Random(case["random"])
    post = {"C": [], "sg": [], "lt": [], "reserved": [], "unknown": 0}
    for step in range(n):
        if ops is not None:
            a = dict(ops[step])
        else:
            a = _pick(rng, case, post["C"], tok)
        net_nonempty = any(tok[c]["k"] in ("lanelet", "sign", "light", "inter") for c in post["C"] if c in tok)
        res, gid = apply_op(sc, a)
        if res == "skip":
            continue
        post = project(sc)
        e = {"op": a["op"], "toks": a["toks"], "ref": a["ref"], "res": res, "gid": gid, "post": post,
             "sig": _sig(a, net_nonempty)}
        ev.append(e)
    return {"ev": ev}


def _pick(rng, case, contained, tok):
    contained = [c for c in contained if c in tok]
    by = lambda ks: [c for c in contained if tok[c]["k"] in ks]
    choices = ["add"] * 5 + ["gen", "add_list", "erase", "replace", "addnet", "remove_absent"]
    for op, ks in (("remove_obstacle", ("static", "dynamic", "phantom", "env")), ("remove_sign", ("sign",)),
                   ("remove_light", ("light",)), ("remove_inter", ("inter",)), ("remove_lanelet", ("lanelet",))):
        if by(ks):
            choices += [op] * 2
    op = rng.choice(choices)
    if op == "add":
        return {"op": "add", "toks": [rng.choice(case["objs"])], "ref": 0}
    if op == "addnet":
        return {"op": "add", "toks": [rng.choice(case["nets"])], "ref": 0}
    if op == "replace":
        return {"op": "replace", "toks": [rng.choice(case["nets"])], "ref": 0}
    if op == "add_list":
        return {"op": "add_list", "toks": rng.sample(case["objs"], 2), "ref": 0}
    if op in ("gen", "erase"):
        return {"op": op, "toks": [], "ref": 0}
    if op == "remove_absent":
        pool = [n for n in case["objs"] if tok[n]["k"] in ("static", "dynamic", "phantom", "env") and n not in contained]
        if not pool:
            return {"op": "gen", "toks": [], "ref": 0}
        return {"op": op, "toks": [rng.choice(pool)], "ref": rng.randint(0, 1)}
    ks = {"remove_obstacle": ("static", "dynamic", "phantom", "env"), "remove_sign": ("sign",),
          "remove_light": ("light",), "remove_inter": ("inter",), "remove_lanelet": ("lanelet",)}[op]
    pool = by(ks)
    k = 1 if len(pool) == 1 or rng.random() < 0.6 else 2
    toks = rng.sample(pool, k)
    if op == "remove_lanelet":
        return {"op": op, "toks": toks, "ref": rng.randint(0, 1)}
    return {"op": op, "toks": toks, "ref": 1 if k == 2 else rng.randint(0, 1)}      # ref = list form


def corrupt(trace, rng):
    """Drop one reserved id from (or add one to) a logged post-state: PoolExact must reject that event."""
    i = rng.randrange(len(trace["ev"]))
    r = trace["ev"][i]["post"]["reserved"]
    if r:
        r.pop(rng.randrange(len(r)))
    else:
        r.append(9)
    return trace
