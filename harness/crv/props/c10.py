"""C10 - removing or cutting out network elements leaves no dangling references
(spec: NetworkRefs.tla, MC_NetworkRefs.tla, Trace_NetworkRefs.tla)."""
import json

from crv.core import use_repo

PROPERTY = "C10"
MODULES = ["NetworkRefs", "MC_NetworkRefs", "Trace_NetworkRefs"]
TRACE = ("Trace_NetworkRefs", "Trace_NetworkRefs.cfg")
EXHAUSTIVE = True
NLMAX = 4
RULE = ("TLC enumerates, one reference kind at a time, ALL well-formed 3-lanelet networks (successor digraphs, "
        "predecessor digraphs, adjacency functions, sign/light/stop-line reference subsets, intersection incoming "
        "/ successor / crossing subsets; other kinds fixed to a base network) x every removal (network and scenario "
        "level, single and list form, with and without referenced elements) and cut-out (shape, excluded types, "
        "lanelet list), depth 1, plus all operation sequences of length 2 on the base network, and checks the "
        "contract clause on the implementation-shaped model; every enumerated case is executed on real objects "
        "and TLC validates (pre, op, post). Seeded random 4-lanelet networks with sequences of length 3 add depth. "
        "distinct_nontrivial = distinct (network, operation sequence) cases.")
ASSUMPTIONS = ["networks are well-formed (references resolve; stop line refers only to its lanelet's signs/lights)",
               "cut-out shapes are circles, rectangles and comb polygons that intersect exactly the chosen lanelets",
               "left_of / first_occurrence are outside the statement's list of reference kinds (not asserted)"]

KINDS = ["base", "succ", "pred", "adj", "refs", "inter"]


def model_check(ctx):
    for k in KINDS:
        ctx.mc("MC_NetworkRefs", "MC_NetworkRefs_%s.cfg" % k)
    if ctx.thorough:
        ctx.mc("MC_NetworkRefs", "MC_NetworkRefs_succ4.cfg", timeout=3000)
    ctx.mc_expect("MC_NetworkRefs", "DEV_NetworkRefs_1.cfg", "PropContract")
    ctx.mc_expect("MC_NetworkRefs", "DEV_NetworkRefs_2.cfg", "PropContract")
    ctx.mc_expect("MC_NetworkRefs", "DEV_NetworkRefs_3.cfg", "PropContract")


def cases(ctx):
    cs = []
    for k in KINDS:
        got = ctx.gen("MC_NetworkRefs", "GEN_NetworkRefs_%s.cfg" % k, timeout=1800)
        if not ctx.thorough and len(got) > 12000:
            got = ctx.rng.sample(got, 12000)
        for c in got:
            c["src"] = k
        cs += got
    rng = ctx.rng
    for _ in range(4000 if ctx.thorough else 600):
        cs.append({"src": "random", "seed": rng.randrange(1 << 30)})
    return cs


def nontrivial(case):
    return json.dumps(case, sort_keys=True)


# ---- random well-formed networks / operations (beyond TLC's scope: 4 lanelets, all kinds at once) -------

def _random_case(seed):
    import random
    r = random.Random(seed)
    n = 4
    lan = list(range(1, n + 1))
    sub = lambda xs, p=0.4: sorted(x for x in xs if r.random() < p)
    succ = [sub([j for j in lan if j != i]) for i in lan]
    pred = [[j for j in lan if i in succ[j - 1]] for i in lan] if r.random() < 0.7 else \
        [sub([j for j in lan if j != i]) for i in lan]
    al = [r.choice([0] + [j for j in lan if j != i]) for i in lan]
    ar = [r.choice([0] + [j for j in lan if j != i]) for i in lan]
    sg = [sub([11, 12], 0.5) for _ in lan]
    lt = [sub([21], 0.5) for _ in lan]
    stp = [r.randint(0, 1) for _ in lan]
    I = r.choice([[32], [32, 33], [32, 33]])
    X = [31] if r.random() < 0.85 else []
    if not X:
        I = []
    inc = {}
    for k in (32, 33):
        inc[str(k)] = {"il": sub(lan), "sr": sub(lan, 0.3), "ss": sub(lan, 0.3), "sl": sub(lan, 0.3)} if k in I else \
            {"il": [], "sr": [], "ss": [], "sl": []}
    net = {"L": lan, "pred": pred, "succ": succ, "al": al, "ar": ar,
           "ald": [r.randint(0, 1) if a else 0 for a in al], "ard": [r.randint(0, 1) if a else 0 for a in ar],
           "sg": sg, "lt": lt, "stp": stp,
           "ssg": [sub(sg[i], 0.6) if stp[i] else [] for i in range(n)],
           "slt": [sub(lt[i], 0.6) if stp[i] else [] for i in range(n)],
           "S": [11, 12], "T": [21], "X": X, "I": I, "inc": inc, "cr": sub(lan) if X else []}
    return net, r


def _random_op(r, cur):
    L, S, T, X = cur["L"], cur["S"], cur["T"], cur["X"]
    opts = []
    if L:
        opts += ["net_remove_lanelet", "net_remove_lanelet_nortree", "sc_remove_lanelet", "sc_remove_lanelet", "cut_shape",
                 "cut_types", "from_list"]
    if S:
        opts += ["net_remove_sign", "sc_remove_sign"]
    if T:
        opts += ["net_remove_light", "sc_remove_light"]
    if X:
        opts += ["net_remove_inter", "sc_remove_inter"]
    if not opts:
        return None
    op = r.choice(opts)
    if op in ("net_remove_lanelet", "net_remove_lanelet_nortree"):
        return {"op": op, "ids": [r.choice(L)], "ref": 0}
    if op == "sc_remove_lanelet":
        return {"op": op, "ids": r.sample(L, r.randint(1, min(2, len(L)))), "ref": r.randint(0, 1)}
    if op in ("cut_shape", "cut_types", "from_list"):
        return {"op": op, "ids": sorted(r.sample(L, r.randint(1, len(L)))), "ref": 0}
    if op.endswith("sign"):
        if op == "sc_remove_sign" and len(S) == 2 and r.random() < 0.4:
            return {"op": op, "ids": r.sample(S, 2), "ref": 1}
        return {"op": op, "ids": [r.choice(S)], "ref": 0}
    if op.endswith("light"):
        return {"op": op, "ids": [r.choice(T)], "ref": r.randint(0, 1) if op.startswith("sc") else 0}
    return {"op": op, "ids": [X[0]], "ref": 0}


# ---- gamma ---------------------------------------------------------------------------------------------

TYPES = ["URBAN", "COUNTRY", "HIGHWAY", "DRIVE_WAY"]


def build_network(net, deferred_index=False):
    import numpy as np
    from commonroad.common.common_lanelet import LaneletType, LineMarking, StopLine
    from crv import gamma as G
    lanelets = []
    for i in net["L"]:
        k = i - 1
        kw = {}
        if net["al"][k]:
            kw.update(adjacent_left=net["al"][k], adjacent_left_same_direction=bool(net["ald"][k]))
        if net["ar"][k]:
            kw.update(adjacent_right=net["ar"][k], adjacent_right_same_direction=bool(net["ard"][k]))
        if net["stp"][k]:
            # (a reference set that is empty is left at the constructor default None for every other stop line)
            ssg, slt = set(net["ssg"][k]), set(net["slt"][k])
            none_if_empty = (i + len(net["S"]) + len(net["T"])) % 2 == 0
            kw["stop_line"] = StopLine(np.array([2.0 * i + 0.9, 0.0]), np.array([2.0 * i + 0.9, 1.0]), LineMarking.SOLID,
                                       (ssg or None) if none_if_empty else ssg, (slt or None) if none_if_empty else slt)
        lanelets.append(G.lanelet(i, x0=2.0 * i, predecessor=list(net["pred"][k]), successor=list(net["succ"][k]),
                                  traffic_signs=set(net["sg"][k]), traffic_lights=set(net["lt"][k]),
                                  lanelet_type={LaneletType[TYPES[k]]}, **kw))
    # a sign's `first_occurrence` names the lanelet where it first appears - in general a strict subset of the lanelets
    # (and stop lines) that refer to it; the clean-up after a removal must not take it for the set of referrers
    def first(sid):
        ref = [i for i in net["L"] if sid in net["sg"][i - 1] or sid in net["ssg"][i - 1]]
        return {min(ref)} if ref and sid % 2 == 0 or len(ref) > 1 else set()
    signs = [G.sign(s, (float(s), 3.0), first=first(s)) for s in net["S"]]
    lights = [G.light(t, (float(t), 4.0)) for t in net["T"]]
    inters = []
    if net["X"]:
        incs = []
        for k in net["I"]:
            q = net["inc"][str(k)]
            incs.append((k, q["il"], q["sr"], q["ss"], q["sl"]))
        inters.append(G.intersection(31, incs, net["cr"]))
    return G.network(lanelets, signs, lights, inters, deferred_index=deferred_index)


def cut_shape(K, variant):
    """A shape that intersects exactly the unit squares [2i, 2i+1] x [0, 1] of the lanelets in K."""
    import numpy as np
    from commonroad.geometry.shape import Circle, Polygon, Rectangle
    K = sorted(K)
    contiguous = K == list(range(K[0], K[-1] + 1))
    if len(K) == 1 and variant % 2 == 0:
        return Circle(0.25, np.array([2.0 * K[0] + 0.5, 0.5])), "circle"
    if contiguous and variant % 3 != 2:
        x0, x1 = 2.0 * K[0] + 0.25, 2.0 * K[-1] + 0.75
        return Rectangle(x1 - x0, 0.5, np.array([(x0 + x1) / 2.0, 0.5]), 0.0), "rectangle"
    pts = [(2.0 * K[0], -2.0), (2.0 * K[-1] + 1.0, -2.0), (2.0 * K[-1] + 1.0, -1.0)]
    for i in reversed(K):
        pts += [(2.0 * i + 0.75, -1.0), (2.0 * i + 0.75, 0.5), (2.0 * i + 0.25, 0.5), (2.0 * i + 0.25, -1.0)]
    pts += [(2.0 * K[0], -1.0)]
    return Polygon(np.array(pts)), "polygon"


# ---- alpha ---------------------------------------------------------------------------------------------

def project(net):
    n = NLMAX
    out = {"L": [], "pred": [[] for _ in range(n)], "succ": [[] for _ in range(n)], "al": [0] * n, "ar": [0] * n,
           "ald": [0] * n, "ard": [0] * n, "sg": [[] for _ in range(n)], "lt": [[] for _ in range(n)], "stp": [0] * n,
           "ssg": [[] for _ in range(n)], "slt": [[] for _ in range(n)], "S": [], "T": [], "X": [], "I": [],
           "inc": [[[], [], [], []], [[], [], [], []]], "cr": []}
    ints = lambda xs: sorted(int(x) for x in (xs or ()))
    for la in net.lanelets:
        i = int(la.lanelet_id)
        k = i - 1
        out["L"].append(i)
        out["pred"][k] = ints(la.predecessor)
        out["succ"][k] = ints(la.successor)
        out["al"][k] = int(la.adj_left) if la.adj_left is not None else 0
        out["ar"][k] = int(la.adj_right) if la.adj_right is not None else 0
        out["ald"][k] = 1 if la.adj_left is not None and la.adj_left_same_direction else 0
        out["ard"][k] = 1 if la.adj_right is not None and la.adj_right_same_direction else 0
        out["sg"][k] = ints(la.traffic_signs)
        out["lt"][k] = ints(la.traffic_lights)
        if la.stop_line is not None:
            out["stp"][k] = 1
            out["ssg"][k] = ints(la.stop_line.traffic_sign_ref)
            out["slt"][k] = ints(la.stop_line.traffic_light_ref)
    out["L"].sort()
    out["S"] = ints(s.traffic_sign_id for s in net.traffic_signs)
    out["T"] = ints(t.traffic_light_id for t in net.traffic_lights)
    for x in net.intersections:
        out["X"].append(int(x.intersection_id))
        out["cr"] = ints(x.crossings)
        for inc in x.incomings:
            k = int(inc.incoming_id)
            out["I"].append(k)
            out["inc"][k - 32] = [ints(inc.incoming_lanelets), ints(inc.successors_right),
                                  ints(inc.successors_straight), ints(inc.successors_left)]
    out["I"].sort()
    return out


# ---- execution -----------------------------------------------------------------------------------------

def apply_op(net, a, variant):
    """Returns (network after the operation, sig detail)."""
    from commonroad.common.common_lanelet import LaneletType
    from commonroad.scenario.lanelet import LaneletNetwork
    from crv import gamma as G
    op, ids = a["op"], a["ids"]
    if op.startswith("net_"):
        for i in ids:
            if op == "net_remove_lanelet":
                net.remove_lanelet(i)
            elif op == "net_remove_lanelet_nortree":
                net.remove_lanelet(i, rtree=False)
            elif op == "net_remove_sign":
                net.remove_traffic_sign(i)
            elif op == "net_remove_light":
                net.remove_traffic_light(i)
            elif op == "net_remove_inter":
                net.remove_intersection(i)
        return net, "single" if not op.endswith("nortree") else "rtree=False"
    if op.startswith("sc_"):
        sc = G.scenario()
        sc.add_objects(net)
        find = {"sc_remove_lanelet": net.find_lanelet_by_id, "sc_remove_sign": net.find_traffic_sign_by_id,
                "sc_remove_light": net.find_traffic_light_by_id, "sc_remove_inter": net.find_intersection_by_id}[op]
        objs = [find(i) for i in ids]
        if op == "sc_remove_lanelet":
            form = "list" if len(objs) > 1 or variant % 2 else "single"
            sc.remove_lanelet(objs if form == "list" else objs[0], referenced_elements=bool(a["ref"]))
            return sc.lanelet_network, form + ("/ref" if a["ref"] else "/noref")
        form = "list" if a["ref"] or len(objs) > 1 else "single"
        arg = objs if form == "list" else objs[0]
        if op == "sc_remove_sign":
            sc.remove_traffic_sign(arg)
        elif op == "sc_remove_light":
            sc.remove_traffic_light(arg)
        else:
            sc.remove_intersection(arg)
        return sc.lanelet_network, form
    if op == "cut_shape":
        shape, kind = cut_shape(ids, variant)
        return LaneletNetwork.create_from_lanelet_network(net, shape_input=shape), kind
    if op == "cut_types":
        present = [la.lanelet_id for la in net.lanelets]
        excl = {LaneletType[TYPES[i - 1]] for i in present if i not in ids}
        return LaneletNetwork.create_from_lanelet_network(net, exclude_lanelet_types=excl), "types"
    if op == "from_list":
        return LaneletNetwork.create_from_lanelet_list([net.find_lanelet_by_id(i) for i in ids]), "list"
    raise ValueError(op)


def execute(case):
    use_repo()
    if case.get("src") == "random":
        netd, r = _random_case(case["seed"])
        ops = None
    else:
        netd, ops, r = dict(case["net"]), case["ops"], None
        # TLC prints functions over 1..NL as arrays and the incoming table as an object
        netd = {k: v for k, v in netd.items()}
    variant = (case.get("seed", 0) or sum(len(o["ids"]) for o in (ops or []))) % 6
    # the contract does not depend on the state of the spatial index: a third of the networks is assembled with
    # add_lanelet(..., rtree=False) (public option: index rebuild deferred), so removals / cut-outs meet a stale index
    deferred = (case.get("seed", 0) // 6 + len(json.dumps(netd, sort_keys=True))) % 3 == 1
    net = build_network(netd, deferred_index=deferred)
    ev = []
    steps = len(ops) if ops is not None else 3
    source = None                       # (network the current one was cut out of, its projection right after the cut)
    for step in range(steps):
        pre = project(net)
        a = ops[step] if ops is not None else _random_op(r, pre)
        if a is None:
            break
        before = net
        try:
            net, detail = apply_op(net, a, variant + step)
            res = "ok"
        except Exception as ex:
            res, detail = "exc:" + type(ex).__name__, "exc"
        post = project(net)
        ev.append({"op": a["op"], "ids": list(a["ids"]), "ref": a["ref"], "res": res, "pre": pre, "post": post,
                   "sig": "%s[%s]%s" % (a["op"], detail, "@deferred-index" if deferred else "")})
        if res != "ok":
            break
        if source is not None:          # a later operation on the cut-out must not reach into the network it came from
            ev.append({"op": "sibling", "ids": [], "ref": 0, "res": "ok", "pre": source[1], "post": project(source[0]),
                       "sig": "sibling[source-after-%s-on-cut-out]" % a["op"]})
        if net is not before and a["op"] in ("cut_shape", "cut_types", "from_list"):
            source = (before, project(before))
            # ... and a removal on the source must not reach into the cut-out: remove (from the SOURCE, which the
            # history leaves behind) a lanelet that both networks contain
            both = sorted(set(post["L"]) & set(source[1]["L"]))
            if both and (variant + step) % 2 == 0:
                try:
                    before.remove_lanelet(both[0])
                    ev.append({"op": "sibling", "ids": [], "ref": 0, "res": "ok", "pre": post, "post": project(net),
                               "sig": "sibling[cut-out-after-remove_lanelet-on-source/%s]" % a["op"]})
                    source = (before, project(before))
                except Exception:
                    source = None
    return {"ev": ev}


def corrupt(trace, rng):
    """Re-introduce a removed id into a relation of the logged post state (a dangling reference)."""
    for e in trace["ev"]:
        gone = [i for i in e["pre"]["L"] if i not in e["post"]["L"]]
        if gone and e["post"]["L"]:
            k = e["post"]["L"][0] - 1
            e["post"]["succ"][k] = sorted(set(e["post"]["succ"][k]) | {gone[0]})
            return trace
    e = trace["ev"][0]
    if e["post"]["L"]:
        k = e["post"]["L"][0] - 1
        e["post"]["sg"][k] = sorted(set(e["post"]["sg"][k]) | {13})
        return trace
    return None
