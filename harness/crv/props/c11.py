"""C11 - derived data never goes stale under mutation (spec: Cache.tla, MC_Cache.tla, Trace_Cache.tla)."""
import json
import math

from crv import graph, tlc
from crv.core import use_repo

PROPERTY = "C11"
MODULES = ["Cache", "MC_Cache", "Trace_Cache"]
TRACE = ("Trace_Cache", "Trace_Cache.cfg")
EXHAUSTIVE = True
RULE = ("TLC explores every interleaving of mutators (translate_rotate on scenario / obstacle / prediction / network "
        "level, trajectory / shape / prediction replacement, update_initial_state, lanelet add / remove / network merge, cycle "
        "setters) and cache-filling queries up to depth 4 (5 thorough) on the implementation-shaped model and checks "
        "answer = Recompute(primary); the labelled state graph up to depth 3 is dumped and a transition cover is "
        "executed on real objects (so every cache is filled before it is invalidated), plus seeded random histories "
        "of length 14 with arbitrary lattice motions. Every query answer is validated by TLC against the lattice "
        "recomputation AND must agree with a twin freshly constructed from the primary data. "
        "distinct_nontrivial = distinct operation sequences containing query -> mutate -> query.")
ASSUMPTIONS = ["rotations are quarter turns and coordinates integers so expected answers are exact",
               "mutating a lanelet / trajectory object directly underneath its owner (network / prediction) is not "
               "part of the quantifier: the owner cannot observe it",
               "fresh twin = object rebuilt through public constructors from the mutated object's primary data"]

COLS = ["red", "green", "yellow"]
BOXES = {1: (0, 0, 2, 1), 2: (2, 0, 4, 1), 3: (0, 1, 2, 2)}


def model_check(ctx):
    ctx.mc("MC_Cache", "MC_Cache5.cfg" if ctx.thorough else "MC_Cache.cfg", timeout=3000)
    ctx.mc_expect("MC_Cache", "DEV_Cache_1.cfg", "InvFresh")
    ctx.mc_expect("MC_Cache", "DEV_Cache_2.cfg", "InvFresh")
    ctx.mc_expect("MC_Cache", "DEV_Cache_3.cfg", "InvFresh")
    ctx.mc_expect("MC_Cache", "DEV_Cache_4.cfg", "InvFresh")
    ctx.mc_expect("MC_Cache", "DEV_Cache_5.cfg", "InvFresh")
    if ctx.thorough:      # unbounded histories: inductive invariant of spec/APA_Cache.tla checked by Apalache (crv/apalache.py)
        from crv import apalache
        apalache.append_run(ctx, "APA_Cache")


def cases(ctx):
    r = tlc.run_tlc("MC_Cache", "GEN_Cache.cfg", "c11_gen", workers=1, timeout=1800)
    if not r["ok"]:
        raise tlc.MachineryError("GEN_Cache failed: " + r["out"][-2000:])
    g = graph.parse_edges(tlc.tla_unquote(p) for p in tlc.printed_tuples(r["out"], "EDGE"))
    init = None
    for k in g:
        if json.loads(k)["steps"] == 0:
            init = k
    ne = sum(len(v) for v in g.values())
    walks = graph.cover_walks(g, init, max_len=3, rng=ctx.rng)
    ctx.mc_runs.append({"module": "MC_Cache", "cfg": "GEN_Cache.cfg", "distinct_states": r["distinct"],
                        "states_generated": r["generated"], "depth": r["depth"], "wall_s": r["wall_s"],
                        "verdict": "dumped %d labelled edges -> %d covering walks" % (ne, len(walks))})
    cs = [{"src": "tlc", "ops": [{"op": a["op"], "lvl": a["lvl"], "arg": a["arg"]} for a in w]} for w in walks]
    for _ in range(3000 if ctx.thorough else 500):
        cs.append({"src": "random", "seed": ctx.rng.randrange(1 << 30), "len": 14})
    return cs


def nontrivial(case):
    ops = case.get("ops")
    if ops is None:
        return case["seed"]
    kinds = ["q" if o["op"] in QUERIES else "m" for o in ops]
    return json.dumps(ops) if "".join(kinds).find("qmq") >= 0 or "".join(kinds).find("mq") >= 0 else None


QUERIES = ("occ", "state", "find_pos", "find_shape", "light", "polygon", "distance", "occ2", "state2")


# ---- gamma ---------------------------------------------------------------------------------------------

def _box_lanelet(lid, x0, y0, x1, y1):
    from crv import gamma as G
    return G.lanelet(lid, x0=float(x0), y0=float(y0), length=float(x1 - x0), width=float(y1 - y0))


def _poses_to_states(poses, t_first):
    import numpy as np
    from commonroad.scenario.state import KSState
    return [KSState(position=np.array([float(x), float(y)]), orientation=q * math.pi / 2, time_step=t_first + i,
                    velocity=1.0, steering_angle=0.0) for i, (x, y, q) in enumerate(poses)]


def _prediction(poses, t_first, shape):
    from commonroad.prediction.prediction import TrajectoryPrediction
    from commonroad.scenario.trajectory import Trajectory
    return TrajectoryPrediction(Trajectory(t_first, _poses_to_states(poses, t_first)), shape)


def build_world():
    import numpy as np
    from commonroad.scenario.obstacle import DynamicObstacle, ObstacleType
    from crv import gamma as G
    sc = G.scenario()
    sc.add_objects([_box_lanelet(1, 0, 0, 2, 1), _box_lanelet(2, 2, 0, 4, 1)])
    light = G.light(20, (9.0, 9.0), cycle=(("red", 2), ("green", 1)), offset=0)
    sc.add_objects(light, {1})
    shape = G.rect(2.0, 1.0)
    ob = DynamicObstacle(10, ObstacleType.CAR, shape, G.init_state(0.0, 0.0, 0.0, t=0),
                         _prediction([(1, 0, 0), (2, 0, 0)], 1, G.rect(2.0, 1.0)))
    sc.add_objects(ob)
    return sc, ob, light


# ---- alpha ---------------------------------------------------------------------------------------------

def _int(x):
    r = round(float(x))
    if abs(float(x) - r) > 1e-6:
        raise tlc.MachineryError("off-lattice coordinate %r" % (x,))
    return int(r)


def _q(theta):
    k = float(theta) / (math.pi / 2)
    r = round(k)
    if abs(k - r) > 1e-6:
        raise tlc.MachineryError("orientation %r is not a quarter turn" % (theta,))
    return int(r) % 4


def _pose(st):
    return [_int(st.position[0]), _int(st.position[1]), _q(st.orientation)]


def _shape(sh):
    return [_int(sh.length), _int(sh.width)]


def _ring(la):
    import numpy as np
    pts = np.concatenate((la.right_vertices, np.flip(la.left_vertices, 0)))
    return [[_int(p[0]), _int(p[1])] for p in pts]


def primary(sc, ob, light):
    pred = ob.prediction
    traj = [_pose(s) for s in pred.trajectory.state_list] if pred is not None else []
    cyc = light.traffic_light_cycle
    return {"ob": {"has": 1 if pred is not None else 0, "init": _pose(ob.initial_state),
                   "t0": int(ob.initial_state.time_step), "traj": traj, "shp": _shape(ob.obstacle_shape),
                   "pshp": _shape(pred.shape) if pred is not None else _shape(ob.obstacle_shape),
                   "hist": [_pose(s) for s in ob.history]},
            "net": {"L": sorted(int(la.lanelet_id) for la in sc.lanelet_network.lanelets),
                    "ring": [[int(la.lanelet_id), _ring(la)] for la in sc.lanelet_network.lanelets]},
            "lgt": {"cyc": [{"d": int(e.duration), "c": _col(e.state)} for e in cyc.cycle_elements],
                    "off": int(cyc.time_offset)}}


def _col(state):
    return {"RED": "red", "GREEN": "green", "YELLOW": "yellow"}.get(state.name, state.name)


def twin(sc, ob, light):
    """Objects freshly constructed from the current primary data through the public constructors."""
    import numpy as np
    from commonroad.geometry.shape import Rectangle
    from commonroad.scenario.lanelet import Lanelet, LaneletNetwork
    from commonroad.scenario.obstacle import DynamicObstacle
    from commonroad.scenario.state import InitialState
    from commonroad.scenario.traffic_light import TrafficLightCycle, TrafficLightCycleElement
    pred = None
    if ob.prediction is not None:
        p = ob.prediction
        pred = _prediction([(s.position[0], s.position[1], s.orientation / (math.pi / 2))
                            for s in p.trajectory.state_list], p.trajectory.initial_time_step,
                           Rectangle(p.shape.length, p.shape.width))
    i = ob.initial_state
    ob2 = DynamicObstacle(ob.obstacle_id, ob.obstacle_type, Rectangle(ob.obstacle_shape.length, ob.obstacle_shape.width),
                          InitialState(position=np.array(i.position, dtype=float), orientation=float(i.orientation),
                                       time_step=int(i.time_step), velocity=0.0, acceleration=0.0, yaw_rate=0.0,
                                       slip_angle=0.0), pred)
    net2 = LaneletNetwork.create_from_lanelet_list(
        [Lanelet(np.array(la.left_vertices), np.array(la.center_vertices), np.array(la.right_vertices), la.lanelet_id)
         for la in sc.lanelet_network.lanelets], cleanup_ids=False)
    c = light.traffic_light_cycle
    cyc2 = TrafficLightCycle([TrafficLightCycleElement(e.state, e.duration) for e in c.cycle_elements],
                             time_offset=c.time_offset)
    return ob2, net2, cyc2


def _sibling(ob):
    from commonroad.prediction.prediction import TrajectoryPrediction
    from commonroad.scenario.obstacle import DynamicObstacle, ObstacleType
    from commonroad.scenario.trajectory import Trajectory
    from crv import gamma as G
    tr = ob.prediction.trajectory
    return DynamicObstacle(12, ObstacleType.CAR, G.rect(2.0, 1.0), G.init_state(0.0, 0.0, 0.0, t=0),
                           TrajectoryPrediction(Trajectory(tr.initial_time_step, tr.state_list), G.rect(2.0, 1.0)))


def _occ_key(occ):
    if occ is None:
        return []
    v = occ.shape.vertices
    pts = {(_int(2 * p[0]), _int(2 * p[1])) for p in v}
    return sorted([a, b] for a, b in pts)


def query(op, arg, sc, ob, light, net=None, cyc=None):
    import numpy as np
    from commonroad.geometry.shape import Rectangle
    net = net if net is not None else sc.lanelet_network
    cyc = cyc if cyc is not None else light
    if op in ("occ", "occ2"):
        return _occ_key(ob.occupancy_at_time(arg[0]))
    if op in ("state", "state2"):
        s = ob.state_at_time(arg[0])
        return [] if s is None else _pose(s)
    if op == "find_pos":
        return sorted(int(i) for i in net.find_lanelet_by_position([np.array([arg[0] / 2.0, arg[1] / 2.0])])[0])
    if op == "find_shape":
        return sorted(int(i) for i in net.find_lanelet_by_shape(Rectangle(1.0, 1.0, np.array([arg[0] / 2.0, arg[1] / 2.0]))))
    if op == "light":
        return _col(cyc.get_state_at_time_step(arg[0]))
    if op == "polygon":
        la = net.find_lanelet_by_id(arg[0])
        if la is None:
            return []
        return sorted([_int(p[0]), _int(p[1])] for p in la.polygon.vertices[:-1]) if len(la.polygon.vertices) > 4 \
            else sorted([_int(p[0]), _int(p[1])] for p in la.polygon.vertices)
    if op == "distance":
        la = net.find_lanelet_by_id(arg[0])
        return [] if la is None else [int(round(1000 * float(d))) for d in la.distance]
    raise ValueError(op)


# ---- execution -----------------------------------------------------------------------------------------

def mutate(a, sc, ob, light):
    import numpy as np
    from commonroad.scenario.state import InitialState
    from commonroad.scenario.traffic_light import TrafficLightCycleElement, TrafficLightState
    from commonroad.scenario.trajectory import Trajectory
    from crv import gamma as G
    op, arg = a["op"], a["arg"]
    if op == "tr":
        t, ang = np.array([float(arg[0]), float(arg[1])]), arg[2] * math.pi / 2
        {"scenario": sc, "obstacle": ob, "prediction": ob.prediction, "network": sc.lanelet_network}[a["lvl"]] \
            .translate_rotate(t, ang)
    elif op == "set_trajectory":
        poses = [arg[i:i + 3] for i in range(0, len(arg), 3)]
        t1 = ob.initial_state.time_step + 1
        ob.prediction.trajectory = Trajectory(t1, _poses_to_states(poses, t1))
    elif op == "reassign_trajectory":                           # edit the held Trajectory in place, hand it back to the setter
        traj = ob.prediction.trajectory
        traj.translate_rotate(np.array([float(arg[0]), float(arg[1])]), arg[2] * math.pi / 2)
        ob.prediction.trajectory = traj
    elif op == "set_pshape":
        ob.prediction.shape = G.rect(float(arg[0]), float(arg[1]))
    elif op == "update_prediction":
        poses = [arg[i:i + 3] for i in range(0, len(arg), 3)]
        t1 = ob.initial_state.time_step + 1
        ob.update_prediction(_prediction(poses, t1, G.rect(ob.obstacle_shape.length, ob.obstacle_shape.width))
                             if poses else None)
    elif op == "update_initial_state":
        st = InitialState(position=np.array([float(arg[0]), float(arg[1])]), orientation=arg[2] * math.pi / 2,
                          time_step=ob.initial_state.time_step + 1, velocity=0.0, acceleration=0.0, yaw_rate=0.0,
                          slip_angle=0.0)
        ob.update_initial_state(st, max_history_length=arg[3])
    elif op == "add_lanelet":
        sc.add_objects(_box_lanelet(arg[0], 0, 1, 2, 2))
    elif op == "remove_lanelet":
        sc.remove_lanelet(sc.lanelet_network.find_lanelet_by_id(arg[0]))
    elif op == "merge_network":
        from commonroad.scenario.lanelet import LaneletNetwork
        src = LaneletNetwork()
        for i in arg:                                           # source lanelets in this order (fresh, unmoved boxes)
            src.add_lanelet(_box_lanelet(i, *BOXES[i]))
        sc.lanelet_network.add_lanelets_from_network(src)
        for la in sc.lanelet_network.lanelets:                   # keep the scenario's id registry in step (network-level API)
            if not sc._is_object_id_used(la.lanelet_id):
                sc._mark_object_id_as_used(la.lanelet_id)
    elif op == "set_cycle_elements":
        names = {0: "RED", 1: "GREEN", 2: "YELLOW"}
        light.traffic_light_cycle.cycle_elements = [TrafficLightCycleElement(TrafficLightState[names[arg[i + 1]]], arg[i])
                                                    for i in range(0, len(arg), 2)]
    elif op == "set_offset":
        light.traffic_light_cycle.time_offset = arg[0]
    elif op == "set_duration":
        light.traffic_light_cycle.cycle_elements[arg[0] - 1].duration = arg[1]
    else:
        raise tlc.MachineryError("unknown op " + op)


def _enabled(a, sc, ob):
    op = a["op"]
    if op in ("set_trajectory", "set_pshape", "reassign_trajectory") or (op == "tr" and a["lvl"] == "prediction"):
        return ob.prediction is not None
    if op == "add_lanelet":
        return sc.lanelet_network.find_lanelet_by_id(a["arg"][0]) is None
    if op == "remove_lanelet":
        return sc.lanelet_network.find_lanelet_by_id(a["arg"][0]) is not None
    return True


def _random_ops(seed, n):
    import random
    r = random.Random(seed)
    ops = []
    for _ in range(n):
        k = r.random()
        if k < 0.45:
            op = r.choice(["occ", "occ", "state", "find_pos", "find_shape", "light", "polygon", "distance"])
            if op in ("occ", "state", "light"):
                arg = [r.randint(0, 6)]
            elif op in ("find_pos", "find_shape"):
                arg = [r.randint(-12, 12), r.randint(-12, 12)]
            else:
                arg = [r.choice([1, 2, 3])]
            ops.append({"op": op, "lvl": "", "arg": arg})
        elif k < 0.75:
            ops.append({"op": "tr", "lvl": r.choice(["scenario", "obstacle", "prediction", "network"]),
                        "arg": [r.randint(-3, 3), r.randint(-3, 3), r.randint(0, 3)]})
        else:
            op = r.choice(["set_trajectory", "reassign_trajectory", "set_pshape", "update_prediction", "update_initial_state", "add_lanelet",
                           "remove_lanelet", "merge_network", "set_cycle_elements", "set_offset", "set_duration"])
            if op in ("set_trajectory", "update_prediction"):
                n_p = r.randint(0 if op == "update_prediction" else 1, 3)
                arg = [v for _ in range(n_p) for v in (r.randint(-4, 4), r.randint(-4, 4), r.randint(0, 3))]
            elif op == "reassign_trajectory":
                arg = [r.randint(-3, 3), r.randint(-3, 3), r.randint(0, 3)]
            elif op == "set_pshape":
                arg = [r.choice([1, 2, 3]), r.choice([1, 2])]
            elif op == "update_initial_state":
                arg = [r.randint(-4, 4), r.randint(-4, 4), r.randint(0, 3), r.randint(1, 3)]
            elif op == "add_lanelet":
                arg = [3]
            elif op == "merge_network":
                arg = r.sample([1, 2, 3], r.randint(1, 3))
            elif op == "remove_lanelet":
                arg = [r.choice([1, 2, 3])]
            elif op == "set_cycle_elements":
                arg = [v for _ in range(r.randint(1, 3)) for v in (r.randint(1, 3), r.randint(0, 2))]
            elif op == "set_offset":
                arg = [r.randint(0, 3)]
            else:
                arg = [1, r.randint(1, 3)]
            ops.append({"op": op, "lvl": "", "arg": arg})
    return ops


def execute(case):
    use_repo()
    sc, ob, light = build_world()
    ops = case.get("ops") or _random_ops(case["seed"], case["len"])
    ev = []
    init = primary(sc, ob, light)
    warmed = set()
    # a sibling obstacle built from the SAME state-list object as ob's trajectory (kept outside the scenario, never
    # mutated itself); its occupancy cache is filled now and asked again after every mutation of ob
    sib = _sibling(ob)
    for t in (1, 2):
        sib.occupancy_at_time(t)
    ops = list(ops)
    ops = [b for a in ops for b in ([a] if a["op"] in QUERIES else
                                    [a, {"op": "occ2", "lvl": "", "arg": [1]}, {"op": "state2", "lvl": "", "arg": [2]}])]
    for a in ops:
        op = a["op"]
        if op in QUERIES:
            exc, res, fresh = "None", [], 1
            try:
                target = sib if op.endswith("2") else ob
                res = query(op, a["arg"], sc, target, light)
                ob2, net2, cyc2 = twin(sc, target, light)
                fresh = 1 if res == query(op, a["arg"], sc, ob2, light, net2, cyc2) else 0
            except tlc.MachineryError:
                raise
            except Exception as ex:
                exc = "exc:" + type(ex).__name__
            if op == "light" and exc != "None":
                res = ""
            ev.append({"op": op, "lvl": "", "arg": a["arg"], "res": res, "fresh": fresh, "exc": exc,
                       "sig": "%s/%s" % (op, "warm" if op in warmed else "cold")})
            warmed.add(op)
        else:
            if not _enabled(a, sc, ob):
                continue
            exc = "None"
            try:
                mutate(a, sc, ob, light)
            except tlc.MachineryError:
                raise
            except Exception as ex:
                exc = "exc:" + type(ex).__name__
            ev.append({"op": op, "lvl": a["lvl"], "arg": a["arg"], "exc": exc, "post": primary(sc, ob, light),
                       "hl": [len(ob.history), len(ob.signal_history), len(ob.center_lanelet_ids_history),
                              len(ob.shape_lanelet_ids_history)],
                       "sig": op + ("@" + a["lvl"] if a["lvl"] else "")})
    return {"ev": ev, "init": init}


def corrupt(trace, rng):
    """Turn one logged query answer into a stale-looking one."""
    # (only queries the lattice model decides exactly: a position on a lanelet boundary may go either way)
    qs = [i for i, e in enumerate(trace["ev"]) if e["op"] in ("occ", "state") and e["exc"] == "None"]
    if not qs:
        return None
    e = trace["ev"][rng.choice(qs)]
    if e["op"] == "find_pos":
        e["res"] = [] if e["res"] else [1]
    elif e["op"] == "state":
        e["res"] = [] if e["res"] else [0, 0, 0]
    else:
        e["res"] = [] if e["res"] else [[0, 0], [0, 2], [2, 0], [2, 2]]
    return trace
