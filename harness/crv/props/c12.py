"""C12 - equality and hashing of scenario elements follow their contract (spec: EqContract.tla).

gamma for C12: the TLA+ class table (EqContract!ClassTable) names (class, group, token); `_build_table()` below maps
every such triple to concrete Python values (fresh objects on every call) and every class to a builder that calls the
PUBLIC constructor (LaneletNetwork / Scenario content goes through the public add_* methods).  The TLA+ table is the
source of truth: the GEN run prints it as JSON and `cases()` refuses to run (machinery failure) unless the Python
table has a value for exactly these triples.  The constructor parameters each group stands for are compared with
inspect.signature of the real constructors; a new / renamed / vanished parameter is a SPEC-DRIFT note, never a
violation.
"""
import copy
import json
import math
import os
import warnings

from crv import tlc
from crv.core import use_repo

PROPERTY = "C12"
MODULES = ["EqContract", "MC_EqContract", "Trace_EqContract"]
TRACE = ("Trace_EqContract", "Trace_EqContract.cfg")
EXHAUSTIVE = True
RULE = ("TLC enumerates the perturbation graph of EqContract!ClassTable: for each of the classes two seeds (all "
        "constructor defaults; fully populated) -> every change of ONE attribute group to another valid token "
        "(quick: one perturbation, thorough: two) plus every re-insertion-order variant of a set/dict valued group. "
        "Each explored state is one case = one edge (x -> y: ==, != in both directions, both hashes) plus, the first "
        "time a valuation is seen, the node tests on y (x == x, deepcopy, independent rebuild, hash twice). "
        "Plus seeded random edges between arbitrary valuations (1500 quick / 15000 thorough). "
        "History dimension: every node (setters: nodes of depth <= MutDepth = 0 quick / 1 thorough) is changed IN PLACE "
        "by each public mutator of EqContract (attribute setters / add_* / remove_*, translate_rotate with a lattice "
        "motion, convert_to_2d), once after == and hash() were evaluated on it (warm) and once cold, and compared with "
        "fresh objects built from the raw values of the new and of the old valuation; plus 1000 / 10000 seeded random "
        "mutations from arbitrary valuations. Dynamic obstacles: history keyword lists (omitted, [], one / two entries, "
        "None entries, id sets re-inserted) are ordinary groups; the mutators update_initial_state (default arguments / "
        "everything given, max_history_length left out, 1, 2) and update_prediction advance every node with parallel "
        "history lists and are compared with a fresh obstacle built from the archived raw values. "
        "Observed dimension: on every node the read-only public queries of the class (EqContract!Queries; str, repr, "
        "hash everywhere; rendering on the Scenario seeds) are run on x only / on x and an independently built twin, "
        "then x is compared with the twin and with deep copies taken before and after. "
        "distinct_nontrivial = distinct (class, x valuation, y valuation, kind) with x # y.")
ASSUMPTIONS = ["'constructor-visible attribute' = parameter of the public constructor; parameters that are only valid "
               "together form one group (joint domain); content of LaneletNetwork / Scenario is added through the "
               "public add_* methods and treated as further groups",
               "real-valued perturbations differ by 1e-6 (statement: more than 1e-10)",
               "insertion-order variants exist only for set- and dict-typed parameters (identical Python values); "
               "lists in another order are different values and are not demanded to be equal",
               "hash crashes are attributed once: to a seed (sig <Class>.@default / <Class>.@full) or to the edge "
               "whose perturbation introduces the crash (hash(x) fine, hash(y) raises; sig <Class>.<group>)",
               "pairs about which the statement is silent are declared in EqContract!Either (currently none)",
               "MapInformation.date is never left at its default (the default is the wall clock, not a value)",
               "expected answers come from EqContract!Expected3 evaluated by TLC on the logged valuations",
               "history: the reference objects are built from raw values to which the HARNESS applies the motion "
               "(p -> R(pi/2)(p + (7, 11)), angles + pi/2; 3-d variants with z = 5), restricted to the groups "
               "EqContract!Moved / Flat name (what translate_rotate has to move is C05); a mutator that raises is a "
               "machinery failure (the table promises applicability), never a violation",
               "history: setters cannot 'omit' (no transition to the default token); transitions a single public call "
               "cannot make are excluded in EqContract!SpecialPairs / NoSetter / MoveBlockedBy with the reason"]

OMIT = "<omit>"          # token value: do not pass the parameter(s) at all (constructor default)
_TABLE = None

# ---- the lattice motion of the history dimension (applied by the harness to RAW values, never by the library) ------
TX, TY = 7.0, 11.0                     # integer translation; keeps every moved coordinate away from 0 (no -0.0 noise)
QUARTER = math.pi / 2                  # quarter turn:  p -> R(pi/2) (p + t) = (-(y + TY), x + TX)
Z3 = 5.0                               # third coordinate of the 3-d variants (convert_to_2d)
_MOT = ["id"]                          # motion mark under which raw spatial values are currently produced


class _Dflt:
    """token "d" of a group whose default is itself spatial (Rectangle.center = origin): omitted when nothing
    moves, otherwise the explicit moved default"""
    def __init__(self, f):
        self.f = f


class _Cls:
    def __init__(self, name, ctor, build, params_of, sig_params):
        self.name, self.ctor, self.build = name, ctor, build
        self.groups = {}              # group -> {token: thunk returning {param: value} or OMIT}
        self.params_of = params_of    # group -> [constructor parameter names] ([] for content groups)
        self.sig_params = sig_params  # callable returning the real parameter names, or None (free **kwargs)
        self.setters = {}             # group -> custom in-place mutator f(x, a, b, kw_of_b) (default: setattr)


def _val(v):
    return v() if callable(v) and not isinstance(v, type) else v


def _build_table():
    """(class, group, token) -> fresh Python values.  Import only after use_repo()."""
    import dataclasses
    import inspect

    import numpy as np
    from commonroad.common.common_lanelet import LaneletType, LineMarking, RoadUser
    from commonroad.common.util import AngleInterval, Interval, Time
    from commonroad.geometry.shape import Circle, Polygon, Rectangle, ShapeGroup
    from commonroad.planning.goal import GoalRegion
    from commonroad.planning.planning_problem import PlanningProblem, PlanningProblemSet
    from commonroad.prediction.prediction import Occupancy, SetBasedPrediction, TrajectoryPrediction
    from commonroad.scenario import state as S
    from commonroad.scenario.area import Area, AreaBorder, AreaType
    from commonroad.scenario.intersection import Intersection, IntersectionIncomingElement
    from commonroad.scenario.lanelet import Lanelet, LaneletNetwork, MapInformation, StopLine
    from commonroad.scenario.obstacle import (DynamicObstacle, EnvironmentObstacle, ObstacleType, PhantomObstacle,
                                              StaticObstacle)
    from commonroad.scenario.scenario import (Environment, GeoTransformation, Location, Scenario, ScenarioID, Tag,
                                              TimeOfDay, Underground, Weather)
    from commonroad.scenario.traffic_light import (TrafficLight, TrafficLightCycle, TrafficLightCycleElement,
                                                   TrafficLightDirection, TrafficLightState)
    from commonroad.scenario.traffic_sign import (TrafficSign, TrafficSignElement, TrafficSignIDUsa,
                                                  TrafficSignIDZamunda)
    from commonroad.scenario.trajectory import Trajectory

    EPS = 1e-6
    T = {}

    def sig_of(ctor):
        def f():
            return [n for n, p in inspect.signature(ctor.__init__).parameters.items()
                    if n != "self" and p.kind not in (p.VAR_KEYWORD, p.VAR_POSITIONAL)]
        return f

    def add(name, ctor, groups, build=None, sig_params="ctor", setters=None):
        """groups: list of (group, params, {token: value-or-thunk}); a value for a single-param group is the
        parameter value, for a joint group a dict param -> value; OMIT leaves the parameter(s) out."""
        c = _Cls(name, ctor, build or (lambda kw: ctor(**kw)), {}, sig_of(ctor) if sig_params == "ctor" else sig_params)
        c.setters = dict(setters or {})
        for g, params, toks in groups:
            c.params_of[g] = list(params)
            c.groups[g] = {}
            for tok, v in toks.items():
                c.groups[g][tok] = (lambda v=v, params=params: _kw(v, params))
        T[name] = c

    def _kw(v, params):
        if isinstance(v, str) and v == OMIT:
            return {}
        if isinstance(v, _Dflt):
            if _MOT[0] == "id":
                return {}
            v = v.f
        v = _val(v)
        if len(params) == 1:
            return {params[0]: v}
        return dict(v)

    def P(param, **toks):              # single-parameter group named like the parameter
        return (param, [param], toks)

    def J(group, params, **toks):      # joint group
        return (group, params, toks)

    # ---- raw spatial values: every point / polyline / angle goes through pt / pts / ang, which apply the motion
    #      mark under which the enclosing group is being built ("id": as written, "m1": moved, "z3": 3-d) -----------
    def pt(x, y):
        if _MOT[0] == "m1":
            return np.array([-(y + TY), x + TX])
        if _MOT[0] == "z3":
            return np.array([x, y, Z3])
        return np.array([x, y], dtype=float)

    def pts(rows):
        return np.array([pt(x, y) for x, y in rows])

    def ang(a):
        return a + QUARTER if _MOT[0] == "m1" else a

    def still(f, *a):
        """a value the library's translate_rotate leaves alone (shape of a prediction / obstacle: relative)"""
        old, _MOT[0] = _MOT[0], "id"
        try:
            return f(*a)
        finally:
            _MOT[0] = old

    def arr(*rows):
        return lambda: pts(rows) if len(rows) > 1 else pt(*rows[0])

    def real(param, base, default=True):
        d = {"v1": base, "v2": base + EPS}
        if default:
            d["d"] = OMIT
        return P(param, **d)

    # ---- id sets with colliding hashes: set([0, 8]) iterates 0, 8 and set([8, 0]) iterates 8, 0 -----------------
    def ids():
        return set([0, 8])

    def ids_r():
        return set([8, 0])

    def ids2():
        return set([0, 3])

    def idset(param, default=True):
        d = {"v1": ids, "v1r": ids_r, "v2": ids2}
        if default:
            d["d"] = OMIT
        return P(param, **d)

    def enum_pair(members):
        """two members whose hashes collide in an 8-slot table (insertion order then shows), else the first two"""
        ms = list(members)
        for i, a in enumerate(ms):
            for b in ms[i + 1:]:
                if hash(a) & 7 == hash(b) & 7:
                    return a, b
        return ms[0], ms[1]

    def enumset(param, enum):
        a, b = enum_pair(enum)
        c = [m for m in enum if m not in (a, b)][0]
        return P(param, d=OMIT, v1=lambda: set([a, b]), v1r=lambda: set([b, a]), v2=lambda: set([a, c]))

    # ---- sub-objects (fresh on every call; k selects a variant) ---------------------------------------------------
    def rect(k=0):
        return Rectangle(2.0 + (EPS if k == 1 else 0.0), 1.0, pt(1.0, 2.0), ang(0.25))

    def circ(k=0):
        return Circle(1.5 + (EPS if k == 1 else 0.0), pt(1.0, 2.0))

    def poly(k=0):
        return Polygon(pts([[0.0, 0.0], [2.0 + (EPS if k == 1 else 0.0), 0.0], [2.0, 2.0], [0.0, 2.0]]))

    def ist(k=0, t=0):                 # variants differ in velocity (position sensitivity is tested on the states)
        return S.InitialState(time_step=t, position=pt(1.0, 2.0), orientation=ang(0.5),
                              velocity=3.0 + (EPS if k == 1 else 0.0), acceleration=0.0, yaw_rate=0.0, slip_angle=0.0)

    def ks(t, k=0):
        return S.KSState(time_step=t, position=pt(1.0 + t, 2.0), orientation=ang(0.5),
                         velocity=3.0 + (EPS if k == 1 else 0.0), steering_angle=0.0)

    def pm(t, k=0):
        # without velocity_y: PMState.translate_rotate raises once both velocities are given (C05 finding)
        return S.PMState(time_step=t, position=pt(1.0 + t, 2.0), velocity=3.0 + (EPS if k == 1 else 0.0))

    def traj(k=0):
        return Trajectory(1, [ks(1), ks(2, k)])

    def sig(t=0, k=0):
        return S.SignalState(time_step=t, horn=(k == 1), indicator_left=True)

    def meta(k=0):
        return S.MetaInformationState(meta_data_str={"a": "x" if k == 0 else "y"}, meta_data_int={"n": 1})

    def occ(t, k=0):
        return Occupancy(t, rect(k))

    def tpred(k=0):
        return TrajectoryPrediction(traj(k), still(rect))

    def spred(k=0):
        return SetBasedPrediction(1, [occ(1), occ(2, k)])

    def goal_state(k=0):
        return S.CustomState(time_step=Interval(10, 20 + k), position=rect(), velocity=Interval(0.0, 5.0))

    def goal(k=0):
        return GoalRegion([goal_state(k)])

    def stop_line(k=0):
        return StopLine(pt(0.0, 0.0), pt(0.0, 1.0 + (EPS if k == 1 else 0.0)), LineMarking.SOLID)

    def cyc_el(c="RED", d=2):
        return TrafficLightCycleElement(TrafficLightState[c], d)

    def cycle(k=0):
        return TrafficLightCycle([cyc_el("RED", 2), cyc_el("GREEN", 3 + k)], time_offset=1)

    def sign_el(k=0):
        return TrafficSignElement(TrafficSignIDZamunda.MAX_SPEED, ["10" if k == 0 else "20"])

    def incoming(iid=1, k=0):
        return IntersectionIncomingElement(iid, ids(), set([20]), set([21 + k]), set([22]), None)

    def border(bid=1, k=0):
        return AreaBorder(bid, np.array([[0.0, 0.0], [1.0, 0.0 + (EPS if k == 1 else 0.0)]]), [3], LineMarking.DASHED)

    def tm(k=0):
        return Time(10, 30 + k, 1, 2, 2020)

    def geo(k=0):
        return GeoTransformation("+proj=utm +zone=32", 1.0 + (EPS if k == 1 else 0.0), 2.0, 0.1, 1.0)

    def env(k=0):
        return Environment(tm(), TimeOfDay.NOON, Weather.CLEAR if k == 0 else Weather.FOG, Underground.DIRTY)

    def loc(k=0):
        return Location(42, 48.0 + (EPS if k == 1 else 0.0), 11.0, geo(), env())

    def sid(k=0):
        return ScenarioID(False, "DEU", "Muc", 3 + k, 2, "T", 1)

    def lanelet(lid=1, y0=0.0, k=0, **kw):
        right = [[0.0, y0], [1.0, y0], [2.0, y0]]
        left = [[0.0, y0 + 1.0], [1.0, y0 + 1.0], [2.0 + (EPS if k == 1 else 0.0), y0 + 1.0]]
        mid = [[(a[0] + b[0]) / 2.0, (a[1] + b[1]) / 2.0] for a, b in zip(left, right)]
        return Lanelet(pts(left), pts(mid), pts(right), lid, **kw)

    def tsign(sid_=30, k=0):
        return TrafficSign(sid_, [sign_el(k)], set([1]), pt(0.0, 0.0))

    def tlight(tid=40, k=0):
        return TrafficLight(tid, pt(0.0, 1.0), cycle(k))

    def inter(xid=50, k=0):
        # refers to no lanelet: add_/remove_lanelet clean up dangling references of intersections (C10), which
        # would couple the content groups of a network
        return Intersection(xid, [IntersectionIncomingElement(51, set(), set(), set(), set(), 5 + k)], set())

    def plain_border(bid=1, k=0):     # without `adjacent`: keeps AreaBorder's own hash defect out of the containers
        return AreaBorder(bid, pts([[0.0, 0.0], [1.0, 0.0 + (EPS if k == 1 else 0.0)]]))   # moved with the network

    def area(aid=60, k=0):
        return Area(aid, [plain_border(61, k)], set([AreaType.PARKING]))

    def minfo(k=0):
        return MapInformation("2023a", "DEU_Muc-%d" % (1 + k), tm(), "a", "b", "c", "MIT", "text")

    def network(k=0):
        n = LaneletNetwork(minfo())
        n.add_lanelet(lanelet(1, 0.0, k))
        n.add_lanelet(lanelet(2, 1.0))
        n.add_traffic_sign(tsign(30), set())
        n.add_traffic_light(tlight(40), set())
        return n

    def sobst(oid=100, k=0):
        return StaticObstacle(oid, ObstacleType.PARKED_VEHICLE, still(rect, k), ist())

    def dobst(oid=101, k=0):
        return DynamicObstacle(oid, ObstacleType.CAR, still(rect), ist(), tpred(k))

    def pproblem(pid=1, k=0):
        return PlanningProblem(pid, ist(k), goal())

    # =============================== geometry, intervals ==========================================================
    add("Rectangle", Rectangle, [real("length", 2.0, False), real("width", 1.0, False),
                                 P("center", d=_Dflt(lambda: pt(0.0, 0.0)), v1=arr([1.0, 2.0]),
                                   v2=arr([1.0, 2.0 + EPS])),
                                 P("orientation", d=_Dflt(lambda: ang(0.0)), v1=lambda: ang(0.25),
                                   v2=lambda: ang(0.25 + EPS))])
    add("Circle", Circle, [real("radius", 1.5, False),
                           P("center", d=_Dflt(lambda: pt(0.0, 0.0)), v1=arr([1.0, 2.0]),
                             v2=arr([1.0 + EPS, 2.0]))])
    add("Polygon", Polygon, [P("vertices", v1=arr([0.0, 0.0], [2.0, 0.0], [2.0, 2.0], [0.0, 2.0]),
                               v2=arr([0.0, 0.0], [2.0, 0.0], [2.0, 2.0 + EPS], [0.0, 2.0]),
                               v3=arr([0.0, 0.0], [2.0, 0.0], [2.0, 2.0]))],
        # the constructor normalises the vertices (closed, orientation), the setter stores what it gets:
        # assign the value a polygon with the new vertices HAS
        setters={"vertices": lambda x, a, b, val_of: setattr(x, "vertices", Polygon(**val_of(b)).vertices)})
    add("ShapeGroup", ShapeGroup, [P("shapes", v1=lambda: [rect(), circ()], v2=lambda: [rect(), circ(1)],
                                     v3=lambda: [rect()])])
    add("Interval", Interval, [real("start", 1.0, False), real("end", 2.0, False)])
    add("AngleInterval", AngleInterval, [real("start", -0.5, False), real("end", 0.5, False)])

    # =============================== states =======================================================================
    time_step = P("time_step", d=OMIT, v1=3, v2=4, v3=lambda: Interval(3, 5))
    position = P("position", d=OMIT, v1=arr([1.0, 2.0]), v2=arr([1.0, 2.0 + EPS]), v3=rect)
    orientation = P("orientation", d=OMIT, v1=lambda: ang(0.5), v2=lambda: ang(0.5 + EPS),
                    v3=lambda: AngleInterval(ang(0.25), ang(0.75)))
    velocity = P("velocity", d=OMIT, v1=3.0, v2=3.0 + EPS, v3=lambda: Interval(3.0, 4.0))
    special = {"time_step": time_step, "position": position, "orientation": orientation, "velocity": velocity}

    def fields_of(cls):
        def f():
            return [fl.name for fl in dataclasses.fields(cls)]
        return f

    for cls in (S.InitialState, S.PMState, S.ExtendedPMState, S.KSState, S.KSTState, S.STState, S.STDState, S.MBState,
                S.LongitudinalState, S.LateralState, S.InputState, S.PMInputState, S.LKSInputState):
        groups = []
        for i, fl in enumerate(dataclasses.fields(cls)):
            groups.append(special.get(fl.name) or real(fl.name, 0.125 * (i + 1)))
        add(cls.__name__, cls, groups, sig_params=fields_of(cls))
    add("CustomState", S.CustomState, [P("time_step", v1=3, v2=4, v3=lambda: Interval(3, 5)), position,
                                       real("custom_attr", 0.75)], sig_params=None)
    flag = dict(d=OMIT, v1=True, v2=False)
    add("SignalState", S.SignalState, [P("time_step", d=OMIT, v1=3, v2=4)] + [
        P(n, **flag) for n in ("horn", "indicator_left", "indicator_right", "braking_lights",
                               "hazard_warning_lights", "flashing_blue_lights")],
        sig_params=lambda: list(S.SignalState.__slots__))
    add("MetaInformationState", S.MetaInformationState, [
        P("meta_data_str", d=OMIT, v1=lambda: {"a": "x"}, v2=lambda: {"a": "y"}),
        P("meta_data_int", d=OMIT, v1=lambda: {"n": 1}, v2=lambda: {"n": 2}),
        P("meta_data_float", d=OMIT, v1=lambda: {"f": 0.5}, v2=lambda: {"f": 0.5 + EPS}),
        P("meta_data_bool", d=OMIT, v1=lambda: {"b": True}, v2=lambda: {"b": False})])

    # =============================== trajectories, occupancies, predictions =======================================
    add("Trajectory", Trajectory, [J("state_list", ["initial_time_step", "state_list"],
        v1=lambda: dict(initial_time_step=1, state_list=[ks(1), ks(2)]),
        v2=lambda: dict(initial_time_step=1, state_list=[ks(1), ks(2, 1)]),          # one real differs by 1e-6
        v3=lambda: dict(initial_time_step=2, state_list=[ks(2), ks(3)]),              # shifted in time
        v4=lambda: dict(initial_time_step=1, state_list=[pm(1), pm(2)]))])           # other state class
    add("Occupancy", Occupancy, [P("time_step", v1=3, v2=4, v3=lambda: Interval(3, 5)),
                                 P("shape", v1=rect, v2=lambda: rect(1), v3=circ)])

    def assignment(param):
        return P(param, d=OMIT, v1=lambda: {1: ids(), 2: set([3])}, v1r=lambda: {2: set([3]), 1: ids_r()},
                 v2=lambda: {1: ids(), 2: set([4])})
    add("TrajectoryPrediction", TrajectoryPrediction, [
        P("trajectory", v1=traj, v2=lambda: traj(1)), P("shape", v1=rect, v2=lambda: rect(1)),
        assignment("center_lanelet_assignment"), assignment("shape_lanelet_assignment")])
    add("SetBasedPrediction", SetBasedPrediction, [
        P("initial_time_step", v1=1, v2=0),
        P("occupancy_set", v1=lambda: [occ(1), occ(2)], v2=lambda: [occ(1), occ(2, 1)], v3=lambda: [occ(1)])])

    # =============================== obstacles ====================================================================
    def obstacle_common(t1, t2):
        return [P("obstacle_id", v1=7, v2=8), P("obstacle_type", v1=t1, v2=t2),
                P("obstacle_shape", v1=rect, v2=lambda: rect(1), v3=circ),
                P("initial_state", v1=ist, v2=lambda: ist(1)),
                idset("initial_center_lanelet_ids"), idset("initial_shape_lanelet_ids"),
                P("initial_signal_state", d=OMIT, v1=sig, v2=lambda: sig(0, 1)),
                P("signal_series", d=OMIT, v1=lambda: [sig(1), sig(2)], v2=lambda: [sig(1), sig(2, 1)])]

    def idset_list(param):
        return P(param, d=OMIT, de=lambda: [], v1=lambda: [ids(), set([3])], v1r=lambda: [ids_r(), set([3])],
                 v2=lambda: [ids(), set([4])], v3=lambda: [ids()], v4=lambda: [None, set([3])])
    add("StaticObstacle", StaticObstacle, obstacle_common(ObstacleType.PARKED_VEHICLE, ObstacleType.CONSTRUCTION_ZONE))
    add("DynamicObstacle", DynamicObstacle, obstacle_common(ObstacleType.CAR, ObstacleType.TRUCK) + [
        P("prediction", d=OMIT, v1=tpred, v2=lambda: tpred(1), v3=spred),
        P("initial_meta_information_state", d=OMIT, v1=meta, v2=lambda: meta(1)),
        P("meta_information_series", d=OMIT, v1=lambda: [meta(), meta()], v2=lambda: [meta(), meta(1)]),
        P("external_dataset_id", d=OMIT, v1=5, v2=6),
        # history lists: "de" = explicit [], v3 = one entry, v4 = entries with None (what update_initial_state
        # archives when the obstacle was built / advanced with default arguments)
        P("history", d=OMIT, de=lambda: [], v1=lambda: [ks(-2), ks(-1)], v2=lambda: [ks(-2), ks(-1, 1)],
          v3=lambda: [ks(-1)]),
        P("signal_history", d=OMIT, de=lambda: [], v1=lambda: [sig(-2), sig(-1)], v2=lambda: [sig(-2), sig(-1, 1)],
          v3=lambda: [sig(-1)], v4=lambda: [None, sig(-1)]),
        idset_list("center_lanelet_ids_history"), idset_list("shape_lanelet_ids_history")])
    add("PhantomObstacle", PhantomObstacle, [P("obstacle_id", v1=7, v2=8),
                                             P("prediction", d=OMIT, v1=spred, v2=lambda: spred(1))])
    add("EnvironmentObstacle", EnvironmentObstacle, [
        P("obstacle_id", v1=7, v2=8), P("obstacle_type", v1=ObstacleType.BUILDING, v2=ObstacleType.PILLAR),
        P("obstacle_shape", v1=rect, v2=lambda: rect(1), v3=poly)])

    # =============================== road network =================================================================
    add("StopLine", StopLine, [P("start", v1=arr([0.0, 0.0]), v2=arr([0.0, EPS])),
                               P("end", v1=arr([0.0, 1.0]), v2=arr([EPS, 1.0])),
                               P("line_marking", v1=LineMarking.SOLID, v2=LineMarking.DASHED),
                               idset("traffic_sign_ref"), idset("traffic_light_ref")])

    def adjacent(side):
        a, f = "adjacent_" + side, "adjacent_%s_same_direction" % side
        return J(a, [a, f], d=OMIT, v1=lambda: {a: 7, f: True}, v2=lambda: {a: 7, f: False},
                 v3=lambda: {a: 9, f: True})
    right, left = [[0.0, 0.0], [1.0, 0.0], [2.0, 0.0]], [[0.0, 1.0], [1.0, 1.0], [2.0, 1.0]]
    center = [[0.0, 0.5], [1.0, 0.5], [2.0, 0.5]]

    def moved(rows):
        return arr(*(rows[:2] + [[rows[2][0], rows[2][1] + EPS]]))

    def set_adjacent(side):           # the properties are called adj_<side> / adj_<side>_same_direction
        def f(x, a, b, val_of):
            kw = val_of(b)
            setattr(x, "adj_" + side, kw["adjacent_" + side])
            setattr(x, "adj_%s_same_direction" % side, kw["adjacent_%s_same_direction" % side])
        return f
    add("Lanelet", Lanelet, [
        P("left_vertices", v1=arr(*left), v2=moved(left)), P("center_vertices", v1=arr(*center), v2=moved(center)),
        P("right_vertices", v1=arr(*right), v2=moved(right)), P("lanelet_id", v1=1, v2=2),
        P("predecessor", d=OMIT, v1=lambda: [10, 11], v2=lambda: [10, 12]),
        P("successor", d=OMIT, v1=lambda: [13, 14], v2=lambda: [13]),
        adjacent("left"), adjacent("right"),
        P("line_marking_left_vertices", d=OMIT, v1=LineMarking.SOLID, v2=LineMarking.DASHED),
        P("line_marking_right_vertices", d=OMIT, v1=LineMarking.SOLID, v2=LineMarking.DASHED),
        P("stop_line", d=OMIT, v1=stop_line, v2=lambda: stop_line(1)),
        enumset("lanelet_type", LaneletType), enumset("user_one_way", RoadUser),
        enumset("user_bidirectional", RoadUser),
        idset("traffic_signs"), idset("traffic_lights"), idset("adjacent_areas")],
        setters={"adjacent_left": set_adjacent("left"), "adjacent_right": set_adjacent("right")})
    add("TrafficSignElement", TrafficSignElement, [
        P("traffic_sign_element_id", v1=TrafficSignIDZamunda.MAX_SPEED, v2=TrafficSignIDZamunda.MIN_SPEED,
          v3=TrafficSignIDUsa.MAX_SPEED),              # same member name, other country enum (Zamunda is Germany)
        P("additional_values", d=OMIT, v1=lambda: ["10"], v2=lambda: ["20"])])
    add("TrafficSign", TrafficSign, [
        P("traffic_sign_id", v1=30, v2=31),
        P("traffic_sign_elements", v1=lambda: [sign_el()], v2=lambda: [sign_el(1)],
          v3=lambda: [sign_el(), TrafficSignElement(TrafficSignIDZamunda.MIN_SPEED, ["5"])]),
        idset("first_occurrence", default=False),
        P("position", v1=arr([0.0, 0.0]), v2=arr([0.0, EPS])), P("virtual", d=OMIT, v1=True)])
    add("TrafficLightCycleElement", TrafficLightCycleElement, [
        P("state", v1=TrafficLightState.RED, v2=TrafficLightState.GREEN), P("duration", v1=2, v2=3)])
    add("TrafficLightCycle", TrafficLightCycle, [
        P("cycle_elements", d=OMIT, v1=lambda: [cyc_el("RED", 2), cyc_el("GREEN", 3)],
          v2=lambda: [cyc_el("RED", 2), cyc_el("GREEN", 4)], v3=lambda: [cyc_el("GREEN", 3), cyc_el("RED", 2)]),
        P("time_offset", d=OMIT, v1=1, v2=2), P("active", d=OMIT, v1=False)])
    def set_cycle(x, a, b, val_of):   # v1 <-> v2: the cycle setter; v1 <-> v3: the `active` setter
        if a == "d":                      # built without cycle (stored active = False): the cycle setter keeps it
            x.traffic_light_cycle = val_of(b)["traffic_light_cycle"]
        elif "v3" in (a, b):
            x.active = (b != "v3")
        else:
            x.traffic_light_cycle = val_of(b)["traffic_light_cycle"]
    add("TrafficLight", TrafficLight, [
        P("traffic_light_id", v1=40, v2=41), P("position", v1=arr([0.0, 1.0]), v2=arr([EPS, 1.0])),
        # `active` only exists next to a non-empty cycle (without one the constructor forces it to False): joint group
        J("traffic_light_cycle", ["traffic_light_cycle", "active"], d=OMIT,
          v1=lambda: {"traffic_light_cycle": cycle()}, v2=lambda: {"traffic_light_cycle": cycle(1)},
          v3=lambda: {"traffic_light_cycle": cycle(), "active": False}),
        P("color", d=OMIT, v1=lambda: [TrafficLightState.RED, TrafficLightState.GREEN],
          v2=lambda: [TrafficLightState.RED, TrafficLightState.YELLOW]),
        P("direction", d=OMIT, v1=TrafficLightDirection.LEFT, v2=TrafficLightDirection.RIGHT),
        P("shape", d=OMIT, v1=rect, v2=lambda: rect(1))],
        setters={"traffic_light_cycle": set_cycle})
    add("IntersectionIncomingElement", IntersectionIncomingElement, [
        P("incoming_id", v1=1, v2=2), idset("incoming_lanelets"), idset("successors_right"),
        idset("successors_straight"), idset("successors_left"), P("left_of", d=OMIT, v1=5, v2=6)])
    add("Intersection", Intersection, [
        P("intersection_id", v1=50, v2=51),
        P("incomings", v1=lambda: [incoming(1), incoming(2)], v2=lambda: [incoming(1), incoming(2, 1)],
          v3=lambda: [incoming(1)]),
        idset("crossings")])
    add("AreaBorder", AreaBorder, [
        P("area_border_id", v1=1, v2=2),
        P("border_vertices", v1=arr([0.0, 0.0], [1.0, 0.0]), v2=arr([0.0, 0.0], [1.0, EPS])),
        P("adjacent", d=OMIT, v1=lambda: [3, 4], v2=lambda: [3, 5]),
        P("line_marking", d=OMIT, v1=LineMarking.SOLID, v2=LineMarking.DASHED)])
    add("Area", Area, [P("area_id", v1=60, v2=61),
                       P("border", d=OMIT, v1=lambda: [border(1), border(2)], v2=lambda: [border(1), border(2, 1)]),
                       enumset("area_types", AreaType)])
    add("MapInformation", MapInformation, [
        P("commonroad_version", d=OMIT, v1="2020a", v2="2022a"), P("map_id", d=OMIT, v1="DEU_Muc-1", v2="DEU_Muc-2"),
        P("date", v1=tm, v2=lambda: tm(1)), P("author", d=OMIT, v1="A", v2="B"),
        P("affiliation", d=OMIT, v1="A", v2="B"), P("source", d=OMIT, v1="A", v2="B"),
        P("licence_name", d=OMIT, v1="MIT", v2="BSD"), P("licence_text", d=OMIT, v1="t1", v2="t2")])

    def content(key, add_one, remove_one):
        """container content: "d" -> v through the public add_*, v -> "d" through the public remove_*"""
        def f(x, a, b, val_of):
            if a == "d":
                for o in val_of(b)[key]:
                    add_one(x, o)
            else:
                assert b == "d", (a, b)
                for o in val_of(a)[key]:
                    remove_one(x, o)
        return f

    def build_network(kw):
        content = {k: kw.pop(k, ()) for k in ("lanelets", "traffic_signs", "traffic_lights", "intersections", "areas")}
        n = LaneletNetwork(**kw)
        for la in content["lanelets"]:
            n.add_lanelet(la)
        for s in content["traffic_signs"]:
            n.add_traffic_sign(s, set())
        for tl in content["traffic_lights"]:
            n.add_traffic_light(tl, set())
        for x in content["intersections"]:
            n.add_intersection(x)
        for a in content["areas"]:
            n.add_area(a, set())
        return n
    add("LaneletNetwork", LaneletNetwork, [
        P("information", d=OMIT, v1=minfo, v2=lambda: minfo(1)),
        ("lanelets", [], dict(d=OMIT, v1=lambda: {"lanelets": [lanelet(1), lanelet(2, 1.0)]},
                              v2=lambda: {"lanelets": [lanelet(1), lanelet(2, 1.0, 1)]})),
        ("traffic_signs", [], dict(d=OMIT, v1=lambda: {"traffic_signs": [tsign(30)]},
                                   v2=lambda: {"traffic_signs": [tsign(30, 1)]})),
        ("traffic_lights", [], dict(d=OMIT, v1=lambda: {"traffic_lights": [tlight(40)]},
                                    v2=lambda: {"traffic_lights": [tlight(40, 1)]})),
        ("intersections", [], dict(d=OMIT, v1=lambda: {"intersections": [inter(50)]},
                                   v2=lambda: {"intersections": [inter(50, 1)]})),
        ("areas", [], dict(d=OMIT, v1=lambda: {"areas": [area(60)]}, v2=lambda: {"areas": [area(60, 1)]}))],
        build=build_network, setters={
            "lanelets": content("lanelets", lambda n, o: n.add_lanelet(o), lambda n, o: n.remove_lanelet(o.lanelet_id)),
            "traffic_signs": content("traffic_signs", lambda n, o: n.add_traffic_sign(o, set()),
                                     lambda n, o: n.remove_traffic_sign(o.traffic_sign_id)),
            "traffic_lights": content("traffic_lights", lambda n, o: n.add_traffic_light(o, set()),
                                      lambda n, o: n.remove_traffic_light(o.traffic_light_id)),
            "intersections": content("intersections", lambda n, o: n.add_intersection(o),
                                     lambda n, o: n.remove_intersection(o.intersection_id)),
            "areas": content("areas", lambda n, o: n.add_area(o, set()), lambda n, o: n.remove_area(o.area_id))})

    # =============================== planning =====================================================================
    add("GoalRegion", GoalRegion, [
        P("state_list", v1=lambda: [goal_state(), goal_state(1)], v2=lambda: [goal_state(), goal_state(2)],
          v3=lambda: [goal_state()]),
        P("lanelets_of_goal_position", d=OMIT, v1=lambda: {0: [1, 2], 1: [3]}, v1r=lambda: {1: [3], 0: [1, 2]},
          v2=lambda: {0: [1, 2], 1: [4]})])
    add("PlanningProblem", PlanningProblem, [P("planning_problem_id", v1=1, v2=2),
                                             P("initial_state", v1=ist, v2=lambda: ist(1)),
                                             P("goal_region", v1=goal, v2=lambda: goal(1))],
        setters={"goal_region": lambda x, a, b, val_of: setattr(x, "goal", val_of(b)["goal_region"])})
    add("PlanningProblemSet", PlanningProblemSet, [
        P("planning_problem_list", d=OMIT, v1=lambda: [pproblem(1), pproblem(2)],
          v2=lambda: [pproblem(1), pproblem(2, 1)], v3=lambda: [pproblem(1)])],
        # add_planning_problem only: {} -> {1} ("d" -> "v3") and {1} -> {1, 2} ("v3" -> "v1")
        setters={"planning_problem_list": lambda x, a, b, val_of: x.add_planning_problem(
            val_of(b)["planning_problem_list"][-1])})

    # =============================== scenario meta data, scenario =================================================
    ob, pi = "obstacle_behavior", "prediction_id"
    add("ScenarioID", ScenarioID, [
        P("cooperative", d=OMIT, v1=True), P("country_id", d=OMIT, v1="DEU", v2="USA"),
        P("map_name", d=OMIT, v1="Muc", v2="Lohmar"), P("map_id", d=OMIT, v1=2, v2=3),
        P("configuration_id", d=OMIT, v1=2, v2=3),     # None becomes 1 next to a behaviour: keep away from 1
        J("behavior", [ob, pi], d=OMIT, v1=lambda: {ob: "T", pi: 1}, v2=lambda: {ob: "T", pi: 2},
          v3=lambda: {ob: "S", pi: 1}, v4=lambda: {ob: "T", pi: [1, 2]}),
        P("scenario_version", d=OMIT, v1="2018b")])
    add("GeoTransformation", GeoTransformation, [
        P("geo_reference", d=OMIT, v1="+proj=utm +zone=32", v2="+proj=utm +zone=33"), real("x_translation", 1.0),
        real("y_translation", 2.0), real("z_rotation", 0.1), real("scaling", 1.5)])
    add("Environment", Environment, [
        P("time", d=OMIT, v1=tm, v2=lambda: tm(1)), P("time_of_day", d=OMIT, v1=TimeOfDay.NOON, v2=TimeOfDay.NIGHT),
        P("weather", d=OMIT, v1=Weather.CLEAR, v2=Weather.FOG),
        P("underground", d=OMIT, v1=Underground.DIRTY, v2=Underground.ICE)])
    add("Time", Time, [P("hours", v1=10, v2=11), P("minutes", v1=30, v2=31), P("day", d=OMIT, v1=1, v2=2),
                       P("month", d=OMIT, v1=2, v2=3), P("year", d=OMIT, v1=2020, v2=2021)])
    add("Location", Location, [
        P("geo_name_id", d=OMIT, v1=42, v2=43), real("gps_latitude", 48.0), real("gps_longitude", 11.0),
        P("geo_transformation", d=OMIT, v1=geo, v2=lambda: geo(1)), P("environment", d=OMIT, v1=env, v2=lambda: env(1))])

    def build_scenario(kw):
        net = kw.pop("lanelet_network", None)
        obstacles = kw.pop("obstacles", ())
        sc = Scenario(**kw)
        if net is not None:
            sc.add_objects(net)
        for o in obstacles:
            sc.add_objects(o)
        return sc
    a, b = enum_pair(Tag)
    c = [m for m in Tag if m not in (a, b)][0]
    add("Scenario", Scenario, [
        real("dt", 0.1, False), P("scenario_id", d=OMIT, v1=sid, v2=lambda: sid(1)),
        P("author", d=OMIT, v1="A", v2="B"),
        P("tags", d=OMIT, v1=lambda: set([a, b]), v1r=lambda: set([b, a]), v2=lambda: set([a, c])),
        P("affiliation", d=OMIT, v1="A", v2="B"), P("source", d=OMIT, v1="A", v2="B"),
        P("location", d=OMIT, v1=loc, v2=lambda: loc(1)),
        ("lanelet_network", [], dict(d=OMIT, v1=lambda: {"lanelet_network": network()},
                                     v2=lambda: {"lanelet_network": network(1)})),
        ("obstacles", [], dict(d=OMIT, v1=lambda: {"obstacles": [sobst(100), dobst(101)]},
                               v2=lambda: {"obstacles": [sobst(100), dobst(101, 1)]},
                               v3=lambda: {"obstacles": [sobst(100, 1), dobst(101)]}))],
        build=build_scenario, setters={
            "obstacles": content("obstacles", lambda sc, o: sc.add_objects(o),
                                 lambda sc, o: sc.remove_obstacle(sc.obstacle_by_id(o.obstacle_id)))})
    return T


def table():
    global _TABLE
    if _TABLE is None:
        use_repo()
        warnings.simplefilter("ignore")
        _TABLE = _build_table()
    return _TABLE


def build(cls, valuation, mot="id", moved=(), reverse=False):
    """gamma: (class, {group: token}, motion mark) -> a fresh real object built through the public constructor.
    The raw values of the groups in `moved` are produced under the motion mark (moved / 3-d) by the harness."""
    c = table()[cls]
    kw = {}
    for g, tok in (reversed(list(valuation.items())) if reverse else valuation.items()):   # keyword order
        _MOT[0] = mot if g in moved else "id"
        try:
            kw.update(c.groups[g][tok]())
        finally:
            _MOT[0] = "id"
    return c.build(kw)


ADV_INITIAL = ("initial_state", "initial_signal_state", "initial_center_lanelet_ids", "initial_shape_lanelet_ids")
ADV_HISTORY = ("history", "signal_history", "center_lanelet_ids_history", "shape_lanelet_ids_history")


def build_advanced(cls, xv, yv, n):
    """gamma of the descriptor [val = yv, adv = <<n, archived tokens of xv>>] (EqContract!AdvMark): a FRESH obstacle
    built through the constructor whose history lists are those of yv (= xv's) extended by the raw values of xv's
    initial groups ("d" = None) and cut to the last n entries (n = 0: not cut)."""
    c = table()[cls]
    kw = {}
    for g, tok in yv.items():
        kw.update(c.groups[g][tok]())
    for init, hist in zip(ADV_INITIAL, ADV_HISTORY):
        lst = list(kw.get(hist) or []) + [c.groups[init][xv[init]]().get(init)]
        kw[hist] = lst[-n:] if n else lst
    return c.build(kw)


def mutate(cls, x, xv, yv, mk, n=0):
    """apply the public in-place mutator that leads from valuation xv to yv; returns the object to look at
    (translate_rotate of shapes and states returns a new object instead of changing the receiver)"""
    import numpy as np
    if mk == "move":
        r = x.translate_rotate(np.array([TX, TY]), QUARTER)
        return x if r is None else r
    if mk == "flat":
        x.convert_to_2d()
        return x
    c = table()[cls]
    if mk == "adv":                        # arguments at "d" are left out, as is max_history_length for n = 0
        args = [c.groups["initial_state"][yv["initial_state"]]()["initial_state"]]
        kw = {}
        for g, name in zip(ADV_INITIAL[1:], ("current_signal_state", "current_center_lanelet_ids",
                                            "current_shape_lanelet_ids")):
            if yv[g] != "d":
                kw[name] = c.groups[g][yv[g]]()[g]
        if n:
            kw["max_history_length"] = n
        x.update_initial_state(*args, **kw)
        return x
    if mk == "upd":
        kw = c.groups["signal_series"][yv["signal_series"]]()
        x.update_prediction(c.groups["prediction"][yv["prediction"]]()["prediction"], **kw)
        return x
    (g,) = [h for h in xv if xv[h] != yv[h]]
    if g in c.setters:
        c.setters[g](x, xv[g], yv[g], lambda tok: c.groups[g][tok]())
    elif yv[g] == "d":                     # EqContract!SetNone: the setter takes None for "left out"
        for param in c.params_of[g]:
            setattr(x, param, None)
    else:
        for param, value in c.groups[g][yv[g]]().items():
            setattr(x, param, value)
    return x


def _lights(x):
    net = getattr(x, "lanelet_network", x)
    return net.traffic_lights


def _each_light(f):
    def g(x):
        for tl in _lights(x):
            f(tl)
    return g


# EqContract!RawMut: public setter calls that leave a state no constructor produces
RAW = {
    ("TrafficLight", "drop_cycle"): lambda x: setattr(x, "traffic_light_cycle", None),
    ("TrafficLight", "empty_cycle"): lambda x: setattr(x.traffic_light_cycle, "cycle_elements", []),
    ("TrafficLight", "none_cycle_elements"): lambda x: setattr(x.traffic_light_cycle, "cycle_elements", None),
    ("TrafficLight", "activate_without_cycle"): lambda x: setattr(x, "active", True),
    ("TrafficLightCycle", "none_cycle_elements"): lambda x: setattr(x, "cycle_elements", None),
    ("Lanelet", "flag_without_neighbour_left"): lambda x: setattr(x, "adj_left_same_direction", True),
    ("Lanelet", "flag_without_neighbour_right"): lambda x: setattr(x, "adj_right_same_direction", True),
    ("Lanelet", "drop_neighbour_left"): lambda x: setattr(x, "adj_left", None),
    ("Lanelet", "drop_neighbour_right"): lambda x: setattr(x, "adj_right", None),
    ("LaneletNetwork", "lights_drop_cycle"): _each_light(lambda tl: setattr(tl, "traffic_light_cycle", None)),
    ("LaneletNetwork", "lights_empty_cycle"): _each_light(lambda tl: setattr(tl.traffic_light_cycle, "cycle_elements", [])),
    ("Scenario", "lights_drop_cycle"): _each_light(lambda tl: setattr(tl, "traffic_light_cycle", None)),
    ("Scenario", "lights_empty_cycle"): _each_light(lambda tl: setattr(tl.traffic_light_cycle, "cycle_elements", [])),
}
GETTER = {"adjacent_left": "adj_left", "adjacent_left_same_direction": "adj_left_same_direction",
          "adjacent_right": "adj_right", "adjacent_right_same_direction": "adj_right_same_direction"}


def fresh_from_current(cls, x):
    """a fresh object built through the constructor from the CURRENT attribute values of x (public getters, deep
    copies); None for containers, whose content is not a constructor argument"""
    c = table()[cls]
    if any(not ps for ps in c.params_of.values()):
        return None
    kw = {p: copy.deepcopy(getattr(x, GETTER.get(p, p))) for ps in c.params_of.values() for p in ps}
    return c.build(kw)


def _render(sc):
    import matplotlib
    matplotlib.use("Agg")
    import matplotlib.pyplot as plt
    from commonroad.visualization.mp_renderer import MPRenderer
    fig = plt.figure(figsize=(2, 2))
    try:
        rnd = MPRenderer(ax=fig.gca())
        sc.draw(rnd)
        rnd.render()
    finally:
        plt.close(fig)


def _probe_state():
    import numpy as np
    from commonroad.scenario.state import KSState
    return KSState(time_step=12, position=np.array([1.0, 2.0]), orientation=0.5, velocity=3.0, steering_angle=0.0)


def _probe_trajectory():
    from commonroad.scenario.trajectory import Trajectory
    return Trajectory(12, [_probe_state()])


def _P():
    import numpy as np
    return np.array([1.0, 0.5])


def _each(items, f):
    for it in items:
        f(it)


# EqContract!Queries: the read-only public queries of the observed dimension (names as in the TLA+ table)
QUERY = {
    "str": lambda o: str(o), "repr": lambda o: repr(o), "hash": lambda o: hash(o),
    "shapely_object": lambda o: o.shapely_object, "contains_point": lambda o: o.contains_point(_P()),
    "vertices": lambda o: o.vertices, "center": lambda o: o.center,
    "get_state_at_time_step": lambda o: [o.get_state_at_time_step(t) for t in (0, 1, 7)],
    "cycle_init_timesteps": lambda o: o.cycle_init_timesteps,
    "distance": lambda o: o.distance, "inner_distance": lambda o: o.inner_distance, "polygon": lambda o: o.polygon,
    "interpolate_position": lambda o: o.interpolate_position(0.5),
    "orientation_by_position": lambda o: o.orientation_by_position(_P()),
    "find_lanelet_by_position": lambda o: o.find_lanelet_by_position([_P()]),
    "lanelet_polygons": lambda o: o.lanelet_polygons,
    "map_inc_lanelets_to_intersections": lambda o: o.map_inc_lanelets_to_intersections,
    "lanelets_in_proximity": lambda o: o.lanelets_in_proximity(_P(), 5.0),
    "light_states": lambda o: _each(_lights(o), lambda tl: tl.get_state_at_time_step(3)),
    "occupancy_at_time": lambda o: [o.occupancy_at_time(t) for t in (0, 1, 2)],
    "state_at_time": lambda o: [o.state_at_time(t) for t in (0, 1, 2)],
    "state_at_time_step": lambda o: [o.state_at_time_step(t) for t in (1, 2)],
    "final_state": lambda o: o.final_state,
    "occupancy_set": lambda o: o.occupancy_set,
    "occupancy_at_time_step": lambda o: [o.occupancy_at_time_step(t) for t in (1, 2)],
    "is_reached": lambda o: o.is_reached(_probe_state()),
    "goal_reached": lambda o: o.goal_reached(_probe_trajectory()),
    "occupancies_at_time_step": lambda o: [o.occupancies_at_time_step(t) for t in (0, 1)],
    "obstacle_states_at_time_step": lambda o: o.obstacle_states_at_time_step(1),
    "render": _render,
}


def _observe(o, names):
    """run the queries; what they return or raise is not the business of C12"""
    ran = []
    for q in names:
        try:
            QUERY[q](o)
        except Exception:
            pass
        ran.append(q)
    return ran


def _execute_observed(case):
    cls, xv, who, names = case["cls"], case["x"], case["mk"], sorted(case["queries"])
    x, y = build(cls, xv), build(cls, xv)
    ctl = _b(lambda: x == y)
    c0 = copy.deepcopy(x)
    ran = _observe(x, names)
    if who == "both":
        _observe(y, names)
    c1 = copy.deepcopy(x)
    hx, vx = _h(x)
    hy, vy = _h(y)
    same = lambda o: int(hx == "ok" and _h(o) == ("ok", vx))   # noqa: E731
    return {"ev": [{"op": "obs", "cls": cls, "x": xv, "kind": "observe", "who": who, "queries": ran, "ctl": ctl,
                    "eq_xy": _b(lambda: x == y), "eq_yx": _b(lambda: y == x), "ne_xy": _b(lambda: x != y),
                    "eq_xc0": _b(lambda: x == c0), "eq_c0x": _b(lambda: c0 == x),
                    "eq_xc1": _b(lambda: x == c1), "eq_c1x": _b(lambda: c1 == x),
                    "hash_x": hx, "hash_y": hy, "heq_y": int(hx == "ok" and hy == "ok" and vx == vy),
                    "heq_c0": same(c0), "heq_c1": same(c1),
                    "sig": "%s.%s" % (cls, case["grp"])}]}


def _execute_raw(case):
    cls, xv, name = case["cls"], case["x"], case["grp"]
    x = build(cls, xv)
    if case["warm"]:
        twin = build(cls, xv)
        _b(lambda: x == twin)
        _b(lambda: twin == x)
        _h(x)
    try:
        RAW[(cls, name)](x)
        res = "ok"
    except Exception as ex:
        res = "exc:" + type(ex).__name__
    old = build(cls, xv)
    c = copy.deepcopy(x)
    try:
        z = fresh_from_current(cls, x)
    except Exception:
        z = None
    hx, vx = _h(x)
    hc, vc = _h(c)
    hz, vz = _h(z) if z is not None else ("none", None)
    ho, vo = _h(old)
    same = lambda a, va, b, vb: int(a == "ok" and b == "ok" and va == vb)   # noqa: E731
    return {"ev": [{"op": "raw", "cls": cls, "x": xv, "kind": "mutate", "mk": "raw", "mut": name,
                    "warm": case["warm"], "mut_res": res,
                    "refl": _b(lambda: x == x), "refl_ne": _b(lambda: x != x),
                    "copy_xy": _b(lambda: x == c), "copy_yx": _b(lambda: c == x),
                    "z": int(z is not None),
                    "eq_xz": _b(lambda: x == z) if z is not None else 0,
                    "eq_zx": _b(lambda: z == x) if z is not None else 0,
                    "eq_xo": _b(lambda: x == old), "eq_ox": _b(lambda: old == x),
                    "hash_x": hx, "hash_c": hc, "hash_z": hz, "hash_old": ho,
                    "heq_c": same(hx, vx, hc, vc), "heq_z": same(hx, vx, hz, vz), "heq_o": same(hx, vx, ho, vo),
                    "sig": "%s.%s%s" % (cls, name, "" if case["warm"] else "@cold")}]}


# ---- keeping the TLA+ table and the Python table in sync -----------------------------------------------------------
def spec_table(out):
    for p in tlc.printed_tuples(out, "TABLE"):
        return {e["cls"]: {g["g"]: list(g["toks"]) for g in e["groups"]} for e in json.loads(tlc.tla_unquote(p))}
    raise tlc.MachineryError("class table not printed by MC_EqContract:\n" + out[-2000:])


def spec_json(out, head):
    for p in tlc.printed_tuples(out, head):
        return json.loads(tlc.tla_unquote(p))
    raise tlc.MachineryError("%s not printed by MC_EqContract:\n%s" % (head, out[-2000:]))


def check_mutators(motion, setters, ctx):
    """the mutators the TLA+ table names must exist on the real classes (else: update the table)"""
    py = table()
    for cname, e in sorted(py.items()):
        for mk, meth in (("move", "translate_rotate"), ("flat", "convert_to_2d")):
            named, has = mk in motion[cname]["has"], callable(getattr(e.ctor, meth, None))
            if named and not has:
                raise tlc.MachineryError("EqContract!%s names %s.%s, which does not exist" %
                                         ("Moved" if mk == "move" else "Flat", cname, meth))
            if has and not named and not (cname == "Scenario" and mk == "flat"):
                ctx.notes.append("SPEC-DRIFT %s: public mutator %s is not in EqContract!%s" %
                                 (cname, meth, "Moved" if mk == "move" else "Flat"))
        for g, pairs in setters[cname].items():
            if not pairs or g in e.setters:
                continue
            x = build(cname, {h: "v1" for h in e.groups})
            for p in e.params_of[g]:
                prop = getattr(e.ctor, p, None)
                if isinstance(prop, property) and prop.fset is None or (prop is None and not hasattr(x, p)
                                                                        and not e.sig_params is None):
                    raise tlc.MachineryError("EqContract!SetPairs promises a setter for %s.%s, which does not exist"
                                             % (cname, p))


def check_sync(spec, ctx):
    py = table()
    mine = {c: {g: sorted(t) for g, t in e.groups.items()} for c, e in py.items()}
    theirs = {c: {g: sorted(t) for g, t in gs.items()} for c, gs in spec.items()}
    if mine != theirs:
        diff = []
        for c in sorted(set(mine) | set(theirs)):
            if mine.get(c) != theirs.get(c):
                diff.append("%s: python=%r tla=%r" % (c, mine.get(c), theirs.get(c)))
        raise tlc.MachineryError("EqContract!ClassTable and crv/props/c12.py disagree on (class, group, token):\n  "
                                 + "\n  ".join(diff[:10]))
    # constructor drift: parameters of the real constructors vs. the parameters the groups stand for
    for cname, e in sorted(py.items()):
        if e.sig_params is None:
            continue
        real_params = list(e.sig_params())
        have = [p for g in e.params_of for p in e.params_of[g]]
        for p in real_params:
            if p not in have:
                ctx.notes.append("SPEC-DRIFT %s: constructor parameter %r is not in the class table "
                                 "(add a group to EqContract!ClassTable and crv/props/c12.py)" % (cname, p))
        for p in have:
            if p not in real_params:
                ctx.notes.append("SPEC-DRIFT %s: class table names parameter %r which the constructor no longer has"
                                 % (cname, p))
    a, b = list(set([0, 8])), list(set([8, 0]))
    if a == b:
        ctx.notes.append("SPEC-DRIFT interpreter: set([0, 8]) and set([8, 0]) iterate alike; insertion-order "
                         "variants of id sets are vacuous on this interpreter")


# ---- driver interface ------------------------------------------------------------------------------------------------
def model_check(ctx):
    ctx.mc("MC_EqContract", "MC_EqContract2.cfg" if ctx.thorough else "MC_EqContract.cfg", coverage=True)
    # design in which only setters drop the cached comparison key (seeded change C12-2): TLC must find the
    # warm object that answers with the key of its old position
    ctx.mc_expect("MC_EqContract", "DEV_EqContract_1.cfg", "InvCurrent")
    # design in which == compares the whole instance dictionary (seeded change C12-6): a queried object differs
    # from its never-queried twin
    ctx.mc_expect("MC_EqContract", "DEV_EqContract_2.cfg", "InvObserved")


def cases(ctx):
    cfg = "GEN_EqContract2.cfg" if ctx.thorough else "GEN_EqContract.cfg"
    cs, r = tlc.generate("MC_EqContract", cfg, "%s_%s" % (ctx.prop, cfg.replace(".cfg", "")))
    ctx.mc_runs.append({"module": "MC_EqContract", "cfg": cfg, "distinct_states": r["distinct"],
                        "states_generated": r["generated"], "depth": r["depth"], "wall_s": r["wall_s"],
                        "verdict": "generated %d cases" % len(cs)})
    spec = spec_table(r["out"])
    check_sync(spec, ctx)
    motion, setters = spec_json(r["out"], "MOTION"), spec_json(r["out"], "SETTERS")
    check_mutators(motion, setters, ctx)
    raw = {(c, m[0]) for c, ms in spec_json(r["out"], "RAW").items() for m in ms}
    named = {q for qs in spec_json(r["out"], "QUERIES").values() for q in qs}
    if named != set(QUERY):
        raise tlc.MachineryError("EqContract!Queries and crv/props/c12.py!QUERY disagree: %r" % sorted(named ^ set(QUERY)))
    if raw != set(RAW):
        raise tlc.MachineryError("EqContract!RawMut and crv/props/c12.py!RAW disagree: %r" % sorted(raw ^ set(RAW)))
    cs += _random_mutations(spec, motion, setters, ctx.rng, 10000 if ctx.thorough else 1000)
    for c in cs:
        if c["kind"] == "mutate":
            c["moved"] = sorted(motion[c["cls"]][c["mk"]]) if c["mk"] in ("move", "flat") else []
    cs += _random_cases(spec, ctx.rng, 15000 if ctx.thorough else 1500)
    seen = set()
    for c in cs:
        key = (c["cls"], tuple(sorted(c["y"].items())))
        if c["kind"] in ("mutate", "observe"):
            c["node"] = 0
            continue
        c["node"] = 0 if key in seen else 1          # node tests once per distinct valuation
        seen.add(key)
    ctx.extra["classes"] = len(spec)
    ctx.extra["groups"] = sum(len(g) for g in spec.values())
    ctx.extra["tokens"] = sum(len(t) for g in spec.values() for t in g.values())
    ctx.extra["distinct_valuations"] = len(seen)
    ctx.extra["mutation_cases"] = {mk: sum(1 for c in cs if c["kind"] == "mutate" and c["mk"] == mk)
                                   for mk in ("set", "move", "flat", "adv", "upd", "raw")}
    ctx.extra["observed_cases"] = sum(1 for c in cs if c["kind"] == "observe")
    ctx.extra["mutators"] = len({(c["cls"], c["grp"]) for c in cs if c["kind"] == "mutate"})
    return cs


def _canon(tok):
    """Python's reading of EqContract!Canon - only used to PROPOSE random edges; Trace_EqContract!Shape re-checks
    every event with the real Canon and turns a wrong proposal into a machinery failure."""
    return "d" if tok == "de" else tok[:-1] if tok.endswith("r") else tok


def _random_cases(spec, rng, n):
    """edges between arbitrary valuations (not only seeds): random x, one group perturbed / re-ordered"""
    out, names = [], sorted(spec)
    for _ in range(n):
        cls = rng.choice(names)
        groups = spec[cls]
        x = {g: rng.choice(toks) for g, toks in groups.items()}
        for kind in (rng.choice(["perturb", "perturb", "perturb", "reorder"]), "perturb"):
            cand = [(g, t) for g, toks in groups.items() for t in toks
                    if t != x[g] and (_canon(t) == _canon(x[g])) == (kind == "reorder")]
            if cand:
                break
        g, t = rng.choice(cand)
        y = dict(x)
        y[g] = t
        out.append({"cls": cls, "x": x, "y": y, "kind": kind, "grp": g, "seed": "random", "depth": 0})
    return out


def _random_mutations(spec, motion, setters, rng, n):
    """history cases from arbitrary valuations (TLC: from the seeds / depth-1 nodes)"""
    out, names = [], sorted(spec)
    while len(out) < n:
        cls = "DynamicObstacle" if rng.random() < 0.15 else rng.choice(names)      # the class with a history
        x = {g: rng.choice(toks) for g, toks in spec[cls].items()}
        if cls == "DynamicObstacle" and rng.random() < 0.7:
            # advancing is defined for parallel history lists (EqContract!Parallel): give most obstacles such lists
            tok = rng.choice(["d", "de", "v1", "v2", "v3"])
            for h in ADV_HISTORY:
                x[h] = tok if h == "history" or tok != "v1" else rng.choice(["v1", "v1", "v4"])
        cand = [("set", g, b, name) for g in x for (a, b, name) in setters[cls][g] if a == x[g]]
        for mk, name in (("move", "translate_rotate"), ("flat", "convert_to_2d")):
            blocked = mk == "move" and motion[cls]["blocked"] and all(x[g] != "d" for g in motion[cls]["blocked"])
            if any(x[g] != "d" or g in motion[cls]["always"] for g in motion[cls][mk]) and not blocked:
                cand += [(mk, None, None, name)] * 3
        if cls == "DynamicObstacle":
            cand += [("upd", None, None, "update_prediction")] * 10
            if len({{"d": 0, "de": 0, "v3": 1}.get(x[h], 2) for h in ADV_HISTORY}) == 1:
                cand += [("adv", None, None, "update_initial_state")] * 40
        if not cand:
            continue
        mk, g, b, name = rng.choice(cand)
        y, hl = dict(x), 0          # hl: max_history_length of update_initial_state (0 = left out)
        if mk == "set":
            y[g] = b
        elif mk == "adv":
            y.update(initial_state="v2" if x["initial_state"] == "v1" else "v1", prediction="d", signal_series="d")
            for h in ADV_INITIAL[1:]:
                y[h] = rng.choice(["d", "v1", "v2"])
            hl = rng.choice([0, 1, 2, 2])
        elif mk == "upd":
            y.update(prediction=rng.choice(["v1", "v2", "v3"]), signal_series=rng.choice(["d", "v1", "v2"]))
            if _canon(y["prediction"]) == _canon(x["prediction"]) and _canon(y["signal_series"]) == _canon(x["signal_series"]):
                continue
        out.append({"cls": cls, "x": x, "y": y, "kind": "mutate", "grp": name, "seed": "random", "depth": 0,
                    "mk": mk, "warm": rng.randint(0, 1), "n": hl})
    return out


def nontrivial(case):
    if case["kind"] in ("mutate", "observe"):
        return (case["cls"], tuple(sorted(case["x"].items())), tuple(sorted(case["y"].items())), case["grp"],
                case["warm"])
    if case["x"] == case["y"]:
        return None
    return (case["cls"], tuple(sorted(case["x"].items())), tuple(sorted(case["y"].items())), case["kind"])


def _b(f):
    """result of a comparison as 0 / 1, 2 = it raised or did not return a truth value"""
    try:
        r = f()
        if isinstance(r, bool):
            return int(r)
        return int(bool(r))
    except Exception:
        return 2


def _h(o):
    try:
        return "ok", hash(o)
    except Exception as ex:
        return "exc:" + type(ex).__name__, None


def _event(cls, xv, yv, kind, x, y, sig, root=0, ctl=None):
    hx, vx = _h(x)
    hy, vy = _h(y)
    return {"op": "eq", "cls": cls, "x": xv, "y": yv, "kind": kind, "root": root,
            "ctl": _b(lambda: x == y) if ctl is None else ctl,   # control: x == an independent rebuild of x
            "eq_xy": _b(lambda: x == y), "eq_yx": _b(lambda: y == x), "ne_xy": _b(lambda: x != y),
            "hash_x": hx, "hash_y": hy, "hash_equal": int(hx == "ok" and hy == "ok" and vx == vy), "sig": sig}


def _execute_mutation(case):
    """x built at valuation A -> (warm: compared and hashed once) -> changed in place by the public mutator ->
    compared with FRESH objects built from the raw values of B and of A (the harness moves raw values itself)."""
    cls, xv, yv, mk, moved = case["cls"], case["x"], case["y"], case["mk"], case.get("moved", [])
    n = case.get("n", 0)
    before, after = ("z3" if mk == "flat" else "id"), ("m1" if mk == "move" else "id")
    x = build(cls, xv, before, moved)
    if case["warm"]:
        twin = build(cls, xv, before, moved)      # an EQUAL object: the comparison runs through every attribute
        _b(lambda: x == twin)
        _b(lambda: twin == x)
        _h(x)
    try:
        x = mutate(cls, x, xv, yv, mk, n)
        res = "ok"
    except Exception as ex:
        res = "exc:" + type(ex).__name__
    y = build_advanced(cls, xv, yv, n) if mk == "adv" else build(cls, yv, after, moved)
    old = build(cls, xv, before, moved)
    hx, vx = _h(x)
    hy, vy = _h(y)
    return {"ev": [{"op": "mut", "cls": cls, "x": xv, "y": yv, "kind": "mutate", "mk": mk, "mut": case["grp"],
                    "warm": case["warm"], "mut_res": res, "n": n,
                    "eq_xy": _b(lambda: x == y), "eq_yx": _b(lambda: y == x), "ne_xy": _b(lambda: x != y),
                    "stale_eq": _b(lambda: x == old),
                    "hash_x": hx, "hash_y": hy, "hash_equal": int(hx == "ok" and hy == "ok" and vx == vy),
                    "hash_old": _h(old)[0],        # a fresh object with the OLD values: could it be hashed?
                    "sig": "%s.%s%s" % (cls, case["grp"], "" if case["warm"] else "@cold")}]}


def execute(case):
    use_repo()
    warnings.simplefilter("ignore")
    if case["kind"] == "observe":
        return _execute_observed(case)
    if case["kind"] == "mutate":
        return _execute_raw(case) if case["mk"] == "raw" else _execute_mutation(case)
    cls, xv, yv, kind = case["cls"], case["x"], case["y"], case["kind"]
    sig = "%s.%s" % (cls, case["grp"])
    ev = []
    y = build(cls, yv)
    if kind != "node":
        x = build(cls, xv)
        x2 = build(cls, xv)
        ev.append(_event(cls, xv, yv, kind, x, y, sig, ctl=_b(lambda: x == x2)))
    if case.get("node", 1):
        root = 1 if kind == "node" else 0
        ev.append(_event(cls, yv, yv, "node", y, y, sig, root))
        ev.append(_event(cls, yv, yv, "copy", y, copy.deepcopy(y), cls + ".@deepcopy"))
        # independent rebuild, keyword arguments in reverse order (matters for **kwargs constructors: CustomState)
        ev.append(_event(cls, yv, yv, "copy", y, build(cls, yv, reverse=True), cls + ".@rebuild"))
    return {"ev": ev}


def corrupt(trace, rng):
    """Flip one logged observation; the trace spec must reject exactly that event."""
    i = rng.randrange(len(trace["ev"]))
    e = trace["ev"][i]
    if e["op"] == "obs":
        if e["ctl"] != 1:
            return None
        e[rng.choice(["eq_xy", "eq_yx", "eq_xc0", "eq_c1x"])] = rng.choice([0, 2])   # unequal / raising after a query
        return trace
    if e["op"] == "raw":
        e[rng.choice(["refl", "copy_xy", "copy_yx"])] = 0      # no longer equal to itself / its deep copy
        return trace
    if e["op"] == "mut":
        how = rng.choice(["stale", "fresh", "hash"])
        if how == "stale":
            e["stale_eq"] = 1                  # still equal to an object with the old values
        elif how == "fresh":
            e["eq_xy"] = 0                     # not equal to a fresh object with the current values
        else:
            if e["hash_x"] != "ok" or e["hash_y"] != "ok":
                return None
            e["hash_equal"] = 0
        return trace
    how = rng.choice(["eq", "ne", "hash"])
    if how == "eq":
        e["eq_xy"] = 1 - e["eq_xy"] if e["eq_xy"] in (0, 1) else 0     # breaks symmetry (and sensitivity / equality)
    elif how == "ne":
        e["ne_xy"] = 1 - e["ne_xy"] if e["ne_xy"] in (0, 1) else 0     # != no longer the negation of ==
    else:
        if e["hash_x"] != "ok" or e["hash_y"] != "ok":
            return None
        e["hash_y"] = "exc:TypeError"                                  # a hash that crashes on y only
        e["hash_equal"] = 0
    return trace
