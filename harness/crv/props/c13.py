"""C13 - benchmark ids print and parse consistently (spec: BenchmarkId.tla).

The driver never judges: it builds the real objects from the field records, records what the real code printed /
parsed (texts as token sequences, ids as field records) and leaves every comparison to Trace_BenchmarkId.tla.
"""
import re

from crv.core import use_repo

PROPERTY = "C13"
MODULES = ["BenchmarkId", "MC_BenchmarkId", "Trace_BenchmarkId"]
TRACE = ("Trace_BenchmarkId", "Trace_BenchmarkId.cfg")
EXHAUSTIVE = True
RULE = ("TLC enumerates every valid ScenarioID field combination of cooperative x {ZAM,DEU,USA,CHN} x "
        "{Test,US101,A9,x1Y} x map id {1,33} x configuration {None,1,12} x behaviour {None,S,T,P,I} x prediction "
        "{None,1,7,[1],[1,2],[3,1,2]} (4800 after the constructor's validity rules) and checks the grammar / parse / "
        "reprint laws on the specification; solution ids: all 140 supported (model, type, cost) triples, all lists of "
        "<= 2 (quick) / <= 3 (thorough) of them over 4 scenario ids. Executed on the real code: all 4800 ids, all "
        "single-vehicle solution ids, cooperative lists with at most one triple outside 5 representatives, plus "
        "seeded random ids (any ISO-3166 alpha-3 code of the library's table, map names of 1..24 alphanumerics "
        "including all-digit / 'C' / country-like names, numbers up to 2^31-1, prediction lists of 1..6, both format "
        "versions) and random solutions of 1..5 vehicles. History dimension: for every id of the scope, SetField "
        "assigns one public field (cooperative, country_id, map_name, map_id, configuration_id, obstacle_behavior, "
        "prediction_id, scenario_version) another value of the scope where the result is a valid id (checked on the "
        "spec from the ids of one map x {ZAM,DEU}: 4.9k transitions, thorough: from all ids, 78k; the 4.9k and seeded "
        "random ones are executed: "
        "construct, print once via str() resp. Solution.benchmark_id, assign, then print / parse / compare / "
        "write+read a solution again; and parse - mutate - parse: the text of the id is parsed, the same field of the "
        "returned object is assigned, the text is parsed again (ScenarioID.from_benchmark_id, "
        "CommonRoadSolutionReader.fromstring twice, and for a slice a scenario file read twice with convert_to_2d in "
        "between): the second result must have the fields of the text, equal a freshly built id, print as the text "
        "and be a new object). Rejected assignments: every public field of an id is assigned invalid values of several "
        "kinds (country 'Germany', 'deu', 'DE', '', 'XXX', 'ZAMM', 276; map name None / 5; numbers 0, negative, None; "
        "behaviour 'X', 't'; prediction 0, [1,0], []; cooperative 'yes'; version '2019x'); when the assignment raises, "
        "the id must equal a copy taken before, have the same fields, print identically and still round-trip, also "
        "inside a Solution (and for the raising cost_function / vehicle_model setters of a PlanningProblemSolution); "
        "an invalid value that is silently accepted is outside the statement (no verdict). Planning problems: Reorder gives cooperative lists every injective list of "
        "planning problem ids over {3,7,12} (non-ascending, 12 before 3); random solutions use random distinct ids in "
        "random order; the printed lists must be positional w.r.t. Solution.planning_problem_ids and the written "
        "trajectory nodes, and after write -> read every planning problem id keeps its (model, type, cost). "
        "distinct_nontrivial = distinct executed cases that are "
        "not a plain map id (scenario ids) resp. distinct solution cases.")
ASSUMPTIONS = [
    "texts are compared as token sequences; the tokeniser (maximal alphanumeric runs classified as num / up3 / word, "
    "every other character a separator token) is injective, so equal token sequences mean equal strings",
    "the int and the list spelling of one prediction id denote the same abstract id (statement: 'one or several "
    "prediction ids'); parsed-back fields are compared as sequences, equality is the library's own ==",
    "map names are non-empty ASCII alphanumerics, numbers are Python ints in 1..2^31-1, cooperative is a bool "
    "(the statement's quantifier); country_id=None, empty prediction lists and non-alphanumeric names are not driven",
    "solution documents are written by CommonRoadSolutionWriter with one minimal state per trajectory and read back by "
    "CommonRoadSolutionReader.fromstring (route 'reader'); the same id is also parsed with _parse_benchmark_id / "
    "_parse_vehicle_id (route 'direct') so that a failure of the trajectory reader does not hide the id parser",
    "assignments use the value the field has in a second id built through the constructor (so the constructor's "
    "normal form of that value), one field per case, and only where the resulting object is a valid id with nothing "
    "left to default; a raw one-element list assigned to prediction_id is not driven",
    "expected tokens / fields are computed by TLC from BenchmarkId.tla (PrintId, Normalize, PrintSol), never in Python",
]

_NUM = re.compile(r"[1-9][0-9]*")
_UP3 = re.compile(r"[A-Z]{3}")
_ALNUM = "abcdefghijklmnopqrstuvwxyzABCDEFGHIJKLMNOPQRSTUVWXYZ0123456789"
_MODELS = ["PM", "ST", "KS", "MB", "KST"]
_COSTS = ["JB1", "SA1", "WX1", "SM1", "SM2", "SM3", "MW1", "TR1"]


# ---------------------------------------------------------------- projection: text -> tokens
def _word_tok(w):
    if _NUM.fullmatch(w) and int(w) < 2 ** 31:
        return {"k": "num", "s": "", "n": int(w)}
    if _UP3.fullmatch(w):
        return {"k": "up3", "s": w, "n": 0}
    return {"k": "word", "s": w, "n": 0}


def _is_alnum(ch):
    return ch.isascii() and ch.isalnum()


def tokens(s):
    out, i = [], 0
    while i < len(s):
        if _is_alnum(s[i]):
            j = i
            while j < len(s) and _is_alnum(s[j]):
                j += 1
            out.append(_word_tok(s[i:j]))
            i = j
        else:
            out.append({"k": "sep", "s": s[i], "n": 0})
            i += 1
    return out


def _tok_text(t):
    return str(t["n"]) if t["k"] == "num" else t["s"]


# ---------------------------------------------------------------- gamma / alpha for ScenarioID
def _mk_id(f, pk):
    from commonroad.scenario.scenario import ScenarioID
    pred = None if pk == "none" else (f["pred"][0] if pk == "int" else list(f["pred"]))
    return ScenarioID(cooperative=bool(f["coop"]), country_id=f["country"], map_name=_tok_text(f["map"]),
                      map_id=f["map_id"], configuration_id=f["config"][0] if f["config"] else None,
                      obstacle_behavior=None if f["beh"] == "None" else f["beh"], prediction_id=pred,
                      scenario_version=f["ver"])


def _int(x):
    return x if isinstance(x, int) and not isinstance(x, bool) and 0 <= x < 2 ** 31 else -1


def _fields(sid):
    p = sid.prediction_id
    pred = [] if p is None else ([_int(x) for x in p] if isinstance(p, (list, tuple)) else [_int(p)])
    return {"coop": 1 if sid.cooperative else 0, "country": str(sid.country_id), "map": _word_tok(str(sid.map_name)),
            "map_id": _int(sid.map_id), "config": [] if sid.configuration_id is None else [_int(sid.configuration_id)],
            "beh": "None" if sid.obstacle_behavior is None else str(sid.obstacle_behavior), "pred": pred,
            "ver": str(sid.scenario_version)}


_NOF = {"coop": 0, "country": "", "map": {"k": "word", "s": "", "n": 0}, "map_id": 0, "config": [], "beh": "None",
        "pred": [], "ver": ""}


def _exc(ex):
    return "exc:" + type(ex).__name__


def _eq(a, b):
    return 1 if (a == b) is True else 0


def id_sig(f, pk):
    if f["beh"] == "None":
        return "scenario_id/" + ("config-only" if f["config"] else "map-only")
    if pk == "none":
        s = "pred-default"
    elif pk == "int":
        s = "pred-int"
    else:
        s = "pred-list-1" if len(f["pred"]) == 1 else "pred-list-n"
    return "scenario_id/" + s + ("" if f["config"] else "+no-config")


def _exec_id(case):
    from commonroad.scenario.scenario import ScenarioID
    f, pk = case["f"], case["pk"]
    sig = id_sig(f, pk)
    ev = []
    try:
        sid = _mk_id(f, pk)
        ev.append({"op": "construct", "sig": sig, "f": f, "pk": pk, "res": "ok"})
    except Exception as ex:
        ev.append({"op": "construct", "sig": sig, "f": f, "pk": pk, "res": _exc(ex)})
        return ev
    try:
        text = str(sid)
        toks = tokens(text)
        ev.append({"op": "print", "sig": sig, "f": f, "pk": pk, "toks": toks, "res": "ok"})
    except Exception as ex:
        ev.append({"op": "print", "sig": sig, "f": f, "pk": pk, "toks": [], "res": _exc(ex)})
        return ev
    ev.append({"op": "grammar", "sig": sig, "toks": toks,
               "lib": 1 if ScenarioID.benchmark_id_pattern.fullmatch(text) is not None else 0})
    try:
        back = ScenarioID.from_benchmark_id(text, sid.scenario_version)
        ev.append({"op": "parse", "sig": sig, "f": f, "pk": pk, "toks": toks, "pf": _fields(back),
                   "ppk": _pk_of(back), "res": "ok"})
    except Exception as ex:
        ev.append({"op": "parse", "sig": sig, "f": f, "pk": pk, "toks": toks, "pf": _NOF, "ppk": "none",
                   "res": _exc(ex)})
        return ev
    try:
        ev.append({"op": "eq", "sig": sig, "f": f, "pk": pk, "ppk": _pk_of(back), "eq_op": _eq(sid, back),
                   "eq_po": _eq(back, sid), "res": "ok"})
    except Exception as ex:
        ev.append({"op": "eq", "sig": sig, "f": f, "pk": pk, "ppk": _pk_of(back), "eq_op": 0, "eq_po": 0,
                   "res": _exc(ex)})
    try:
        ev.append({"op": "reprint", "sig": sig, "toks": toks, "retoks": tokens(str(back)), "res": "ok"})
    except Exception as ex:
        ev.append({"op": "reprint", "sig": sig, "toks": toks, "retoks": [], "res": _exc(ex)})
    return ev


def _pk_of(sid):
    p = sid.prediction_id
    return "none" if p is None else ("list" if isinstance(p, (list, tuple)) else "int")


# ---------------------------------------------------------------- solutions
_TRAJ = {}


def _traj(model):
    """One minimal state of the model's own state type (fresh objects are not needed: never mutated)."""
    if model not in _TRAJ:
        import numpy as np
        from commonroad.common.solution import StateFields
        from commonroad.scenario import state as st
        from commonroad.scenario.trajectory import Trajectory
        cls = {"PM": st.PMState, "ST": st.STState, "KS": st.KSState, "MB": st.MBState, "KST": st.KSTState}[model]
        kw = {a: (np.array([0.0, 0.0]) if a == "position" else 0 if a == "time_step" else 0.0)
              for a in StateFields[model].value}
        _TRAJ[model] = Trajectory(0, [cls(**kw)])
    return _TRAJ[model]


def sol_sig(vs, pp=None):
    n = len(vs)
    return "solution/" + ("single" if n == 1 else "cooperative-%d" % n if n <= 3 else "cooperative-4+") + \
        ("+pp-unsorted" if pp is not None and list(pp) != sorted(pp) else "")


def _sol_fields(sol):
    vs = [{"m": str(p.vehicle_model.name), "t": _int(p.vehicle_type.value)} for p in sol.planning_problem_solutions]
    cs = [str(p.cost_function.name) for p in sol.planning_problem_solutions]
    return vs, cs, sol.scenario_id


def _assoc(sol):
    return [{"pp": _int(p.planning_problem_id), "m": str(p.vehicle_model.name), "t": _int(p.vehicle_type.value),
             "c": str(p.cost_function.name)} for p in sol.planning_problem_solutions]


def _doc_nodes(xml):
    """Projection of a written document: the planningProblem attribute of every trajectory node, in document order."""
    import xml.etree.ElementTree as et
    return [_int(int(n.get("planningProblem"))) for n in et.fromstring(xml)]


def _exec_sol(case):
    from commonroad.common.solution import (CommonRoadSolutionReader, CommonRoadSolutionWriter, CostFunction,
                                            PlanningProblemSolution, Solution, VehicleModel, VehicleType)
    f, pk = case["f"], case["pk"]
    vs = [{"m": x["m"], "t": x["t"]} for x in case["vs"]]
    cs = [x["c"] for x in case["vs"]]
    pp = list(case.get("pp") or range(1, len(vs) + 1))     # planning problem ids, in the order the solutions are passed
    base = {"vs": vs, "cs": cs, "pp": pp, "f": f, "pk": pk}
    sig = sol_sig(vs, pp)
    ev = []
    try:
        sid = _mk_id(f, pk)
        pps = [PlanningProblemSolution(pp[i], VehicleModel[x["m"]], VehicleType(x["t"]), CostFunction[x["c"]],
                                       _traj(x["m"])) for i, x in enumerate(case["vs"])]
        sol = Solution(sid, pps)
        ev.append(dict(base, op="sol_construct", sig=sig, res="ok"))
        base["ord"] = [_int(x) for x in sol.planning_problem_ids]
    except Exception as ex:
        ev.append(dict(base, op="sol_construct", sig=sig, res=_exc(ex)))
        return ev
    try:
        text = sol.benchmark_id
        toks = tokens(text)
        ev.append(dict(base, op="sol_print", sig=sig, toks=toks, res="ok"))
    except Exception as ex:
        ev.append(dict(base, op="sol_print", sig=sig, toks=[], res=_exc(ex)))
        return ev
    ev.append({"op": "sol_grammar", "sig": sig, "toks": toks})

    def parsed(route, got):
        """got = (vehicles, costs, ScenarioID) -> one event per compared field; an exception -> one event."""
        fields = ("all",) if isinstance(got, Exception) else \
            ("vehicles", "costs", "scenario_id", "version") + (("assignment",) if len(got) > 3 else ())
        for field in fields:
            s = "solution/" + id_sig(f, pk) if field == "scenario_id" else sig
            e = dict(base, op="sol_parse", route=route, field=field, sig=s, got_vs=[], got_cs=[], got_f=_NOF,
                     got_ver="", got_assoc=[], eq_op=0, eq_po=0, res="ok")
            if isinstance(got, Exception):
                e["res"] = _exc(got)
            else:
                gvs, gcs, gid = got[:3]
                if len(got) > 3:
                    e["got_assoc"] = got[3]
                e.update(got_vs=gvs, got_cs=gcs, got_f=_fields(gid), got_ver=str(gid.scenario_version),
                         eq_op=_eq(sid, gid), eq_po=_eq(gid, sid))
            ev.append(e)

    # public route: minimal document written by the writer, read by the reader
    back, xml = None, None
    try:
        xml = CommonRoadSolutionWriter(sol).dump()
        ev.append(dict(base, op="sol_align", sig=sig, toks=toks, nodes=_doc_nodes(xml), res="ok"))
    except Exception as ex:
        ev.append(dict(base, op="sol_align", sig=sig, toks=toks, nodes=[], res=_exc(ex)))
    if xml is not None:
        try:
            back = CommonRoadSolutionReader.fromstring(xml)
            parsed("reader", _sol_fields(back) + (_assoc(back),))
        except Exception as ex:
            parsed("reader", ex)
    # the id parser alone, the way _parse_solution uses it
    try:
        vids, cids, gid = CommonRoadSolutionReader._parse_benchmark_id(text)
        gvs = []
        for v in vids:
            m, t = CommonRoadSolutionReader._parse_vehicle_id(v)
            gvs.append({"m": str(m.name), "t": _int(t.value)})
        parsed("direct", (gvs, [str(CostFunction[c].name) for c in cids], gid))
    except Exception as ex:
        parsed("direct", ex)
    if back is not None:
        try:
            ev.append({"op": "sol_reprint", "sig": sig, "toks": toks, "retoks": tokens(back.benchmark_id), "res": "ok"})
        except Exception as ex:
            ev.append({"op": "sol_reprint", "sig": sig, "toks": toks, "retoks": [], "res": _exc(ex)})
    return ev


# ---------------------------------------------------------------- history: print, assign one field, print again
_ATTR = {"coop": "cooperative", "country": "country_id", "map": "map_name", "map_id": "map_id",
         "config": "configuration_id", "beh": "obstacle_behavior", "pred": "prediction_id", "ver": "scenario_version"}


def _exec_set(case):
    from commonroad.common.solution import (CommonRoadSolutionReader, CommonRoadSolutionWriter, CostFunction,
                                            PlanningProblemSolution, Solution, VehicleModel, VehicleType)
    from commonroad.scenario.scenario import ScenarioID
    f, pk, fld, b, bpk = case["f"], case["pk"], case["fld"], case["b"], case["bpk"]
    attr = _ATTR[fld]
    hist = {"f": f, "pk": pk, "fld": fld, "b": b, "bpk": bpk}
    sig = "scenario_id/after-set:" + fld
    ev = []
    # (1) the id object itself: print once, assign, print / parse / compare again
    try:
        sid = _mk_id(f, pk)
        other = _mk_id(b, bpk)
    except Exception as ex:
        ev.append({"op": "construct", "sig": id_sig(f, pk), "f": f, "pk": pk, "res": _exc(ex)})
        return ev
    try:
        str(sid)                                            # first print
        setattr(sid, attr, getattr(other, attr))
        ev.append(dict(hist, op="set", sig=sig, res="ok"))
    except Exception as ex:
        ev.append(dict(hist, op="set", sig=sig, res=_exc(ex)))
        return ev
    toks, back = None, None
    try:
        text = str(sid)
        toks = tokens(text)
        ev.append(dict(hist, op="print", sig=sig, toks=toks, res="ok"))
    except Exception as ex:
        ev.append(dict(hist, op="print", sig=sig, toks=[], res=_exc(ex)))
    if toks is not None:
        try:
            back = ScenarioID.from_benchmark_id(text, sid.scenario_version)
            ev.append(dict(hist, op="parse", sig=sig, toks=toks, pf=_fields(back), ppk=_pk_of(back), res="ok"))
        except Exception as ex:
            ev.append(dict(hist, op="parse", sig=sig, toks=toks, pf=_NOF, ppk="none", res=_exc(ex)))
    if back is not None:
        try:
            ev.append({"op": "eq", "sig": sig, "f": f, "pk": pk, "ppk": _pk_of(back), "eq_op": _eq(sid, back),
                       "eq_po": _eq(back, sid), "res": "ok"})
        except Exception as ex:
            ev.append({"op": "eq", "sig": sig, "f": f, "pk": pk, "ppk": "none", "eq_op": 0, "eq_po": 0,
                       "res": _exc(ex)})
        try:
            ev.append({"op": "reprint", "sig": sig, "toks": toks, "retoks": tokens(str(back)), "res": "ok"})
        except Exception as ex:
            ev.append({"op": "reprint", "sig": sig, "toks": toks, "retoks": [], "res": _exc(ex)})
    # (2) the same through a solution: benchmark id printed once, scenario id edited in place, printed / written / read
    ssig = "solution/after-set:" + fld
    vs, cs = [{"m": "PM", "t": 2}], ["WX1"]
    shist = dict(hist, vs=vs, cs=cs, pp=[1], ord=[1])
    try:
        sid2 = _mk_id(f, pk)
        sol = Solution(sid2, [PlanningProblemSolution(1, VehicleModel.PM, VehicleType(2), CostFunction.WX1, _traj("PM"))])
        sol.benchmark_id                                    # first print
        setattr(sid2, attr, getattr(other, attr))
    except Exception as ex:
        ev.append(dict(hist, op="set", sig=ssig, res=_exc(ex)))
        return ev
    try:
        stoks = tokens(sol.benchmark_id)
        ev.append(dict(shist, op="sol_print", sig=ssig, toks=stoks, res="ok"))
    except Exception as ex:
        ev.append(dict(shist, op="sol_print", sig=ssig, toks=[], res=_exc(ex)))
        return ev
    e = dict(shist, op="sol_parse", route="reader", field="scenario_id", sig=ssig, got_vs=[], got_cs=[], got_f=_NOF,
             got_ver="", got_assoc=[], eq_op=0, eq_po=0, res="ok")
    try:
        rb = CommonRoadSolutionReader.fromstring(CommonRoadSolutionWriter(sol).dump())
        gvs, gcs, gid = _sol_fields(rb)
        e.update(got_vs=gvs, got_cs=gcs, got_f=_fields(gid), got_ver=str(gid.scenario_version),
                 eq_op=_eq(sol.scenario_id, gid), eq_po=_eq(gid, sol.scenario_id))
    except Exception as ex:
        e.update(field="all", res=_exc(ex))
    ev.append(e)
    _exec_reparse(case, other, attr, ev)
    return ev


def _exec_reparse(case, other, attr, ev):
    """parse - mutate - parse: the text of id f is parsed, one field of the returned object is assigned, the same text
    is parsed again.  The events of the SECOND result carry f only (no fld): it must be the id of the text."""
    import logging
    import os
    import tempfile
    from commonroad.common.solution import (CommonRoadSolutionReader, CommonRoadSolutionWriter, CostFunction,
                                            PlanningProblemSolution, Solution, VehicleModel, VehicleType)
    from commonroad.scenario.scenario import ScenarioID
    f, pk, fld = case["f"], case["pk"], case["fld"]
    sig = "scenario_id/reparse-after-set:" + fld
    fresh = _mk_id(f, pk)
    text = str(fresh)
    toks = tokens(text)
    try:
        first = ScenarioID.from_benchmark_id(text, fresh.scenario_version)
        setattr(first, attr, getattr(other, attr))
        second = ScenarioID.from_benchmark_id(text, fresh.scenario_version)
        ev.append({"op": "parse", "sig": sig, "f": f, "pk": pk, "toks": toks, "pf": _fields(second),
                   "ppk": _pk_of(second), "res": "ok"})
        ev.append({"op": "eq", "sig": sig, "f": f, "pk": pk, "ppk": _pk_of(second), "eq_op": _eq(fresh, second),
                   "eq_po": _eq(second, fresh), "res": "ok"})
        ev.append({"op": "reprint", "sig": sig, "toks": toks, "retoks": tokens(str(second)), "res": "ok"})
        ev.append({"op": "fresh", "sig": sig, "same": 1 if second is first else 0})
    except Exception as ex:
        ev.append({"op": "parse", "sig": sig, "f": f, "pk": pk, "toks": toks, "pf": _NOF, "ppk": "none",
                   "res": _exc(ex)})
    # the same through the solution reader: read a document, edit the scenario id of the solution read, read it again
    ssig = "solution/reparse-after-set:" + fld
    vs, cs = [{"m": "PM", "t": 2}], ["WX1"]
    sol = Solution(_mk_id(f, pk), [PlanningProblemSolution(1, VehicleModel.PM, VehicleType(2), CostFunction.WX1,
                                                           _traj("PM"))])
    xml = CommonRoadSolutionWriter(sol).dump()
    e = {"op": "sol_parse", "route": "reader", "field": "scenario_id", "sig": ssig, "vs": vs, "cs": cs, "pp": [1],
         "ord": [1], "f": f, "pk": pk, "got_vs": [], "got_cs": [], "got_f": _NOF, "got_ver": "", "got_assoc": [],
         "eq_op": 0, "eq_po": 0, "res": "ok"}
    try:
        r1 = CommonRoadSolutionReader.fromstring(xml)
        setattr(r1.scenario_id, attr, getattr(other, attr))
        r2 = CommonRoadSolutionReader.fromstring(xml)
        gvs, gcs, gid = _sol_fields(r2)
        e.update(got_vs=gvs, got_cs=gcs, got_f=_fields(gid), got_ver=str(gid.scenario_version),
                 eq_op=_eq(fresh, gid), eq_po=_eq(gid, fresh))
        ev.append(e)
        ev.append({"op": "fresh", "sig": ssig, "same": 1 if r2.scenario_id is r1.scenario_id else 0})
    except Exception as ex:
        e.update(field="all", res=_exc(ex))
        ev.append(e)
    # a scenario file read twice with Scenario.convert_to_2d (renames the map of the id in place) in between;
    # done on a slice of the cases only (two file reads each)
    if fld != "map" or f["country"] != "ZAM":
        return
    import numpy as np
    from commonroad.common.file_reader import CommonRoadFileReader
    from commonroad.common.file_writer import CommonRoadFileWriter, OverwriteExistingFile
    from commonroad.planning.planning_problem import PlanningProblemSet
    from commonroad.scenario.lanelet import Lanelet
    from commonroad.scenario.scenario import Scenario, Tag
    fsig = "scenario_file/reparse-after-convert_to_2d"
    try:
        sc = Scenario(0.1, _mk_id(f, pk))
        sc.add_objects(Lanelet(np.array([[0.0, 1.0], [10.0, 1.0]]), np.array([[0.0, 0.0], [10.0, 0.0]]),
                               np.array([[0.0, -1.0], [10.0, -1.0]]), 1))
        root = os.environ.get("VERIF_OUT", "/verif/out")
        os.makedirs(root, exist_ok=True)
        with tempfile.TemporaryDirectory(dir=root) as tmp:
            path = os.path.join(tmp, "s.xml")
            logging.disable(logging.WARNING)                 # the writer logs a note about the default location
            try:
                CommonRoadFileWriter(sc, PlanningProblemSet(), "a", "b", "c", {Tag.URBAN}).write_to_file(
                    path, OverwriteExistingFile.ALWAYS)
            finally:
                logging.disable(logging.NOTSET)
            sc1, _ = CommonRoadFileReader(path).open()
            sc1.convert_to_2d()
            sc2, _ = CommonRoadFileReader(path).open()
        second = sc2.scenario_id
        ev.append({"op": "parse", "sig": fsig, "f": f, "pk": pk, "toks": toks, "pf": _fields(second),
                   "ppk": _pk_of(second), "res": "ok"})
        ev.append({"op": "reprint", "sig": fsig, "toks": toks, "retoks": tokens(str(second)), "res": "ok"})
        ev.append({"op": "fresh", "sig": fsig, "same": 1 if second is sc1.scenario_id else 0})
    except Exception as ex:
        ev.append({"op": "parse", "sig": fsig, "f": f, "pk": pk, "toks": toks, "pf": _NOF, "ppk": "none",
                   "res": _exc(ex)})


# ---------------------------------------------------------------- rejected assignments
_BAD = {("country", "name"): "Germany", ("country", "lower"): "deu", ("country", "alpha2"): "DE", ("country", "empty"): "",
        ("country", "unknown3"): "XXX", ("country", "long"): "ZAMM", ("country", "int"): 276,
        ("map", "none"): None, ("map", "int"): 5,
        ("map_id", "zero"): 0, ("map_id", "negative"): -1, ("map_id", "none"): None,
        ("config", "zero"): 0, ("config", "negative"): -3,
        ("beh", "unknown"): "X", ("beh", "lower"): "t",
        ("pred", "zero"): 0, ("pred", "list-zero"): [1, 0], ("pred", "empty-list"): [],
        ("coop", "text"): "yes", ("ver", "unknown"): "2019x"}


def _exec_rej(case):
    import copy
    from commonroad.common.solution import (CostFunction, PlanningProblemSolution, Solution, VehicleModel,
                                            VehicleType)
    from commonroad.scenario.scenario import ScenarioID
    f, pk, fld, bad = case["f"], case["pk"], case["fld"], case["bad"]
    attr, value = _ATTR[fld], _BAD[(fld, bad)]
    sig = "scenario_id/rejected-set:" + fld
    sid = _mk_id(f, pk)
    before = copy.deepcopy(sid)
    # the key is "field", not "fld": the id must stay f (the trace spec applies After() to events carrying fld and b)
    e = {"op": "reject", "sig": sig, "f": f, "pk": pk, "field": fld, "bad": bad, "raised": 0, "exc": "", "pf": _NOF,
         "toks": [], "eq_op": 0, "eq_po": 0, "rt": 0}
    try:
        setattr(sid, attr, value)
    except Exception as ex:
        e.update(raised=1, exc=type(ex).__name__, pf=_fields(sid), eq_op=_eq(sid, before), eq_po=_eq(before, sid))
        try:
            text = str(sid)
            e["toks"] = tokens(text)
            e["rt"] = _eq(ScenarioID.from_benchmark_id(text, sid.scenario_version), sid)
        except Exception:
            pass
    ev = [e]
    if not e["raised"]:
        return ev
    # the same id inside a solution: the rejected assignment must not change the solution's benchmark id either
    vs, cs = [{"m": "PM", "t": 2}], ["WX1"]
    sid2 = _mk_id(f, pk)
    pps = PlanningProblemSolution(1, VehicleModel.PM, VehicleType(2), CostFunction.WX1, _traj("PM"))
    sol = Solution(sid2, [pps])
    sol.benchmark_id
    base = {"vs": vs, "cs": cs, "pp": [1], "ord": [1], "f": f, "pk": pk}
    try:
        setattr(sol.scenario_id, attr, value)
    except Exception:
        try:
            ev.append(dict(base, op="sol_print", sig="solution/rejected-set:" + fld, toks=tokens(sol.benchmark_id),
                           res="ok"))
        except Exception as ex:
            ev.append(dict(base, op="sol_print", sig="solution/rejected-set:" + fld, toks=[], res=_exc(ex)))
    # validating setters of the planning problem solution feed the vehicle / cost lists of the id (on a slice of the cases)
    if fld == "country" and bad == "name":
        for what, attr2, val2 in (("cost_function", "cost_function", CostFunction.SA1),      # SA1 is not supported for PM
                                  ("vehicle_model", "vehicle_model", VehicleModel.KS)):      # a PM trajectory does not fit KS
            try:
                setattr(pps, attr2, val2)
            except Exception:
                ev.append(dict(base, op="sol_print", sig="solution/rejected-set:" + what,
                               toks=tokens(Solution(_mk_id(f, pk), [pps]).benchmark_id), res="ok"))
    return ev


# ---------------------------------------------------------------- driver interface
def model_check(ctx):
    ctx.mc("MC_BenchmarkId", "MC_BenchmarkId3.cfg" if ctx.thorough else "MC_BenchmarkId.cfg", coverage=True,
           timeout=3000)
    # the shipped ==, which compares the int / list spelling, must give the documented counterexample (pred = [1])
    ctx.mc_expect("MC_BenchmarkId", "DEV_BenchmarkId_1.cfg", "LawRoundTripEqual")
    # id lists printed in ascending planning-problem-id order while the planning problem solutions keep their order
    # (a seeded change, not shipped): the alignment law must give a counterexample with non-ascending ids
    ctx.mc_expect("MC_BenchmarkId", "DEV_BenchmarkId_2.cfg", "LawSolAligned")
    # a validating setter that stores the value before it raises (seeded, not shipped)
    ctx.mc_expect("MC_BenchmarkId", "DEV_BenchmarkId_3.cfg", "LawRejectAtomic")


def _rand_num(rng):
    return rng.choice([1, 2, 9, 10, 33, 99, 100, 1000, 65536, 2 ** 31 - 1, rng.randint(1, 200),
                       rng.randint(1, 2 ** 31 - 1)])


def _rand_fields(rng, countries):
    k = rng.random()
    if k < 0.12:
        name = rng.choice(["C", "T", "S", "I", "DEU", "ZAM", "007", "101", "1", "0", "c", "Cc", "2020a", "PM1"])
    else:
        name = "".join(rng.choice(_ALNUM) for _ in range(rng.choice([1, 2, 3, 3, 5, 8, 13, 24])))
    beh = rng.choice(["None", "None", "S", "T", "P", "I", "S", "T", "P", "I"])
    config = [] if rng.random() < 0.35 else [_rand_num(rng)]
    pk, pred = "none", []
    if beh != "None":
        pk = rng.choice(["none", "int", "list", "list"])
        if pk == "int":
            pred = [_rand_num(rng)]
        elif pk == "list":
            pred = [_rand_num(rng) for _ in range(rng.choice([1, 1, 2, 3, 4, 6]))]
    f = {"coop": rng.randint(0, 1), "country": rng.choice(countries), "map": _word_tok(name), "map_id": _rand_num(rng),
         "config": config, "beh": beh, "pred": pred, "ver": rng.choice(["2020a", "2020a", "2018b"])}
    return f, pk


def _rand_triple(rng):
    m = rng.choice(_MODELS)
    return {"m": m, "t": rng.randint(1, 4), "c": rng.choice(["JB1", "WX1", "MW1"] if m == "PM" else _COSTS)}


def _norm(f):
    """Input generation only (the trace spec re-checks every set case with ValidSet): the constructor's normal form."""
    g = dict(f)
    if f["beh"] != "None":
        g["config"] = f["config"] or [1]
        g["pred"] = f["pred"] or [1]
    return g


def _rand_set(rng, countries):
    while True:
        f, pk = _rand_fields(rng, countries)
        g, _ = _rand_fields(rng, countries)
        fld = rng.choice(sorted(_ATTR))
        b = _norm(f)
        b[fld] = _norm(g)[fld]
        if b[fld] == _norm(f)[fld]:
            continue
        if b["beh"] == "None" and b["pred"]:
            continue
        if b["beh"] != "None" and not (b["config"] and b["pred"]):
            continue
        bpk = "none" if not b["pred"] else rng.choice(["int", "list"]) if len(b["pred"]) == 1 else "list"
        return {"kind": "set", "pk": pk, "f": f, "fld": fld, "b": b, "bpk": bpk, "src": "random"}


def cases(ctx):
    cs = ctx.gen("MC_BenchmarkId", "GEN_BenchmarkId3.cfg" if ctx.thorough else "GEN_BenchmarkId.cfg")
    for c in cs:
        c["src"] = "tlc"
    import iso3166                                  # the table ScenarioID.country_id validates against
    countries = sorted(iso3166.countries_by_alpha3) + ["ZAM"]
    rng = ctx.rng
    for _ in range(6000 if ctx.thorough else 800):
        f, pk = _rand_fields(rng, countries)
        cs.append({"kind": "id", "pk": pk, "f": f, "src": "random"})
    for _ in range(3000 if ctx.thorough else 400):
        f, pk = _rand_fields(rng, countries)
        n = rng.choice([1, 1, 2, 2, 3, 4, 5])
        pp = rng.sample([0, 1, 2, 3, 5, 7, 9, 10, 11, 12, 20, 33, 100, 101, 1000, 2 ** 31 - 1], n)
        if rng.random() < 0.3:
            pp.sort()
        cs.append({"kind": "sol", "pk": pk, "f": f, "vs": [_rand_triple(rng) for _ in range(n)], "pp": pp,
                   "src": "random"})
    for _ in range(5000 if ctx.thorough else 600):
        cs.append(_rand_set(rng, countries))
    bad = sorted(_BAD)
    for _ in range(3000 if ctx.thorough else 500):
        f, pk = _rand_fields(rng, countries)
        fld, kind = rng.choice(bad)
        cs.append({"kind": "rej", "pk": pk, "f": f, "fld": fld, "bad": kind, "src": "random"})
    return cs


def execute(case):
    use_repo()
    k = case["kind"]
    return {"ev": _exec_id(case) if k == "id" else _exec_set(case) if k == "set" else _exec_rej(case) if k == "rej"
            else _exec_sol(case)}


def _fkey(f):
    return (f["coop"], f["country"], _tok_text(f["map"]), f["map_id"], tuple(f["config"]), f["beh"], tuple(f["pred"]),
            f["ver"])


def nontrivial(case):
    f = case["f"]
    if case["kind"] == "id":
        if f["beh"] == "None" and not f["config"]:
            return None
        return ("id", case["pk"]) + _fkey(f)
    if case["kind"] == "rej":
        return ("rej", case["pk"], case["fld"], case["bad"]) + _fkey(f)
    if case["kind"] == "set":
        return ("set", case["pk"], case["fld"], case["bpk"]) + _fkey(f) + _fkey(case["b"])
    return ("sol", case["pk"], tuple((x["m"], x["t"], x["c"]) for x in case["vs"]), tuple(case.get("pp") or ())) + _fkey(f)


def corrupt(trace, rng):
    """Change one logged value of an accepted event (a number token of the printed text, a parsed-back field, a
    parsed-back vehicle type): the trace spec must reject the trace."""
    cands = [i for i, e in enumerate(trace["ev"])
             if e.get("res") == "ok" and (e["op"] in ("print", "parse", "sol_print") or
                                          (e["op"] == "sol_parse" and e["field"] in ("vehicles", "version")))]
    if not cands:
        return None
    e = trace["ev"][rng.choice(cands)]
    if e["op"] in ("print", "sol_print"):
        nums = [t for t in e["toks"] if t["k"] == "num"]
        t = rng.choice(nums)
        t["n"] = t["n"] - 1 if t["n"] > 1 else t["n"] + 1
    elif e["op"] == "parse":
        which = rng.choice(["map_id", "coop", "beh"])
        if which == "map_id":
            e["pf"]["map_id"] = e["pf"]["map_id"] - 1 if e["pf"]["map_id"] > 1 else 2
        elif which == "coop":
            e["pf"]["coop"] = 1 - e["pf"]["coop"]
        else:
            e["pf"]["beh"] = "S" if e["pf"]["beh"] != "S" else "T"
    elif e["field"] == "vehicles":
        e["got_vs"][0]["t"] = e["got_vs"][0]["t"] % 4 + 1
    else:
        e["got_ver"] = "2018b" if e["got_ver"] != "2018b" else "2020a"
    return trace
