"""C14 - solution files round-trip exactly and follow the solution schema (spec: SolutionCodec.tla)."""
import json
import os
import re
import struct

from crv.core import use_repo

PROPERTY = "C14"
MODULES = ["SolutionCodec", "SolutionFile", "MC_SolutionCodec", "MC_SolutionFile", "Trace_SolutionCodec"]
TRACE = ("Trace_SolutionCodec", "Trace_SolutionCodec.cfg")
EXHAUSTIVE = True
RULE = ("TLC enumerates solution descriptors per dimension with the other dimensions at a default: (trajectory kind, "
        "vehicle model) in {PM,ST,KS,KST,MB,Input x {KS,ST,MB},PMInput} x vehicle type 1..4 x admissible cost; 6 "
        "time-step patterns (1..3 states, start 0/3, gaps); every real leaf x 10 value classes (zero, -0.0, int-valued "
        "float, python int, ordinary, 1e-7-like, 1e20-like, negative, 17 significant digits, extreme magnitudes) and all "
        "leaves uniform; numpy scalar leaves (float64 / int64 for every kind, float32 for KS); "
        "state order (ascending, adjacent swap, rotation keeping the first state, gaps, smallest step not first, descending) "
        "x route (writer: Trajectory in that order; doc: state nodes of the dumped document permuted, then fromstring) "
        "for every kind and for cooperative pairs; file histories (MC_SolutionFile: every sequence of <= 2 (thorough 3) "
        "write_to_file calls to one path x 5 documents of different length x overwrite on/off, each followed by "
        "CommonRoadSolutionReader.open; plus random histories of 3..6 writes); mutate-after-construction histories (object built or read from a "
        "document, then each public attribute - planning_problem_id, cost_function, vehicle_type, trajectory, kind, "
        "scenario_id, computation_time, processor_name, date - re-assigned, alone and together, single and cooperative); all 8 metadata presence subsets, every computation-time class / date token (naive with and without microseconds, extreme years, timezone-aware, date-only, default) / processor-name text class "
        "(plain, (R)/(TM), XML specials, blanks, non-ASCII, empty, 200 chars, auto, tabs/newlines) / scenario-id token; "
        "every sequence of 2..3 kinds as a cooperative solution (in and out of schema order, ids ascending and not); "
        "plus a seeded random sample mixing all dimensions.  Each descriptor is built through public constructors, "
        "dumped with CommonRoadSolutionWriter.dump(), validated with lxml against the shipped .xsd (cross-check of the "
        "TLA+ schema automaton), read back with CommonRoadSolutionReader.fromstring.  distinct_nontrivial = distinct "
        "descriptors.")
ASSUMPTIONS = ["state values are finite python floats / ints picked from a fixed table per value-class token",
               "time steps of a trajectory distinct (any order; Trajectory only checks the first one); planning problem ids distinct",
               "processor_name 'auto' (documented: determined automatically) and names with tabs/line breaks (XML attribute "
               "normalisation) are EITHER bands declared in SolutionCodec.tla: read-back must work, the value is not asserted",
               "computation time 0 / negative is rejected by the Solution constructor and therefore not a solution",
               "schema conformance is asserted only for solutions whose trajectory types the shipped schema defines and "
               "that list them in schema order (statement); lxml's verdict is only a cross-check of SchemaAccepts",
               "expected read-back / schema verdicts are computed by TLC from SolutionCodec.tla, not by the harness"]

# ---- concretisation tables (gamma): tokens -> concrete python values -------------------------------------------
_VALS = {
    "zero": [0.0],
    "negzero": [-0.0],
    "intf": [5.0, 12.0, 100.0, 3.0, 250.0, 1.0, 64.0],
    "pyint": [7, 3, 11, 42, 1, 250, 19],
    "ord": [0.5, 12.25, 3.14159, 27.125, 0.001, 123.456, 9.81, 1.75, 88.8, 0.0625, 2.5],
    "tiny": [1e-7, 2.5e-7, 3.3e-9, 1.2345e-5, 7e-10, 9.99e-8],
    "huge": [1e20, 2.5e21, 1.7e22, 6.02e23, 3e16, 4.4e19],
    "neg": [-0.5, -12.25, -3.14159, -27.125, -0.001, -123.456, -9.81],
    "extreme": [1e300, 1.7976931348623157e308, 5e-324, 2.2250738585072014e-308, -1e-300, -8.9e307],
    "sig17": [0.30000000000000004, 3.3000000000000003, 0.10000000000000002, 1.2000000000000002,
              -0.30000000000000004, 100.00000000000001, 5.0000000000000009],
}
_RANDOM_CLASSES = sorted(_VALS)
_NP = {"np64": ("float64", [0.1, 12.25, 1e-7, 3.3000000000000003, -27.125, 1e20, 0.7]),
       "npint": ("int64", [7, 3, 11, 42, 1, 250, 19]),
       "np32": ("float32", [0.1, 12.3, 1e-7, 3.3, -27.7, 1e20, 0.7])}
_CT = {"intf": 5.0, "pyint": 7, "ord": 0.123, "tiny": 1e-7, "tiny9": 1e-9, "huge": 1e20,
       "max": 1.7976931348623157e308, "sig17": 0.30000000000000004}
_PROC = {"plain": "AMD Ryzen 7 5800X 8-Core Processor", "tm": "Intel(R) Core(TM) i7-8550U CPU @ 1.80GHz",
         "xml": "AMD <Ryzen> & \"7\" 'x' 5800X", "unicode": "Gr\u00fc\u00dfe \u5904\u7406\u5668 \u00b5",
         "spaces": "  Intel  Xeon  ", "empty": "", "long": ("Processor-0123456789 " * 10)[:200], "auto": "auto",
         "ws": "Intel\tXeon\nGold\r6148"}
_PROC_EITHER = ("auto", "ws")        # only used to COUNT band cases for the evidence; the band is declared in the spec
_DATE = {"plain": (2020, 5, 17, 13, 45, 9, 0), "micro": (2021, 12, 31, 23, 59, 59, 999999),
         "micro1": (2023, 6, 30, 12, 0, 0, 1), "midnight": (2022, 1, 1, 0, 0, 0, 0),
         "eoy": (2023, 12, 31, 23, 59, 59, 0), "leap": (2024, 2, 29, 6, 7, 8, 500000),
         "y1970": (1970, 1, 1, 0, 0, 0, 0), "y9999": (9999, 12, 31, 23, 59, 59, 999999),
         "utc": (2021, 3, 4, 5, 6, 7, 0), "tzplus": (2021, 3, 4, 23, 30, 7, 250000),       # see _date_value
         "tzminus": (2021, 1, 1, 0, 15, 59, 0), "dateonly": (2021, 3, 4)}
# cooperative, country, map name, map id, configuration id, obstacle behavior, prediction id, version
_SCEN = {"T": (False, "USA", "US101", 1, 1, "T", 1, "2020a"), "S": (False, "DEU", "Muc", 4, 2, "S", 1, "2020a"),
         "I": (False, "CHN", "Sha", 11, 3, "I", [1, 2], "2020a"), "coop": (True, "USA", "Lanker", 1, 2, "T", 1, "2020a"),
         "bare": (False, "ZAM", "Tjunction", 1, None, None, None, "2020a"),
         "barecfg": (False, "ZAM", "Tjunction", 1, 5, None, None, "2020a"),
         "v2018b": (False, "USA", "US101", 1, 1, "T", 1, "2018b")}
# kind -> (state class name, attribute names in the order of the abstract leaves; position feeds two leaves)
_ST = ["position", "steering_angle", "velocity", "orientation"]
_FIELDS = {
    "PM": ("PMState", ["position", "velocity", "velocity_y"]),
    "ST": ("STState", _ST + ["yaw_rate", "slip_angle"]),
    "KS": ("KSState", _ST),
    "KST": ("KSTState", _ST + ["hitch_angle"]),
    "MB": ("MBState", _ST + ["yaw_rate", "roll_angle", "roll_rate", "pitch_angle", "pitch_rate", "velocity_y",
                             "position_z", "velocity_z", "roll_angle_front", "roll_rate_front", "velocity_y_front",
                             "position_z_front", "velocity_z_front", "roll_angle_rear", "roll_rate_rear",
                             "velocity_y_rear", "position_z_rear", "velocity_z_rear",
                             "left_front_wheel_angular_speed", "right_front_wheel_angular_speed",
                             "left_rear_wheel_angular_speed", "right_rear_wheel_angular_speed", "delta_y_f",
                             "delta_y_r"]),
    "Input": ("InputState", ["steering_angle_speed", "acceleration"]),
    "PMInput": ("PMInputState", ["acceleration", "acceleration_y"]),
}
_NV = {k: sum(2 if a == "position" else 1 for a in v[1]) for k, v in _FIELDS.items()}
_KM = [("PM", "PM"), ("ST", "ST"), ("KS", "KS"), ("KST", "KST"), ("MB", "MB"), ("Input", "KS"), ("Input", "ST"),
       ("Input", "MB"), ("PMInput", "PM")]
_COSTS = ["JB1", "SA1", "WX1", "SM1", "SM2", "SM3", "MW1", "TR1"]
_PMCOSTS = ["JB1", "WX1", "MW1"]
_VTYPE = {1: "FORD_ESCORT", 2: "BMW_320i", 3: "VW_VANAGON", 4: "TRUCK"}
# only used to LABEL signatures (single / cooperative / cooperative-unordered); verdicts come from the spec
_SCHEMA_ORDER = ["PMInput", "Input", "PM", "KS", "ST", "MB"]


def model_check(ctx):
    ctx.mc("MC_SolutionCodec", "MC_SolutionCodec.cfg", coverage=True)
    # the reader table as shipped (no kstState entry): the design-level counterexamples documenting the finding
    ctx.mc_expect("MC_SolutionCodec", "DEV_SolutionCodec_1.cfg", "LawReaderTotal")
    ctx.mc_expect("MC_SolutionCodec", "DEV_SolutionCodec_2.cfg", "LawReadBack")
    # file histories: path -> content; without truncation a shorter document over a longer one keeps the old tail
    ctx.mc("MC_SolutionFile", "MC_SolutionFile3.cfg" if ctx.thorough else "MC_SolutionFile.cfg", coverage=True)
    ctx.mc_expect("MC_SolutionFile", "DEV_SolutionFile_1.cfg", "LawFileExact")


def _random_case(rng):
    n = rng.choice([1, 1, 1, 2, 2, 3])
    ids = rng.sample(range(0, 1000), n)
    pps = []
    for i in range(n):
        k, m = rng.choice(_KM)
        ns = rng.randint(1, 4)
        t, steps = rng.randint(0, 40), []
        for _ in range(ns):
            steps.append(t)
            t += rng.choice([1, 1, 1, 2, 7])
        classes = _RANDOM_CLASSES
        o = rng.random()
        if o < 0.25 and ns > 1:                      # keep the first state, shuffle the rest
            rest = steps[1:]
            rng.shuffle(rest)
            steps = steps[:1] + rest
        elif o < 0.4:
            rng.shuffle(steps)
        pps.append({"kind": k, "model": m, "vtype": rng.randint(1, 4),
                    "cost": rng.choice(_PMCOSTS if m == "PM" else _COSTS), "ppid": ids[i], "steps": steps,
                    "vals": [[rng.choice(classes) for _ in range(_NV[k])] for _ in range(ns)]})
    return {"pps": pps, "ct": rng.choice(["None"] + sorted(_CT)), "date": rng.choice(["None", "default"] + sorted(_DATE)),
            "proc": rng.choice(["None"] + sorted(_PROC)), "scen": rng.choice(sorted(_SCEN)), "route": rng.choice(["writer", "writer", "doc"]), "src": "random"}


def _random_history(rng, case):
    """A different initial descriptor for the same object (mutate-after-construction); inputs only, no expectations."""
    import copy
    init = {k: copy.deepcopy(case[k]) for k in ("pps", "ct", "date", "proc", "scen")}
    init["route"] = "writer"
    for p in init["pps"]:
        if rng.random() < 0.5:
            p["ppid"] += 1000
        if rng.random() < 0.4:
            p["cost"] = rng.choice([c for c in (_PMCOSTS if p["model"] == "PM" else _COSTS) if c != p["cost"]])
        if rng.random() < 0.4:
            p["vtype"] = p["vtype"] % 4 + 1
        if rng.random() < 0.4:
            k = rng.choice([km[0] for km in _KM if km[1] == p["model"]])
            p["kind"], p["steps"] = k, [p["steps"][0] + 3, p["steps"][0] + 4]
            p["vals"] = [["neg"] * _NV[k], ["intf"] * _NV[k]]
    for key, tab in (("ct", _CT), ("proc", _PROC), ("scen", _SCEN), ("date", _DATE)):
        if rng.random() < 0.4 and case[key] != "default":
            init[key] = rng.choice([t for t in ["None"] * (key != "scen") + sorted(tab) if t != case[key]])
    if all(init[k] == case[k] for k in ("pps", "ct", "date", "proc", "scen")):
        init["pps"][0]["ppid"] += 1000
    case["route"] = "writer"
    case["origin"] = rng.choice(["built", "read"])
    case["init"] = init


def cases(ctx):
    cs = ctx.gen("MC_SolutionCodec", "GEN_SolutionCodec.cfg")
    for c in cs:
        c["src"] = "tlc"
    for _ in range(20000 if ctx.thorough else 3000):
        c = _random_case(ctx.rng)
        if ctx.rng.random() < 0.2:
            _random_history(ctx.rng, c)
        cs.append(c)
    fcs = ctx.gen("MC_SolutionFile", "GEN_SolutionFile3.cfg" if ctx.thorough else "GEN_SolutionFile.cfg")
    for c in fcs:
        c["src"] = "tlc"
    for _ in range(300 if ctx.thorough else 40):          # longer random file histories
        fcs.append({"fhist": [{"doc": ctx.rng.choice(sorted(_FDOCS)), "ow": ctx.rng.choice([0, 1, 1])}
                              for _ in range(ctx.rng.randint(3, 6))], "src": "random"})
    cs += fcs
    ctx.extra["either_band_cases"] = {"processor_name(auto|ws)": sum(1 for c in cs if c.get("proc") in _PROC_EITHER),
                                      "of": len(cs)}
    return cs


def nontrivial(case):
    return json.dumps({k: v for k, v in case.items() if k != "src"}, sort_keys=True)


# ---- projection helpers (alpha) ----------------------------------------------------------------------------------
_RE_INT = re.compile(r"[+-]?\d+")
_RE_DEC = re.compile(r"[+-]?(\d+\.\d*|\.\d+)")
_RE_EXP = re.compile(r"[+-]?(\d+(\.\d*)?|\.\d+)[eE][+-]?\d+")
_RE_DT = re.compile(r"-?\d{4,}-\d\d-\d\dT\d\d:\d\d:\d\d(\.\d+)?(Z|[+-]\d\d:\d\d)?")


def lex(text):
    """Lexical class of a text after XSD whitespace collapse (see SolutionCodec.tla!LexOK)."""
    t = (text or "").strip(" \t\r\n")
    if _RE_INT.fullmatch(t):
        return "int" if -2 ** 31 <= int(t) < 2 ** 31 else "bigint"
    if _RE_DEC.fullmatch(t):
        return "decimal"
    if _RE_EXP.fullmatch(t):
        return "exp"
    if t in ("INF", "-INF"):
        return "INF"
    if t == "NaN":
        return "NaN"
    if t.lower().lstrip("+-") in ("inf", "infinity"):
        return "inf"
    if t.lower().lstrip("+-") == "nan":
        return "nan"
    if _RE_DT.fullmatch(t):
        return "dateTime"
    return "other"


def _exc(ex):
    return "exc:" + type(ex).__name__


def _bits(x):
    return struct.pack("<d", float(x))


_schema = None


def _get_schema():
    global _schema
    if _schema is None:
        from lxml import etree
        from crv import core
        p = os.path.join(core.REPO, "commonroad", "scenario_definition", "xml_definition_files",
                         "CommonRoadSolution_schema.xsd")
        _schema = etree.XMLSchema(etree.parse(p))
    return _schema


def _abstract_doc(text):
    from lxml import etree
    root = etree.fromstring(text.encode("utf-8") if isinstance(text, str) else text)
    attrs = lambda el: [{"n": str(k), "c": lex(v)} for k, v in el.attrib.items()]
    doc = {"root": str(root.tag), "attrs": attrs(root), "trajs": []}
    for tr in root:
        doc["trajs"].append({"n": str(tr.tag), "attrs": attrs(tr),
                             "states": [{"n": str(st.tag), "elems": [{"n": str(x.tag), "c": lex(x.text)} for x in st]}
                                        for st in tr]})
    sch = _get_schema()
    if sch.validate(root):
        verdict = "valid"
    else:
        verdict = "invalid:" + str(sch.error_log[0].type_name)
    return doc, verdict


def _pick(tok, s, j):
    if tok in _NP:                                  # numpy scalar of the named dtype
        import numpy as np
        dtype, tab = _NP[tok]
        return getattr(np, dtype)(tab[(3 * s + j) % len(tab)])
    tab = _VALS[tok]
    return tab[(3 * s + j) % len(tab)]


def _build(sol):
    """Abstract descriptor -> real Solution (public constructors only). Returns (solution, originals, fields)."""
    import numpy as np
    from datetime import datetime
    import commonroad.scenario.state as cst
    from commonroad.common.solution import (CostFunction, PlanningProblemSolution, Solution, VehicleModel,
                                            VehicleType)
    from commonroad.scenario.scenario import ScenarioID
    from commonroad.scenario.trajectory import Trajectory
    ppss, orig, fields = [], [], []
    for pp in sol["pps"]:
        cname, attrs = _FIELDS[pp["kind"]]
        cls = getattr(cst, cname)
        states, ovals = [], []
        for s, t in enumerate(pp["steps"]):
            kw, row, j = {"time_step": t}, [], 0
            for a in attrs:
                if a == "position":
                    x, y = _pick(pp["vals"][s][j], s, j), _pick(pp["vals"][s][j + 1], s, j + 1)
                    kw[a] = np.array([x, y])
                    row += [kw[a][0], kw[a][1]]
                    j += 2
                else:
                    kw[a] = _pick(pp["vals"][s][j], s, j)
                    row.append(kw[a])
                    j += 1
            states.append(cls(**kw))
            ovals.append(row)
        # route "writer": the state list stands in `steps` order; route "doc": ascending (the nodes are permuted later)
        order = sorted(range(len(states)), key=lambda s: pp["steps"][s]) if sol["route"] == "doc" else range(len(states))
        traj = Trajectory(pp["steps"][order[0]], [states[s] for s in order])
        ppss.append(PlanningProblemSolution(pp["ppid"], VehicleModel[pp["model"]], VehicleType[_VTYPE[pp["vtype"]]],
                                            CostFunction[pp["cost"]], traj))
        orig.append(ovals)
        fields.append(attrs + ["time_step"])
    kw = {}
    if sol["date"] != "default":
        kw["date"] = None if sol["date"] == "None" else _date_value(sol["date"])
    if sol["ct"] != "None":
        kw["computation_time"] = _CT[sol["ct"]]
    if sol["proc"] != "None":
        kw["processor_name"] = _PROC[sol["proc"]]
    return Solution(ScenarioID(*_SCEN[sol["scen"]]), ppss, **kw), orig, fields


def _permute_states(text, sol):
    """Route "doc": put the state nodes of every trajectory element into the descriptor's `steps` order."""
    from lxml import etree
    root = etree.fromstring(text.encode("utf-8"))
    for tr, pp in zip(list(root), sol["pps"]):
        nodes = list(tr)                                   # written ascending
        asc = sorted(pp["steps"])
        for nd in nodes:
            tr.remove(nd)
        for t in pp["steps"]:
            tr.append(nodes[asc.index(t)])
    return etree.tostring(root, encoding="unicode")


def _date_value(tok):
    from datetime import date, datetime, timedelta, timezone
    v = _DATE[tok]
    if tok == "dateonly":
        return date(*v)
    tz = {"utc": timezone.utc, "tzplus": timezone(timedelta(hours=2)),
          "tzminus": timezone(-timedelta(hours=5, minutes=30))}.get(tok)
    return datetime(*v, tzinfo=tz)


def _meta_value(key, tok):
    from datetime import datetime
    from commonroad.scenario.scenario import ScenarioID
    if key == "scen":
        return ScenarioID(*_SCEN[tok])
    if tok == "None":
        return None
    return {"ct": _CT, "proc": _PROC}[key][tok] if key != "date" else _date_value(tok)


def _with_history(sol, init, origin, cur):
    """Reach the current descriptor `sol` by mutation: build `init`, optionally write+read it, then assign every public
    attribute in which init differs from sol (trajectories are taken from `cur`, a throw-away build of sol)."""
    from commonroad.common.solution import (CommonRoadSolutionReader, CommonRoadSolutionWriter, CostFunction,
                                            VehicleType)
    real, _, _ = _build(init)
    if origin == "read":
        real = CommonRoadSolutionReader.fromstring(CommonRoadSolutionWriter(real).dump())
    for obj, p0, p1, c in zip(real.planning_problem_solutions, init["pps"], sol["pps"], cur.planning_problem_solutions):
        if p0["ppid"] != p1["ppid"]:
            obj.planning_problem_id = p1["ppid"]
        if (p0["kind"], p0["steps"], p0["vals"]) != (p1["kind"], p1["steps"], p1["vals"]):
            obj.trajectory = c.trajectory
        if p0["cost"] != p1["cost"]:
            obj.cost_function = CostFunction[p1["cost"]]
        if p0["vtype"] != p1["vtype"]:
            obj.vehicle_type = VehicleType[_VTYPE[p1["vtype"]]]
    if init["scen"] != sol["scen"]:
        real.scenario_id = _meta_value("scen", sol["scen"])
    if init["ct"] != sol["ct"]:
        real.computation_time = _meta_value("ct", sol["ct"])
    if init["proc"] != sol["proc"]:
        real.processor_name = _meta_value("proc", sol["proc"])
    if init["date"] != sol["date"]:
        real.date = _meta_value("date", sol["date"])
    return real


def _sigs(sol, origin="none"):
    r, s = _sigs1(sol)
    return (r + "+mutated" if origin != "none" else r), s


def _sigs1(sol):
    r, s = _sigs0(sol)
    if any(p["steps"] != sorted(p["steps"]) for p in sol["pps"]):      # an ascending "doc" document equals the writer's
        r = ("doc" if sol["route"] == "doc" else "") + r + "+scrambled"
    return r, s


def _sigs0(sol):
    kinds = [p["kind"] for p in sol["pps"]]
    kst = "+KST" if "KST" in kinds else ""
    np32 = "+np32" if any(v == "np32" for p in sol["pps"] for row in p["vals"] for v in row) else ""
    if len(kinds) == 1:
        return "roundtrip/%s/single%s" % (kinds[0], np32), "schema/%s" % kinds[0]
    kst += np32
    idx = [_SCHEMA_ORDER.index(k) if k in _SCHEMA_ORDER else -1 for k in kinds]
    ordered = all(a <= b for a, b in zip(idx, idx[1:]))
    return ("roundtrip/cooperative" if ordered else "roundtrip/cooperative-unordered") + kst, "schema/cooperative" + kst


# ---- file histories (SolutionFile.tla) ---------------------------------------------------------------------------
def _fdoc(states=1, pps=1, proc="plain", ppid=7):
    return {"pps": [{"kind": "KS", "model": "KS", "vtype": 2, "cost": "JB1", "ppid": ppid + 10 * i,
                     "steps": list(range(states)), "vals": [["ord"] * 5] * states} for i in range(pps)],
            "ct": "ord", "date": "plain", "proc": proc, "scen": "T", "route": "writer"}


# document tokens of MC_SolutionFile!FDocs: same length as base / more states / more planning problems / longer name
_FDOCS = {"base": _fdoc(), "same": _fdoc(ppid=8), "states": _fdoc(states=3), "pps": _fdoc(pps=2),
          "proc": _fdoc(proc="long")}


def _execute_file(case):
    import shutil
    import hashlib
    from crv.tlc import OUT
    from commonroad.common.solution import CommonRoadSolutionReader, CommonRoadSolutionWriter
    d = os.path.join(OUT, "c14_tmp", "%d_%s" % (os.getpid(), hashlib.sha1(json.dumps(case["fhist"]).encode()).hexdigest()[:10]))
    shutil.rmtree(d, ignore_errors=True)
    os.makedirs(d)
    path = os.path.join(d, "solution.xml")
    writers = {t: CommonRoadSolutionWriter(_build(s)[0]) for t, s in _FDOCS.items()}
    texts = {t: w.dump() for t, w in writers.items()}
    blobs = {t: x.encode("utf-8") for t, x in texts.items()}

    def observe():
        if not os.path.exists(path):
            return {"doc": "None", "len": 0}
        with open(path, "rb") as f:
            b = f.read()
        return {"doc": next((t for t in sorted(blobs) if blobs[t] == b), "other"), "len": len(b)}

    ev = []
    try:
        for w in case["fhist"]:
            pre = observe()
            if pre["doc"] == "None":
                kind = "create"
            elif not w["ow"]:
                kind = "exists-no-overwrite"
            else:
                n0, n1 = pre["len"], len(blobs[w["doc"]])
                kind = "overwrite/" + ("longer-by-shorter" if n1 < n0 else "shorter-by-longer" if n1 > n0 else "equal-length")
            try:
                writers[w["doc"]].write_to_file(d, "solution.xml", overwrite=bool(w["ow"]))
                res = "ok"
            except Exception as ex:
                res = _exc(ex)
            post = observe()
            ev.append({"op": "fwrite", "sig": "file/" + kind, "pre": pre, "doc": w["doc"], "len": len(blobs[w["doc"]]),
                       "ow": int(w["ow"]), "res": res, "post": post})
            try:
                back = CommonRoadSolutionReader.open(path)
                again = CommonRoadSolutionWriter(back).dump()
                got = next((t for t in sorted(texts) if texts[t] == again), "other")
            except Exception as ex:
                got = _exc(ex)
            ev.append({"op": "fread", "sig": "file/read-after-" + kind, "pre": post, "res": got})
    finally:
        shutil.rmtree(d, ignore_errors=True)
    return {"ev": ev}


def execute(case):
    use_repo()
    if "fhist" in case:
        return _execute_file(case)
    sol = {k: case[k] for k in ("pps", "ct", "date", "proc", "scen")}
    sol["route"] = case.get("route", "writer")
    origin = case.get("origin", "none")
    hist = {"origin": origin}
    if origin != "none":
        hist["init"] = case["init"]
    rsig, ssig = _sigs(sol, origin)
    base = {}                   # the descriptor is logged once, in the first (write) event of the trace
    ev = []
    fields = [_FIELDS[p["kind"]][1] + ["time_step"] for p in sol["pps"]]
    try:
        real, orig, fields = _build(sol)
        from commonroad.common.solution import CommonRoadSolutionReader, CommonRoadSolutionWriter
        if origin != "none":
            real = _with_history(sol, case["init"], origin, real)
        text = CommonRoadSolutionWriter(real).dump()
        if sol["route"] == "doc":
            text = _permute_states(text, sol)
        doc, verdict = _abstract_doc(text)
    except Exception as ex:
        ev.append(dict(base, op="write", sig=rsig, res=_exc(ex), fields=fields, sol=sol, **hist))
        return {"ev": ev}
    ev.append(dict(base, op="write", sig=rsig, res="ok", fields=fields, sol=sol, **hist))
    ev.append(dict(base, op="schema", sig=ssig, doc=doc, lxml=verdict))
    try:
        back = CommonRoadSolutionReader.fromstring(text)
    except Exception as ex:
        ev.append(dict(base, op="read", sig=rsig, res=_exc(ex)))
        return {"ev": ev}
    ev.append(dict(base, op="read", sig=rsig, res="ok"))

    def item(what, **kw):
        ev.append(dict(base, op="back", sig=rsig, what=what, **kw))

    def guard(f, default):
        try:
            return f()
        except Exception as ex:
            return default(_exc(ex))

    sid_eq = guard(lambda: int(str(back.scenario_id) == str(real.scenario_id) and back.scenario_id == real.scenario_id
                               and back.scenario_id.scenario_version == real.scenario_id.scenario_version),
                   lambda x: 0)
    item("BenchmarkId", bid=guard(lambda: int(back.benchmark_id == real.benchmark_id), lambda x: 0), scen=sid_eq,
         vids=guard(lambda: [str(v) for v in back.vehicle_ids], lambda x: [x]),
         cids=guard(lambda: [str(c) for c in back.cost_ids], lambda x: [x]))
    item("ProblemIds", ppids=guard(lambda: [int(i) for i in back.planning_problem_ids], lambda x: []))
    item("TrajectoryType", ttypes=guard(lambda: [str(t.value) for t in back.trajectory_types], lambda x: [x]))
    bpps = back.planning_problem_solutions
    item("TimeSteps", steps=guard(lambda: [[int(st.time_step) for st in p.trajectory.state_list] for p in bpps],
                                  lambda x: []))

    def values():
        # per read-back state r and leaf j: the written states (1-based, document order) whose leaf j has the same bits
        out = []
        for i, p in enumerate(bpps):
            attrs = _FIELDS[sol["pps"][i]["kind"]][1] if i < len(sol["pps"]) else []
            rows = []
            for st in p.trajectory.state_list:
                row, j = [], 0
                for a in attrs:
                    got = getattr(st, a, None)
                    comps = [None, None] if (a == "position" and got is None) else (list(got) if a == "position" else [got])
                    for g in comps:
                        row.append([] if g is None else
                                   [s + 1 for s in range(len(orig[i])) if _bits(orig[i][s][j]) == _bits(g)])
                        j += 1
                rows.append(row)
            out.append(rows)
        return out

    item("Values", vals=guard(values, lambda x: []))

    def meta(o, b, same, yes):
        if b is None:
            return "None"
        if o is None:
            return "present"
        return yes if same(o, b) else "differs"

    item("ComputationTime", ct=guard(lambda: meta(real.computation_time, back.computation_time,
                                                  lambda o, b: _bits(o) == _bits(b), "exact"), lambda x: x))
    item("ProcessorName", proc=guard(lambda: meta(real.processor_name, back.processor_name,
                                                  lambda o, b: o == b, "equal"), lambda x: x))
    wall = lambda d: [getattr(d, a, 0) for a in ("year", "month", "day", "hour", "minute", "second")]

    def tz():
        o, b = getattr(real.date, "tzinfo", None), getattr(back.date, "tzinfo", None)
        if o is None and b is None:
            return "none"
        if b is None:
            return "dropped"
        if o is None:
            return "added"
        return "kept" if real.date.utcoffset() == back.date.utcoffset() else "changed"

    # "to the second": the wall-clock fields year..second (a datetime.date has 00:00:00); tzinfo is projected separately
    item("Date", date=guard(lambda: meta(real.date, back.date, lambda o, b: wall(o) == wall(b), "equal"), lambda x: x),
         tz=guard(tz, lambda x: x))
    return {"ev": ev}


def corrupt(trace, rng):
    """Corrupt ONE logged read-back item of an accepted trace; the trace spec must reject exactly that event."""
    cands = [i for i, e in enumerate(trace["ev"]) if e["op"] == "back"]
    if not cands:
        fw = [e for e in trace["ev"] if e["op"] == "fwrite"]
        if not fw:
            return None
        fw[-1]["post"]["len"] += 1              # a stale byte behind the document
        return trace
    i = rng.choice(cands)
    e = trace["ev"][i]
    w = e["what"]
    if w == "BenchmarkId":
        e["vids"][-1] = "PM9"
    elif w == "ProblemIds":
        e["ppids"][0] += 1
    elif w == "TrajectoryType":
        e["ttypes"][0] = "ksTrajectory" if e["ttypes"][0] != "ksTrajectory" else "pmTrajectory"
    elif w == "TimeSteps":
        e["steps"][0][-1] += 1
    elif w == "Values":
        e["vals"][-1][-1][rng.randrange(len(e["vals"][-1][-1]))] = []
    elif w == "ComputationTime":
        e["ct"] = "differs" if e["ct"] != "differs" else "exact"
    elif w == "ProcessorName":
        e["proc"] = "present"          # never an expected projection, also outside the EITHER band's vocabulary
    elif w == "Date":
        e["date"] = "differs" if e["date"] != "differs" else "equal"
    return trace
