"""C15 - a file writer's output depends only on its own inputs (spec: Writers.tla, MC_Writers.tla, Trace_Writers.tla)."""
import hashlib
import json
import os
import re
import shutil

from crv import graph, tlc
from crv.core import use_repo

PROPERTY = "C15"
MODULES = ["Writers", "MC_Writers", "Trace_Writers"]
TRACE = ("Trace_Writers", "Trace_Writers.cfg")
EXHAUSTIVE = True
RULE = ("TLC explores all interleavings of constructing up to 3 writers (XML / protobuf, precisions 2 and 6) and "
        "calling write_to_file / write_scenario_to_file with overwrite ALWAYS / SKIP on 2 paths (6 steps) on the "
        "implementation-shaped model (process-global precision, accumulating XML tree) and checks files'[path] = "
        "F(writer, kind); the labelled graph for 2 writers / 4 steps is dumped, a transition cover plus seeded random "
        "histories (up to 5 writers, precisions 1..12, 12 steps) run on real CommonRoadFileWriter objects, and TLC "
        "validates the projection of every written file. distinct_nontrivial = distinct histories with >= 2 writes.")
ASSUMPTIONS = ["one fixed scenario with a probe coordinate 0.123456789012 and one planning problem",
               "content identity = SHA-1 of the file with the date stamp removed (XML attribute / protobuf field)",
               "the date stamp is excluded as the statement says"]

PROBE = 0.123456789012


def model_check(ctx):
    ctx.mc("MC_Writers", "MC_Writers.cfg" if ctx.thorough else "MC_Writers_q.cfg")
    ctx.mc_expect("MC_Writers", "DEV_Writers_1.cfg", "PropOwnInputs")
    ctx.mc_expect("MC_Writers", "DEV_Writers_2.cfg", "PropOwnInputs")
    ctx.mc_expect("MC_Writers", "DEV_Writers_3.cfg", "PropOwnInputs")
    ctx.mc_expect("MC_Writers", "DEV_Writers_4.cfg", "PropOwnInputs")
    ctx.mc_expect("MC_Writers", "DEV_Writers_5.cfg", "PropOwnInputs")
    if ctx.thorough:      # unbounded histories: inductive invariant of spec/APA_Writers.tla checked by Apalache (crv/apalache.py)
        from crv import apalache
        apalache.append_run(ctx, "APA_Writers")


def cases(ctx):
    r = tlc.run_tlc("MC_Writers", "GEN_Writers.cfg", "c15_gen", workers=1, timeout=900)
    if not r["ok"]:
        raise tlc.MachineryError("GEN_Writers failed: " + r["out"][-2000:])
    g = graph.parse_edges(tlc.tla_unquote(p) for p in tlc.printed_tuples(r["out"], "EDGE"))
    init = [k for k in g if json.loads(k)["steps"] == 0][0]
    walks = graph.cover_walks(g, init, max_len=4, rng=ctx.rng)
    ne = sum(len(v) for v in g.values())
    ctx.mc_runs.append({"module": "MC_Writers", "cfg": "GEN_Writers.cfg", "distinct_states": r["distinct"],
                        "states_generated": r["generated"], "depth": r["depth"], "wall_s": r["wall_s"],
                        "verdict": "dumped %d labelled edges -> %d covering walks" % (ne, len(walks))})
    cs = [{"src": "tlc", "ops": [{k: a[k] for k in ("op", "w", "path", "mode", "kind", "fmt", "d")} for a in w]}
          for w in walks]
    rng = ctx.rng
    for _ in range(1500 if ctx.thorough else 250):
        ops, nw = [], 0
        for _ in range(12):
            if nw > 0 and rng.random() < 0.12:
                ops.append({"op": "edit", "w": 0, "path": "", "mode": "", "kind": "", "fmt": "", "d": 0})
            elif nw > 0 and rng.random() < 0.1:
                ops.append({"op": "fail", "w": rng.randint(1, nw), "path": "", "mode": "", "kind": rng.choice(["full", "scenario"]),
                            "fmt": "", "d": 0})
            elif nw == 0 or (nw < 5 and rng.random() < 0.3):
                nw += 1
                ops.append({"op": "new", "w": nw, "path": "", "mode": "", "kind": "", "fmt": rng.choice(["xml", "pb"]),
                            "d": rng.randint(1, 12)})
            else:
                ops.append({"op": "write", "w": rng.randint(1, nw), "path": rng.choice(["a", "b", "c"]),
                            "mode": rng.choice(["always", "always", "skip"]), "kind": rng.choice(["full", "scenario"]),
                            "fmt": "", "d": 0})
        cs.append({"src": "random", "ops": ops})
    return cs


def nontrivial(case):
    return json.dumps(case["ops"]) if sum(1 for o in case["ops"] if o["op"] == "write") >= 2 else None


def _world():
    import numpy as np
    from commonroad.common.util import Interval
    from commonroad.planning.goal import GoalRegion
    from commonroad.planning.planning_problem import PlanningProblem, PlanningProblemSet
    from commonroad.scenario.state import CustomState
    from crv import gamma as G
    sc = G.scenario()
    sc.add_objects(G.lanelet(1, x0=PROBE, y0=0.0, length=2.0))
    sc.add_objects(G.static_obstacle(5, 1.0, 0.5))
    # probe numbers with 12 decimals in every kind of place a number is written: polyline points, exact state values
    # (position, orientation, velocity), interval bounds, shape parameters
    sc.add_objects(G.dynamic_obstacle(6, 1.0 + PROBE, 0.5, shape=G.rect(2.0 + PROBE, 1.0 + PROBE),
                                      poses=[(2.0 + PROBE, 0.5, PROBE), (3.0 + PROBE, 0.5 + PROBE, -PROBE)]))
    sc.obstacle_by_id(6).initial_state.velocity = 12.0 + PROBE
    sc.add_objects(_custom_obstacle(7, ("orientation", "velocity")))      # trajectory of custom states (attribute set A)
    goal = GoalRegion([CustomState(time_step=Interval(1, 5), position=G.rect(1.0, 1.0, (1.5, 0.5)),
                                   velocity=Interval(1.0 + PROBE, 2.0 + PROBE))])
    pps = PlanningProblemSet([PlanningProblem(9, G.init_state(0.5 + PROBE, 0.5, PROBE, v=3.0 + PROBE), goal)])
    return sc, pps


def _custom_obstacle(oid, attrs):
    """A dynamic obstacle whose trajectory consists of CustomState objects with exactly the attributes `attrs`."""
    import numpy as np
    from commonroad.prediction.prediction import TrajectoryPrediction
    from commonroad.scenario.obstacle import DynamicObstacle, ObstacleType
    from commonroad.scenario.state import CustomState
    from commonroad.scenario.trajectory import Trajectory
    from crv import gamma as G
    vals = {"orientation": 0.25, "velocity": 3.5, "acceleration": 0.75, "yaw_rate": 0.5}   # (no fraction starting with 1: those are probe numbers)
    sts = [CustomState(time_step=1 + i, position=np.array([5.0 + i, 0.5]), **{a: vals[a] for a in attrs}) for i in range(2)]
    return DynamicObstacle(oid, ObstacleType.CAR, G.rect(2.0, 1.0), G.init_state(4.0, 0.5),
                           TrajectoryPrediction(Trajectory(1, sts), G.rect(2.0, 1.0)))


def _project(path, d_expected, nl_expected=1):
    """Abstract content of the file at `path`."""
    from commonroad.common.file_reader import CommonRoadFileReader
    from commonroad.common.util import FileFormat
    with open(path, "rb") as f:
        raw = f.read()
    out = {"fmt": "xml" if raw.lstrip().startswith(b"<?xml") else "pb", "copies": 0, "pp": 0, "digits": [], "nprobes": 0,
           "readback": 0, "nl": 0}
    if out["fmt"] == "xml":
        from lxml import etree
        try:
            root = etree.fromstring(raw)
        except etree.XMLSyntaxError:                              # not a well-formed document: no writer's F(...)
            out["fmt"] = "garbled"
            return out, hashlib.sha1(raw).hexdigest()
        out["copies"] = sum(1 for e in root.findall("lanelet") if e.get("id") == "1")
        out["nl"] = len({e.get("id") for e in root.findall("lanelet")})
        out["pp"] = len(root.findall("planningProblem"))
        # decimal places of every written probe number (all numbers whose fraction starts with the probe digits)
        # (shape parameters are written with str(), i.e. always in full: not a function of any writer's precision)
        probes = [t.text.strip() for t in root.iter() if t.text and re.fullmatch(r"-?\d+\.1\d*", t.text.strip())
                  and (t.getparent() is None or t.getparent().tag not in ("rectangle", "circle"))]
        probes += [v for t in root.iter() for v in t.attrib.values() if re.fullmatch(r"-?\d+\.12\d*", v)]
        places = sorted({len(x.split(".")[1]) for x in probes})
        out["digits"] = places
        out["nprobes"] = len(probes)
        stripped = re.sub(rb'date="[^"]*"', b'date=""', raw)
        ff = FileFormat.XML
    else:
        from commonroad.scenario_definition.protobuf_format.generated_scripts import commonroad_pb2
        msg = commonroad_pb2.CommonRoad()
        try:
            msg.ParseFromString(raw)
        except Exception:
            out["fmt"] = "garbled"
            return out, hashlib.sha1(raw).hexdigest()
        out["copies"] = sum(1 for la in msg.lanelets if la.lanelet_id == 1)
        out["nl"] = len({la.lanelet_id for la in msg.lanelets})
        out["pp"] = len(msg.planning_problems)
        for f in [fd.name for fd, _ in msg.information.date.ListFields()]:
            msg.information.date.ClearField(f)                      # keep the (required) field, drop its content
        stripped = msg.SerializePartialToString(deterministic=True)
        ff = FileFormat.PROTOBUF
    try:
        sc2, pps2 = CommonRoadFileReader(path, file_format=ff).open()
        las = sc2.lanelet_network.lanelets
        tol = 10.0 ** (-d_expected) if out["fmt"] == "xml" else 1e-12
        o6 = sc2.obstacle_by_id(6)
        la1 = sc2.lanelet_network.find_lanelet_by_id(1)
        customs_ok = True                                         # every custom-state obstacle keeps ITS attribute set
        for oid, attrs in [(7, ("orientation", "velocity"))] + [(200 + k, ("orientation", "velocity", "acceleration", "yaw_rate"))
                                                                   for k in range(2, nl_expected + 1)]:
            st = sc2.obstacle_by_id(oid).prediction.trajectory.state_list[0]
            customs_ok = customs_ok and all(getattr(st, a, None) is not None for a in attrs) \
                and all(getattr(st, a, None) is None for a in ("acceleration", "yaw_rate") if a not in attrs)
        ok = customs_ok and len(las) == nl_expected and len(sc2.obstacles) == 2 + nl_expected \
            and abs(float(la1.right_vertices[0][0]) - PROBE) < tol \
            and len(pps2.planning_problem_dict) == out["pp"] and o6 is not None \
            and abs(o6.initial_state.velocity - (12.0 + PROBE)) < tol and abs(o6.initial_state.orientation) < tol \
            and abs(o6.prediction.trajectory.state_list[1].orientation + PROBE) < tol \
            and abs(o6.obstacle_shape.length - (2.0 + PROBE)) < max(tol, 1e-12)
        out["readback"] = 1 if ok else 0
    except Exception:
        out["readback"] = 0
    return out, hashlib.sha1(stripped).hexdigest()


def execute(case):
    use_repo()
    from commonroad.common.file_writer import CommonRoadFileWriter, OverwriteExistingFile
    from commonroad.common.util import FileFormat
    from commonroad.scenario.scenario import Tag
    d = os.path.join(tlc.OUT, "c15_tmp", "p%d_%s" % (os.getpid(), hashlib.sha1(json.dumps(case).encode()).hexdigest()[:10]))
    shutil.rmtree(d, ignore_errors=True)
    os.makedirs(d)
    sc, pps = _world()
    writers, cids, ev = {}, {}, []
    nl = 1
    try:
        for a in case["ops"]:
            if a["op"] == "edit":                                   # the scenario all writers reference is edited
                from crv import gamma as G
                nl += 1
                sc.add_objects(G.lanelet(100 + nl, x0=PROBE + 3.0 * nl, y0=0.0, length=2.0))
                # ... and gets an obstacle whose custom states carry MORE attributes than those written before
                sc.add_objects(_custom_obstacle(200 + nl, ("orientation", "velocity", "acceleration", "yaw_rate")))
                ev.append({"op": "edit", "nl": len(sc.lanelet_network.lanelets), "sig": "edit"})
                continue
            if a["op"] == "new":
                exc = "None"
                try:
                    writers[a["w"]] = (CommonRoadFileWriter(
                        sc, pps, author="a", affiliation="b", source="c", tags={Tag.URBAN},
                        decimal_precision=a["d"],
                        file_format=FileFormat.XML if a["fmt"] == "xml" else FileFormat.PROTOBUF), a["fmt"], a["d"])
                except Exception as ex:
                    exc = "exc:" + type(ex).__name__
                ev.append({"op": "new", "w": a["w"], "fmt": a["fmt"], "d": a["d"], "exc": exc, "sig": "new/" + a["fmt"]})
                continue
            if a["w"] not in writers:
                continue
            wr, fmt, dd = writers[a["w"]]
            if a["op"] == "fail":                                   # a write that cannot succeed: the directory is missing
                bad = os.path.join(d, "no-such-directory", "x." + ("xml" if fmt == "xml" else "pb"))
                exc = "None"
                try:
                    (wr.write_to_file if a["kind"] == "full" else wr.write_scenario_to_file)(bad, OverwriteExistingFile.ALWAYS)
                except Exception as ex:
                    exc = "exc:" + type(ex).__name__
                shutil.rmtree(os.path.join(d, "no-such-directory"), ignore_errors=True)
                ev.append({"op": "fail", "w": a["w"], "kind": a["kind"], "exc": exc, "sig": "fail/%s/%s" % (fmt, a["kind"])})
                continue
            path = os.path.join(d, a["path"])
            mode = OverwriteExistingFile.ALWAYS if a["mode"] == "always" else OverwriteExistingFile.SKIP
            existed = os.path.exists(path)
            exc = "None"
            try:
                if a["kind"] == "full":
                    wr.write_to_file(path, mode)
                else:
                    wr.write_scenario_to_file(path, mode)
            except Exception as ex:
                exc = "exc:" + type(ex).__name__
            proj = {"fmt": "none", "copies": 0, "pp": 0, "digits": [], "nprobes": 0, "readback": 0, "nl": 0}
            cid = 0
            if os.path.exists(path):
                proj, h = _project(path, dd, nl)
                cid = cids.setdefault(h, len(cids) + 1)
            n_prev = sum(1 for e in ev if e["op"] == "write" and e["w"] == a["w"])
            ev.append(dict(proj, op="write", w=a["w"], path=a["path"], mode=a["mode"], kind=a["kind"], cid=cid, exc=exc,
                           sig="write/%s/%s/%s%s" % (fmt, a["kind"], "reuse" if n_prev else "first",
                                                     "/skip-existing" if existed and a["mode"] == "skip" else "")))
    finally:
        shutil.rmtree(d, ignore_errors=True)
    return {"ev": ev}


def corrupt(trace, rng):
    ws = [e for e in trace["ev"] if e["op"] == "write" and not e["sig"].endswith("skip-existing")]
    if not ws:
        return None
    rng.choice(ws)["copies"] = 2
    return trace
