"""C16 - Interval and AngleInterval behave as the closed sets they denote (spec: Intervals.tla).

The driver only *runs* the real code and *projects* what it did onto grid indices:
  plain numbers      k/4        -> k          (results: units of 1/200, exact or "offgrid")
  angles             k*pi/12    -> k          (results: nearest grid index if within 1e-9, else "offgrid")
  arbitrary numbers  strictly inside a grid cell (k, k+1) -> k with xgrid/thgrid = 0
Expected answers are computed by TLC from Intervals.tla (Trace_Intervals.tla), never here.
"""
import math

from crv.core import use_repo

PROPERTY = "C16"
MODULES = ["Intervals", "MC_Intervals", "Trace_Intervals"]
TRACE = ("Trace_Intervals", "Trace_Intervals.cfg")
EXHAUSTIVE = True
RULE = ("TLC enumerates every plain interval with end points k/4, k in -8..8 (153) and every angle interval with start "
        "a*pi/12, a in -24..24 and length 0..23 steps (1176).  Each plain interval is executed (float-typed, and int-typed "
        "when integral) with: contains for the 21 grid values -10/4..10/4 (float and int, method and `in`), "
        "contains/overlaps/intersection with all 153 intervals, + and - 17 shifts, end point assignment of 17 values, "
        "* 7 scalars (incl. 0), / 6 scalars, round(None, 0, 1, 2), inverted construction.  Each angle interval: "
        "membership of the 73 grid angles in -3pi..3pi (float; int 0; method and `in`), + and - 15 shifts (thorough: all 49), "
        "contains(interval) with a second interval at every offset 0..23 around the circle x 7 lengths (thorough: all 24 "
        "lengths, both representations of the start), overlaps for the lengths 0, 6, 13, 23 of those, inverted construction.  Plus seeded random cases "
        "(400 + 400; thorough 4000 + 4000): arbitrary floats / ints strictly inside grid cells, incl. values 1e-3..1e-12 "
        "next to end points, judged by their cell.  Re-bounding scenarios (spec actions SetStart / SetEnd): every plain "
        "interval x up to 11 target bounds, and every angle interval inside [-2pi, 2pi] whose length is one of the cfg's "
        "lengths x up to 11 target bounds (widen / narrow / move start, end or both, across pi), each cold and warm "
        "(queried once before): the bounds are assigned through the public setters along the path given by the spec, then "
        "membership around the new and old bounds (and a turn away), contains/overlaps/intersection with 5 intervals and "
        "+, *, /, round (angle: +) are recorded against the NEW bounds (sig suffix /after-set); inverted assignments must "
        "be rejected.  distinct_nontrivial = distinct intervals of positive length.")
ASSUMPTIONS = ["grid values are exact in binary floating point (k/4; products/quotients by +-1/2, +-1, +-2; decimal "
               "roundings as correctly rounded literals); angle grid k*pi/12 is computed as k*math.pi/12 everywhere",
               "angle end points that coincide with the query only modulo 2 pi (or after the constructor re-based the "
               "interval into [-2pi, 2pi]) are an EITHER band declared in Intervals.tla",
               "AngleInterval.overlaps: statement silent on linear vs. modular reading - both accepted (EITHER) where "
               "they differ",
               "re-bounding through the setters is exercised only on angle intervals constructed inside [-2pi, 2pi] "
               "(no re-basing), towards bounds inside [-2pi, 2pi] with start <= end and length < 2pi; the setters' "
               "assertion `start <= end` is taken as the documented rejection of inverted bounds",
               "admissible arguments: scalars -2, -1, -1/2, 1/2, 1, 2 (and 0 for *), angle lengths < 2 pi, "
               "angle starts in [-2 pi, 2 pi]"]

STEP = math.pi / 12


def g(k):
    """grid angle k*pi/12 - the one formula used for every angle handed to the code"""
    return k * math.pi / 12


def q(k, typ="float"):
    """grid number k/4 as float, or as int when asked for (k must be a multiple of 4)"""
    return k // 4 if typ == "int" else k / 4


def model_check(ctx):
    r = ctx.mc("MC_Intervals", "MC_Intervals_t.cfg" if ctx.thorough else "MC_Intervals.cfg", coverage=True)
    # transitions taken per action (the generic coverage field counts *new* states only: every interval is
    # first reached by Construct, so the operation actions show 0 there)
    import re
    taken = {}
    for m in re.finditer(r"^<(\w+) line \d+, col \d+ to line \d+, col \d+ of module MC_Intervals(?: \([\d ]+\))?>: "
                         r"(\d+):(\d+)", r["out"], re.M):
        taken[m.group(1)] = taken.get(m.group(1), 0) + int(m.group(3))     # disjuncts of one action are listed separately
    ctx.extra["action_transitions"] = taken
    dead = [a for a in ("Construct", "SetStart", "SetEnd", "Add", "Sub", "Mul", "Div", "Round", "Intersect", "AngleShift") if not taken.get(a)]
    if dead:
        from crv.tlc import MachineryError
        raise MachineryError("MC_Intervals: actions never taken (vacuous laws): %s" % dead)


def cases(ctx):
    cs = ctx.gen("MC_Intervals", "GEN_Intervals_t.cfg" if ctx.thorough else "GEN_Intervals.cfg")
    band = {}
    for c in cs:
        c["src"] = "tlc"
        if c["kind"] == "angle":                   # EITHER band sizes are computed by the spec per case; summed for the evidence
            tot = {"angle_contains": len(c["ths"]), "angle_contains_interval": len(c["js"]), "angle_overlaps": len(c["ojs"])}
            for k, v in c.pop("either").items():
                b = band.setdefault(k, {"either": 0, "total": 0})
                b["either"] += v
                b["total"] += tot[k]
    ctx.extra["either_bands_grid_arguments"] = band
    rng = ctx.rng
    n = 4000 if ctx.thorough else 400
    for _ in range(n):
        s = rng.randint(-40, 40)
        e = rng.randint(s, 40)
        lo, hi = s / 4 - 2, e / 4 + 2
        cs.append({"kind": "plain_random", "s": s, "e": e, "src": "random",
                   "xs": [rng.uniform(lo, hi) for _ in range(12)] + [rng.choice([s / 4, e / 4]) + rng.choice([-1, 1]) *
                                                                   10.0 ** -rng.randint(3, 12) for _ in range(4)],
                   "ints": [rng.randint(int(lo) - 1, int(hi) + 1) for _ in range(4)]})
    for _ in range(n):
        a = rng.randint(-24, 24)
        ln = rng.randint(0, 23)
        near = [g(rng.choice([a, a + ln]) + 24 * rng.randint(-1, 1)) + rng.choice([-1, 1]) * 10.0 ** -rng.randint(3, 5)
                for _ in range(4)]
        cs.append({"kind": "angle_random", "a": a, "len": ln, "src": "random",
                   "ths": [rng.uniform(-3 * math.pi, 3 * math.pi) for _ in range(12)] + near,
                   "ints": [rng.randint(-9, 9) for _ in range(4)]})
    return cs


def nontrivial(case):
    if case["kind"].startswith("plain"):
        return ("plain", case["s"], case["e"]) if case["e"] > case["s"] else None
    return ("angle", case["a"], case["len"]) if case["len"] > 0 else None


# ---- projections (what the code returned -> grid indices) ------------------------------------------------------

def _exc(ex):
    return "exc:" + type(ex).__name__


def _fine(v):
    """exact value in units of 1/200, or None"""
    import numbers
    if isinstance(v, bool) or not isinstance(v, numbers.Real):
        return None
    v = float(v)
    if not math.isfinite(v) or abs(v) > 1e6:
        return None
    m = round(v * 200)
    return m if m / 200 == v else None


def _aidx(v):
    """grid index of an angle (within 1e-9), or None"""
    import numbers
    if isinstance(v, bool) or not isinstance(v, numbers.Real):
        return None
    v = float(v)
    if not math.isfinite(v) or abs(v) > 1e3:
        return None
    k = round(v / STEP)
    return k if abs(v - g(k)) <= 1e-9 else None


def _cell(v, step):
    """(k, 0) if v lies strictly and safely inside the cell (k*step, (k+1)*step); None when too close to a grid point"""
    k = math.floor(v / step)
    lo, hi = k * step, (k + 1) * step
    if step == 0.25:
        return (k, 0) if lo < v < hi else None        # quarters are exact: any strict inequality is decisive
    return (k, 0) if lo + 1e-6 < v < hi - 1e-6 else None


def _bool(fn):
    try:
        r = fn()
    except Exception as ex:
        return _exc(ex)
    return "T" if r else "F"


def _iv(fn, proj):
    """run fn; project the returned interval with proj (None -> "None", off-grid / wrong type -> "offgrid")"""
    try:
        r = fn()
    except Exception as ex:
        return {"res": _exc(ex), "rs": 0, "re": 0}
    if r is None:
        return {"res": "None", "rs": 0, "re": 0}
    try:
        a, b = proj(r.start), proj(r.end)
    except Exception:
        a = b = None
    if a is None or b is None:
        return {"res": "offgrid", "rs": 0, "re": 0}
    return {"res": "ok", "rs": a, "re": b}


def _sgn(n):
    return "c>0" if n > 0 else "c<0" if n < 0 else "c=0"


def _lenclass(ln):
    return "len<pi" if ln < 12 else "len=pi" if ln == 12 else "len>pi"


# ---- execution -------------------------------------------------------------------------------------------------

def _plain(case, ev):
    from commonroad.common.util import Interval
    s, e = case["s"], case["e"]
    types = ["float"] + (["int"] if s % 4 == 0 and e % 4 == 0 else [])
    for typ in types:
        base = {"s": s, "e": e}
        mk = lambda: Interval(q(s, typ), q(e, typ))            # a fresh object for every call
        r = _iv(mk, _fine)
        ev.append(dict(base, op="construct", sig="construct/%s" % typ, **r))
        if r["res"] != "ok":
            continue
        for x in case["xs"]:
            for xt in ["float"] + (["int"] if x % 4 == 0 else []):
                v = q(x, xt)
                ev.append(dict(base, op="contains", x=x, xgrid=1, res=_bool(lambda: mk().contains(v)),
                               sig="contains/I:%s/x:%s" % (typ, xt)))
                ev.append(dict(base, op="contains", x=x, xgrid=1, res=_bool(lambda: v in mk()),
                               sig="in/I:%s/x:%s" % (typ, xt)))
        for js, je in case["js"]:
            jt = "int" if typ == "int" and js % 4 == 0 and je % 4 == 0 else "float"
            mj = lambda: Interval(q(js, jt), q(je, jt))
            b2 = dict(base, js=js, je=je)
            ev.append(dict(b2, op="contains_interval", res=_bool(lambda: mk().contains(mj())),
                           sig="contains_interval/method/%s" % typ))
            ev.append(dict(b2, op="contains_interval", res=_bool(lambda: mj() in mk()),
                           sig="contains_interval/in/%s" % typ))
            ev.append(dict(b2, op="overlaps", res=_bool(lambda: mk().overlaps(mj())), sig="overlaps/%s" % typ))
            ev.append(dict(b2, op="intersection", sig="intersection/%s" % typ, **_iv(lambda: mk().intersection(mj()), _fine)))
        for x in case["shifts"]:
            for xt in ["float"] + (["int"] if x % 4 == 0 and typ == "int" else []):
                v = q(x, xt)
                ev.append(dict(base, op="add", x=x, sig="add/I:%s/x:%s" % (typ, xt), **_iv(lambda: mk() + v, _fine)))
                ev.append(dict(base, op="sub", x=x, sig="sub/I:%s/x:%s" % (typ, xt), **_iv(lambda: mk() - v, _fine)))
            # end point assignment: admissible iff the result has start <= end
            def set_start():
                i = mk()
                i.start = q(x)
                return i

            def set_end():
                i = mk()
                i.end = q(x)
                return i
            ev.append(dict(base, op="set_start", x=x, sig="set_start/%s" % typ, **_iv(set_start, _fine)))
            ev.append(dict(base, op="set_end", x=x, sig="set_end/%s" % typ, **_iv(set_end, _fine)))
        for n, d in case["mul"]:
            for ct in ["float"] + (["int"] if d == 1 else []):
                c = n // d if ct == "int" else n / d
                ev.append(dict(base, op="mul", n=n, d=d, sig="mul/%s/I:%s/c:%s" % (_sgn(n), typ, ct),
                               **_iv(lambda: mk() * c, _fine)))
        for n, d in case["div"]:
            for ct in ["float"] + (["int"] if d == 1 else []):
                c = n // d if ct == "int" else n / d
                ev.append(dict(base, op="div", n=n, d=d, sig="div/%s/I:%s/c:%s" % (_sgn(n), typ, ct),
                               **_iv(lambda: mk() / c, _fine)))
        for n in case["rounds"]:
            fn = (lambda: round(mk())) if n == "None" else (lambda: round(mk(), int(n)))
            ev.append(dict(base, op="round", digits=n, sig="round/n=%s/%s" % (n, typ), **_iv(fn, _fine)))
        if e > s:                                                  # inverted construction must be rejected
            ev.append(dict(op="construct", s=e, e=s, sig="construct_inverted/%s" % typ,
                           **_iv(lambda: Interval(q(e, typ), q(s, typ)), _fine)))


def _plain_sets(case, ev):
    """construct [s, e], (query it once,) assign new bounds through the public setters along the path given by the spec,
    then query: the events carry the NEW bounds (sig suffix /after-set) - the object must behave as a fresh interval"""
    from commonroad.common.util import Interval
    s, e = case["s"], case["e"]
    for t in case.get("sets", []):
        for warm in (0, 1):
            def build(record=None):
                i = Interval(q(s), q(e))
                if warm:
                    try:
                        i.contains(q(s)), i.overlaps(Interval(q(s), q(e))), i.length
                    except Exception:
                        pass
                cs, ce = s, e
                for st in t["path"]:
                    x = st["x"]

                    def assign():
                        if st["f"] == "start":
                            i.start = q(x)
                        else:
                            i.end = q(x)
                        return i
                    if record is None:
                        assign()
                    else:
                        r = _iv(assign, _fine)
                        record.append(dict(op="set_" + st["f"], s=cs, e=ce, x=x, warm=warm, sig="set_%s/float" % st["f"], **r))
                        if r["res"] != "ok":
                            return None
                    if st["f"] == "start":
                        cs = x
                    else:
                        ce = x
                return i
            if build(ev) is None:
                continue                                           # the failed assignment itself is the reported event
            base = {"s": t["s"], "e": t["e"], "warm": warm}
            for x in t["xs"]:
                v = q(x)
                ev.append(dict(base, op="contains", x=x, xgrid=1, res=_bool(lambda: build().contains(v)),
                               sig="contains/I:float/x:float/after-set"))
                ev.append(dict(base, op="contains", x=x, xgrid=1, res=_bool(lambda: v in build()),
                               sig="in/I:float/x:float/after-set"))
            for js, je in t["js"]:
                mj = lambda: Interval(q(js), q(je))
                b2 = dict(base, js=js, je=je)
                ev.append(dict(b2, op="contains_interval", res=_bool(lambda: build().contains(mj())),
                               sig="contains_interval/method/float/after-set"))
                ev.append(dict(b2, op="overlaps", res=_bool(lambda: build().overlaps(mj())), sig="overlaps/float/after-set"))
                ev.append(dict(b2, op="intersection", sig="intersection/float/after-set",
                               **_iv(lambda: build().intersection(mj()), _fine)))
            ev.append(dict(base, op="add", x=1, sig="add/I:float/x:float/after-set", **_iv(lambda: build() + q(1), _fine)))
            ev.append(dict(base, op="mul", n=-2, d=1, sig="mul/c<0/I:float/c:float/after-set", **_iv(lambda: build() * -2.0, _fine)))
            ev.append(dict(base, op="div", n=-1, d=2, sig="div/c<0/I:float/c:float/after-set", **_iv(lambda: build() / -0.5, _fine)))
            ev.append(dict(base, op="round", digits="1", sig="round/n=1/float/after-set", **_iv(lambda: round(build(), 1), _fine)))


def _plain_random(case, ev):
    from commonroad.common.util import Interval
    s, e = case["s"], case["e"]
    base = {"s": s, "e": e}
    mk = lambda: Interval(q(s), q(e))
    for v, vt in [(x, "float") for x in case["xs"]] + [(x, "int") for x in case["ints"]]:
        if v * 4 == math.floor(v * 4):
            k, on = int(v * 4), 1
        else:
            c = _cell(v, 0.25)
            if c is None:
                continue
            k, on = c
        ev.append(dict(base, op="contains", x=k, xgrid=on, res=_bool(lambda: mk().contains(v)),
                       sig="contains/I:float/x:%s" % vt))
        ev.append(dict(base, op="contains", x=k, xgrid=on, res=_bool(lambda: v in mk()),
                       sig="in/I:float/x:%s" % vt))


def _angle_queries(base, mk, lc, queries, ev, suffix=""):
    """I.contains(v) and `v in I`; sig = call form / is the interval longer than pi / argument type"""
    for th, on, v, vt in queries:
        b2 = dict(base, op="angle_contains", th=th, thgrid=on, thtype=vt)
        ev.append(dict(b2, res=_bool(lambda: mk().contains(v)), sig="angle_contains/%s/%s%s" % (lc, vt, suffix)))
        ev.append(dict(b2, res=_bool(lambda: v in mk()), sig="angle_in/%s/%s%s" % (lc, vt, suffix)))


def _angle_sets(case, ev):
    """as _plain_sets, for AngleInterval (only intervals inside [-2pi, 2pi]: the stored end points are the floats given)"""
    from commonroad.common.util import AngleInterval
    a, ln = case["a"], case["len"]
    for t in case.get("sets", []):
        for warm in (0, 1):
            def build(record=None):
                i = AngleInterval(g(a), g(a + ln))
                if warm:
                    try:
                        g(a) in i, i.contains(0.3), i.contains(AngleInterval(g(a), g(a + ln))), i.length
                    except Exception:
                        pass
                ca, cb = a, a + ln
                for st in t["path"]:
                    x = st["x"]

                    def assign():
                        if st["f"] == "start":
                            i.start = g(x)
                        else:
                            i.end = g(x)
                        return i
                    if record is None:
                        assign()
                    else:
                        r = _iv(assign, _aidx)
                        record.append(dict(op="angle_set_" + st["f"], a=ca, len=cb - ca, x=x, warm=warm,
                                           sig="angle_set_%s" % st["f"], **r))
                        if r["res"] != "ok":
                            return None
                    if st["f"] == "start":
                        ca = x
                    else:
                        cb = x
                return i
            if build(ev) is None:
                continue
            lc = _lenclass(t["len"])
            base = {"a": t["a"], "len": t["len"], "warm": warm}
            qs = []
            for th in t["ths"]:
                qs.append((th, 1, g(th), "float"))
                if th == 0:
                    qs.append((th, 1, 0, "int"))
            _angle_queries(base, build, lc, qs, ev, suffix="/after-set")
            for x in t["shifts"]:
                ev.append(dict(base, op="angle_add", x=x, sig="angle_add/%s/after-set" % lc, **_iv(lambda: build() + g(x), _aidx)))
            for ja, jl in t["js"]:
                mj = lambda: AngleInterval(g(ja), g(ja + jl))
                try:
                    mj()
                except Exception:
                    continue
                b2 = dict(base, ja=ja, jlen=jl)
                ev.append(dict(b2, op="angle_contains_interval", res=_bool(lambda: build().contains(mj())),
                               sig="angle_contains_interval/I:%s/J:%s/after-set" % (lc, "len<pi" if jl < 12 else "len>=pi")))
                ev.append(dict(b2, op="angle_overlaps", res=_bool(lambda: build().overlaps(mj())),
                               sig="angle_overlaps/%s/after-set" % lc))
    # assigning an inverted bound must be rejected (the setters assert start <= end)
    if case.get("sets"):
        b = a + ln
        for f, x in (("start", b + 1), ("end", a - 1)):
            if -24 <= x <= 24:
                def assign():
                    i = AngleInterval(g(a), g(b))
                    if f == "start":
                        i.start = g(x)
                    else:
                        i.end = g(x)
                    return i
                ev.append(dict(op="angle_set_" + f, a=a, len=ln, x=x, warm=0, sig="angle_set_%s/inverted" % f,
                               **_iv(assign, _aidx)))


def _angle(case, ev):
    from commonroad.common.util import AngleInterval
    a, ln = case["a"], case["len"]
    lc = _lenclass(ln)
    base = {"a": a, "len": ln}
    mk = lambda: AngleInterval(g(a), g(a + ln))
    r = _iv(mk, _aidx)
    ev.append(dict(op="angle_construct", a=a, b=a + ln, sig="angle_construct/%s" % lc, **r))
    if r["res"] != "ok":
        return
    qs = []
    for th in case["ths"]:
        qs.append((th, 1, g(th), "float"))
        if th == 0:
            qs.append((th, 1, 0, "int"))
    _angle_queries(base, mk, lc, qs, ev)
    for x in case["shifts"]:
        ev.append(dict(base, op="angle_add", x=x, sig="angle_add/%s" % lc, **_iv(lambda: mk() + g(x), _aidx)))
        ev.append(dict(base, op="angle_sub", x=x, sig="angle_sub/%s" % lc, **_iv(lambda: mk() - g(x), _aidx)))
    for ja, jl in case["js"]:
        mj = lambda: AngleInterval(g(ja), g(ja + jl))
        try:
            mj()
        except Exception:
            continue                                               # reported by J's own case (angle_construct)
        b2 = dict(base, ja=ja, jlen=jl)
        ev.append(dict(b2, op="angle_contains_interval", res=_bool(lambda: mk().contains(mj())),
                       sig="angle_contains_interval/I:%s/J:%s" % (lc, "len<pi" if jl < 12 else "len>=pi")))
    for ja, jl in case["ojs"]:
        mj = lambda: AngleInterval(g(ja), g(ja + jl))
        try:
            mj()
        except Exception:
            continue
        b2 = dict(base, ja=ja, jlen=jl)
        ev.append(dict(b2, op="angle_overlaps", res=_bool(lambda: mk().overlaps(mj())), sig="angle_overlaps/%s" % lc))
    if ln > 0:
        ev.append(dict(op="angle_construct", a=a + ln, b=a, sig="angle_construct_inverted",
                       **_iv(lambda: AngleInterval(g(a + ln), g(a)), _aidx)))


def _angle_random(case, ev):
    from commonroad.common.util import AngleInterval
    a, ln = case["a"], case["len"]
    lc = _lenclass(ln)
    mk = lambda: AngleInterval(g(a), g(a + ln))
    try:
        mk()
    except Exception:
        return
    qs = []
    for v, vt in [(x, "float") for x in case["ths"]] + [(x, "int") for x in case["ints"]]:
        if v == 0:
            qs.append((0, 1, v, vt))
            continue
        c = _cell(float(v), STEP)
        if c is not None and -37 <= c[0] <= 36:
            qs.append((c[0], 0, v, vt))
    _angle_queries({"a": a, "len": ln}, mk, lc, qs, ev)


def execute(case):
    use_repo()
    ev = []
    {"plain": _plain, "angle": _angle, "plain_random": _plain_random, "angle_random": _angle_random}[case["kind"]](case, ev)
    if case["kind"] == "plain":
        _plain_sets(case, ev)
    elif case["kind"] == "angle":
        _angle_sets(case, ev)
    return {"ev": ev}


def corrupt(trace, rng):
    """Corrupt ONE logged result so that the trace spec must reject exactly that event:
    flip a two-valued plain answer, or move one end point of an operation result by one unit."""
    flip = [i for i, e in enumerate(trace["ev"]) if e["op"] in ("contains", "contains_interval", "overlaps")
            and e["res"] in ("T", "F")]
    move = [i for i, e in enumerate(trace["ev"]) if e["op"] in ("add", "sub", "mul", "div", "round", "intersection",
                                                                "angle_add", "angle_sub") and e["res"] == "ok"]
    if not flip and not move:
        return None
    if flip and (not move or rng.random() < 0.5):
        e = trace["ev"][rng.choice(flip)]
        e["res"] = "F" if e["res"] == "T" else "T"
    else:
        e = trace["ev"][rng.choice(move)]
        e["re"] += 1
    return trace
