"""C17 - traffic-light state follows the cycle definition (spec: TrafficLight.tla)."""
from crv.core import use_repo

PROPERTY = "C17"
MODULES = ["TrafficLight", "MC_TrafficLight", "Trace_TrafficLight"]
TRACE = ("Trace_TrafficLight", "Trace_TrafficLight.cfg")
EXHAUSTIVE = True
RULE = ("TLC enumerates every cycle of 1..3 elements (quick; 1..4 thorough) with durations 1..3 over 3 colours x "
        "offsets 0..3; each case is executed for every t in 0..offset+3*total on a cold cycle object, on a warm "
        "(previously queried) one and through TrafficLight; plus seeded random larger cycles. "
        "distinct_nontrivial = distinct (cycle, offset) pairs with >= 2 elements.")
ASSUMPTIONS = ["cycle elements have positive integer durations, offset >= 0 (statement's quantifier)",
               "trace events carry the cycle, offset, t and the returned colour; expected colour is computed by "
               "TLC from TrafficLight.tla!StateAt, not by the harness"]

_COL = {"red": "RED", "green": "GREEN", "yellow": "YELLOW", "red_yellow": "RED_YELLOW", "inactive": "INACTIVE"}


_REV = {v: k for k, v in _COL.items()}


def model_check(ctx):
    ctx.mc("MC_TrafficLight", "MC_TrafficLight4.cfg" if ctx.thorough else "MC_TrafficLight.cfg", coverage=True)
    if ctx.thorough:      # unbounded histories: inductive invariant of spec/APA_TrafficLight.tla checked by Apalache (crv/apalache.py)
        from crv import apalache
        apalache.append_run(ctx, "APA_TrafficLight")


def cases(ctx):
    cs = ctx.gen("MC_TrafficLight", "GEN_TrafficLight4.cfg" if ctx.thorough else "GEN_TrafficLight.cfg")
    for c in cs:
        c["src"] = "tlc"
    rng = ctx.rng
    cols = list(_COL)
    for _ in range(3000 if ctx.thorough else 300):
        n = rng.randint(1, 8)
        cyc = [{"d": rng.randint(1, 12), "c": rng.choice(cols)} for _ in range(n)]
        off = rng.randint(0, 40)
        cs.append({"cyc": cyc, "off": off, "horizon": off + 2 * sum(e["d"] for e in cyc) + 3, "src": "random",
                   "tmin": -rng.randint(0, 30)})
    # durations / offsets handed over as numpy scalars of narrow types (a compact array of step counts): every single
    # duration fits the type, the period does not always
    # (signed types only, offsets stay Python ints: with unsigned / narrow OFFSETS the shipped arithmetic `t - offset`
    #  itself overflows under numpy 2 for t beyond the type - the annotations say `int`, that is outside the statement)
    kinds = ["int8", "int16", "int32", "int64"]
    for i in range(600 if ctx.thorough else 60):
        dt = kinds[i % len(kinds)]
        hi = {"int8": 120}.get(dt, 300)
        n = rng.randint(2, 4)
        cyc = [{"d": rng.randint(hi // 4, hi), "c": rng.choice(cols)} for _ in range(n)]
        off = rng.randint(0, 40)
        tot = sum(e["d"] for e in cyc)
        edges, acc = [], off
        for e in cyc:
            edges += [acc - 1, acc, acc + 1]
            acc += e["d"]
        ts = sorted({t for t in edges + [acc - 1, acc, acc + 1, off + tot + 5, off + 2 * tot - 1] if t >= 0})
        cs.append({"cyc": cyc, "off": off, "horizon": off + tot, "src": "dtype", "tmin": 0, "dt": dt, "ts": ts,
                   "offdt": "int"})
    return cs


def nontrivial(case):
    if len(case["cyc"]) < 2:
        return None
    return (tuple((e["d"], e["c"]) for e in case["cyc"]), case["off"])


def _mk(case):
    use_repo()
    from commonroad.scenario.traffic_light import TrafficLightCycle, TrafficLightCycleElement, TrafficLightState
    import numpy as np
    conv = (lambda v: v) if case.get("dt", "int") == "int" else np.dtype(case["dt"]).type
    oconv = (lambda v: v) if case.get("offdt", "int") == "int" else np.dtype(case["offdt"]).type
    els = [TrafficLightCycleElement(TrafficLightState[_COL[e["c"]]], conv(e["d"])) for e in case["cyc"]]
    return TrafficLightCycle(els, time_offset=oconv(case["off"]))


def _q(obj, t):
    try:
        r = obj.get_state_at_time_step(t)
        return _REV.get(getattr(r, "name", None), "exc")
    except Exception:
        return "exc"


def execute(case):
    use_repo()
    import numpy as np
    from commonroad.scenario.traffic_light import TrafficLight
    ev = []
    base = {"cyc": case["cyc"], "off": case["off"]}
    total = sum(e["d"] for e in case["cyc"])
    warm = _mk(case)
    light = TrafficLight(1, np.array([0.0, 0.0]), _mk(case))
    # "TrafficLight.get_state_at_time_step agrees with its cycle" - whatever the light's own active flag says and
    # however the cycle got there
    light_off = TrafficLight(2, np.array([0.0, 0.0]), _mk(case), active=False)
    light_late = TrafficLight(3, np.array([0.0, 0.0]))
    light_late.traffic_light_cycle = _mk(case)
    light_switched = TrafficLight(4, np.array([0.0, 0.0]), _mk(case))
    light_switched.active = False
    # the optional `color` list names the lamps of the signal head; it must not change what the light reports
    from commonroad.scenario.traffic_light import TrafficLightState as _S
    light_col1 = TrafficLight(6, np.array([0.0, 0.0]), _mk(case), color=[_S.GREEN])
    light_col3 = TrafficLight(7, np.array([0.0, 0.0]), _mk(case))
    light_col3.color = [_S.RED, _S.YELLOW, _S.GREEN]
    ts = case.get("ts") or list(range(case.get("tmin", 0), case["horizon"] + 1))
    tag = ("/" + case["dt"]) if case.get("dt") else ""
    for t in ts:
        cold = _mk(case)                      # fresh object: cache never filled
        ev.append(dict(base, op="cycle_state", t=t, res=_q(cold, t), sig="cold" + tag))
        ev.append(dict(base, op="cycle_state", t=t, res=_q(warm, t), sig="warm" + tag))
        ev.append(dict(base, op="light_state", t=t, res=_q(light, t), sig="light" + tag))
        if t % 3 == 0:
            ev.append(dict(base, op="light_state", t=t, res=_q(light_off, t), sig="light/constructed-inactive"))
            ev.append(dict(base, op="light_state", t=t, res=_q(light_late, t), sig="light/cycle-set-later"))
            ev.append(dict(base, op="light_state", t=t, res=_q(light_switched, t), sig="light/switched-off"))
            ev.append(dict(base, op="light_state", t=t, res=_q(light_col1, t), sig="light/color-list-one"))
            ev.append(dict(base, op="light_state", t=t, res=_q(light_col3, t), sig="light/color-list-set-later"))
    # two cycles constructed WITHOUT an element list and filled in place afterwards: each follows its own definition
    from commonroad.scenario.traffic_light import TrafficLightCycle as _TLC, TrafficLightCycleElement as _TLE, \
        TrafficLightState as _TLS
    if not case.get("dt"):
        first, second = _TLC(time_offset=case["off"]), _TLC(time_offset=case["off"])
        cyc2 = [dict(e) for e in reversed(case["cyc"])] + [{"d": 1, "c": "green"}]
        for e in case["cyc"]:
            first.cycle_elements.append(_TLE(_TLS[_COL[e["c"]]], e["d"]))
        for e in cyc2:
            second.cycle_elements.append(_TLE(_TLS[_COL[e["c"]]], e["d"]))
        b2 = {"cyc": cyc2, "off": case["off"]}
        for t in ts[:: max(1, len(ts) // 12)]:
            ev.append(dict(base, op="cycle_state", t=t, res=_q(first, t), sig="late-filled/first"))
            ev.append(dict(b2, op="cycle_state", t=t, res=_q(second, t), sig="late-filled/second"))
    # periodicity far away from the origin (many periods later), decided on the code's own answers
    for t in (ts[0], ts[len(ts) // 2]):
        k = 1000
        ev.append(dict(base, op="periodic", t=t, res=_q(warm, t), res2=_q(warm, t + k * total), sig="periodic"))
    # the cycle definition may change in place after it has been queried (element duration, element list, offset):
    # the reported state must follow the CURRENT definition
    from commonroad.scenario.traffic_light import TrafficLightCycleElement, TrafficLightState
    if case.get("dt"):
        return {"ev": ev}                                  # (in-place edits are exercised on the plain-int cases)
    cur = [dict(e) for e in case["cyc"]]
    off = case["off"]
    obj = warm
    # ... also when the cycle is owned by a light that was asked for the very same time step just before the edit
    # (no other query in between: an answer remembered by the light must not survive an edit of its cycle)
    owner = TrafficLight(5, np.array([0.0, 0.0]), obj)
    last_t = ts[-1]
    ev.append(dict(base, op="light_state", t=last_t, res=_q(owner, last_t), sig="light/owner"))
    steps = [("duration", 0), ("append", 0), ("offset", 0), ("duration", -1), ("pop", 0)]
    for kind, idx in steps:
        if kind == "duration":
            cur[idx]["d"] = cur[idx]["d"] % 3 + 1
            obj.cycle_elements[idx].duration = cur[idx]["d"]
        elif kind == "append":
            cur.append({"d": 2, "c": "green" if cur[-1]["c"] != "green" else "red"})
            obj.cycle_elements.append(TrafficLightCycleElement(TrafficLightState[_COL[cur[-1]["c"]]], 2))
        elif kind == "pop":
            if len(cur) < 2:
                continue
            cur.pop(0)
            obj.cycle_elements.pop(0)
        else:
            off = off + 1
            obj.time_offset = off
        b2 = {"cyc": [dict(e) for e in cur], "off": off}
        tot = sum(e["d"] for e in cur)
        ev.append(dict(b2, op="light_state", t=last_t, res=_q(owner, last_t), sig="light/owner/same-step-after-" + kind))
        for t in range(max(0, off - 2), off + tot + 2):
            ev.append(dict(b2, op="cycle_state", t=t, res=_q(obj, t), sig="after-" + kind))
            ev.append(dict(b2, op="light_state", t=t, res=_q(owner, t), sig="light/owner/after-" + kind))
            last_t = t
    return {"ev": ev}


def corrupt(trace, rng):
    """Flip one logged result to another colour: the trace spec must reject exactly that event."""
    evs = [i for i, e in enumerate(trace["ev"]) if e["op"] == "cycle_state" and e["res"] != "exc"]
    if not evs:
        return None
    i = rng.choice(evs)
    cur = trace["ev"][i]["res"]
    trace["ev"][i]["res"] = "green" if cur != "green" else "red"
    return trace
