"""C18 - read-only operations do not change scenarios or planning problems
(spec: ReadOnly.tla, MC_ReadOnly.tla, Trace_ReadOnly.tla)."""
import copy
import hashlib
import json
import math
import os
import pickle
import re

from crv import tlc
from crv.core import use_repo

PROPERTY = "C18"
MODULES = ["ReadOnly", "MC_ReadOnly", "Trace_ReadOnly"]
TRACE = ("Trace_ReadOnly", "Trace_ReadOnly.cfg")
EXHAUSTIVE = True
RULE = ("TLC enumerates every archetype (subset of <= 2, thorough <= 3, of 8 scenario features on which side effects "
        "are conditional) x every ordered pair of the 16 read-only operations and checks the frame condition on the "
        "model (two deviation constants reproduce the shipped side effects); every case plus seeded random sequences "
        "of 6 operations on richer archetypes is executed on real objects: before the sequence and after EACH "
        "operation a structural snapshot (all attributes reachable from scenario and planning-problem set, caches "
        "excluded by name) and the XML export (date stripped) are taken; TLC validates before = after. "
        "distinct_nontrivial = distinct (archetype, operation sequence).")
ASSUMPTIONS = ["the snapshot walks object attributes (dataclass fields, __dict__, __slots__) and excludes derived data "
               "by name: occupancy_set, spatial index, cached polygons/distances, cycle_init_timesteps, shapely objects",
               "floats are compared exactly (repr)", "drawing uses the Agg backend"]

CACHE_ATTRS = {"occupancy_set", "_strtee", "_lanelet_id_index_by_id", "_buffered_polygons", "_distance", "_inner_distance",
               "_cycle_init_timesteps", "_shapely_polygon", "_shapely_circle", "_shapely_object", "_polygon",
               "_initial_occupancy_shape"}


CLASS_CACHE = {"Rectangle": {"_vertices"}}       # lazily computed from length / width / center / orientation


def model_check(ctx):
    ctx.mc("MC_ReadOnly", "MC_ReadOnly.cfg" if ctx.thorough else "MC_ReadOnly_q.cfg")
    ctx.mc_expect("MC_ReadOnly", "DEV_ReadOnly_1.cfg", "PropFrame")
    ctx.mc_expect("MC_ReadOnly", "DEV_ReadOnly_2.cfg", "PropFrame")
    ctx.mc_expect("MC_ReadOnly", "DEV_ReadOnly_3.cfg", "PropFrame")


OPS = ["occupancy", "state", "scenario_queries", "lanelet_lookup", "lanelet_geometry", "light", "is_reached",
       "goal_reached", "eq", "hash", "deepcopy", "pickle", "draw", "draw_render", "write_xml", "write_pb",
       "edit_deepcopy", "edit_pickle", "edit_network_copy", "edit_network_from_list"]
FEATURES = ["custom_no_orientation", "point_mass", "goal_defaultdict", "goal_partial_lanelets", "set_based", "uncertain",
            "defaults", "environment"]


def cases(ctx):
    cs = ctx.gen("MC_ReadOnly", "GEN_ReadOnly_t.cfg" if ctx.thorough else "GEN_ReadOnly.cfg")
    if not ctx.thorough:
        # quick tier: all archetypes x all first operations, second operation sampled (keeps the order-sensitive pairs)
        keep = []
        for c in cs:
            h = int(hashlib.sha1(json.dumps(c, sort_keys=True).encode()).hexdigest(), 16)
            if c["ops"][1] in ("write_xml", "write_pb", "occupancy", "hash") or h % 4 == 0:
                keep.append(c)
        cs = keep
    for c in cs:
        c["src"] = "tlc"
    rng = ctx.rng
    for _ in range(600 if ctx.thorough else 120):
        cs.append({"src": "random", "arch": sorted(rng.sample(FEATURES, rng.randint(2, 6))),
                   "ops": [rng.choice(OPS) for _ in range(6)]})
    return cs


def nontrivial(case):
    return json.dumps([sorted(case["arch"]), case["ops"]])


# ---- gamma ---------------------------------------------------------------------------------------------

def build_world(arch):
    import numpy as np
    from commonroad.common.util import AngleInterval, Interval
    from commonroad.geometry.shape import Circle, Polygon, Rectangle
    from commonroad.planning.goal import GoalRegion
    from commonroad.planning.planning_problem import PlanningProblem, PlanningProblemSet
    from commonroad.prediction.prediction import Occupancy, SetBasedPrediction, TrajectoryPrediction
    from commonroad.scenario.obstacle import (DynamicObstacle, EnvironmentObstacle, ObstacleType, PhantomObstacle,
                                              StaticObstacle)
    from commonroad.scenario.scenario import Tag
    from commonroad.scenario.state import CustomState, InitialState, KSState, PMState
    from commonroad.scenario.trajectory import Trajectory
    from crv import gamma as G
    arch = set(arch)
    sc = G.scenario()
    sc.author, sc.affiliation, sc.source, sc.tags = "a", "b", "c", {Tag.URBAN}
    # lanelets carry non-default optional data (line markings of every drawing style, stop line, types, users,
    # adjacency): side effects of read-only code are conditional on such data
    from commonroad.common.common_lanelet import LaneletType, LineMarking, RoadUser, StopLine
    # (a successor list that is not in sorted order: clean-up / normalisation must not be a
    #  side effect of a query)
    l1 = G.lanelet(1, 0.0, 0.0, 10.0, 2.0, n=3, successor=[3, 2], traffic_signs={30}, traffic_lights={40},
                   line_marking_left_vertices=LineMarking.SOLID, line_marking_right_vertices=LineMarking.BROAD_SOLID,
                   stop_line=StopLine(np.array([9.0, 0.0]), np.array([9.0, 2.0]), LineMarking.SOLID, {30}, {40}),
                   lanelet_type={LaneletType.URBAN}, user_one_way={RoadUser.CAR, RoadUser.BUS},
                   adjacent_left=3, adjacent_left_same_direction=False)
    l2 = G.lanelet(2, 10.0, 0.0, 10.0, 2.0, n=3, predecessor=[1], line_marking_left_vertices=LineMarking.CURB,
                   line_marking_right_vertices=LineMarking.DASHED, user_bidirectional={RoadUser.BICYCLE})
    l3 = G.lanelet_from_polylines(3, [[10.0, 2.0], [5.0, 2.0], [0.0, 2.0]], [[10.0, 4.0], [5.0, 4.0], [0.0, 4.0]],
                                  adjacent_left=1, adjacent_left_same_direction=False,
                                  line_marking_left_vertices=LineMarking.SOLID_SOLID,
                                  line_marking_right_vertices=LineMarking.BROAD_DASHED)
    sc.add_objects(l3)
    sc.add_objects([l1, l2])
    sc.add_objects(G.sign(30, (1.0, 3.0)), {1})
    # stored parameters in non-canonical form (time offsets beyond one cycle length, an inactive phase): a query must not
    # normalise what it reads
    sc.add_objects(G.light(40, (2.0, 3.0), offset=12), {1})
    sc.add_objects(G.light(41, (12.0, 3.0), cycle=(("red_yellow", 1), ("inactive", 2), ("yellow", 1)), offset=7), {2})
    sc.add_objects(G.static_obstacle(50, 3.0, 1.0))
    sc.add_objects(G.static_obstacle(60, 13.0, 1.0))           # on the successor lanelet
    sc.add_objects(G.dynamic_obstacle(51, 1.0, 1.0, poses=[(2.0, 1.0, 0.0), (3.0, 1.0, 0.1)]))
    if "custom_no_orientation" in arch:
        sts = [CustomState(position=np.array([4.0 + i, 1.0]), velocity=1.0, velocity_y=0.5, time_step=1 + i) for i in range(2)]
        sc.add_objects(DynamicObstacle(52, ObstacleType.CAR, G.rect(2.0, 1.0), G.init_state(4.0, 1.0),
                                       TrajectoryPrediction(Trajectory(1, sts), G.rect(2.0, 1.0))))
    if "point_mass" in arch:
        sts = [PMState(position=np.array([6.0 + i, 1.0]), velocity=1.0, velocity_y=-0.5, time_step=1 + i) for i in range(2)]
        sc.add_objects(DynamicObstacle(53, ObstacleType.BICYCLE, Circle(0.5), G.init_state(6.0, 1.0),
                                       TrajectoryPrediction(Trajectory(1, sts), Circle(0.5))))
    if "set_based" in arch:
        occ = [Occupancy(1, Rectangle(2.0, 1.0, np.array([8.0, 1.0]), 0.0)),
               Occupancy(Interval(2, 3), Polygon(np.array([[9.0, 0.0], [11.0, 0.0], [10.0, 2.0]])))]
        sc.add_objects(DynamicObstacle(54, ObstacleType.TRUCK, G.rect(2.0, 1.0), G.init_state(8.0, 1.0),
                                       SetBasedPrediction(1, occ)))
        sc.add_objects(PhantomObstacle(55, SetBasedPrediction(0, [Occupancy(0, Circle(1.0, np.array([12.0, 1.0])))])))
    if "uncertain" in arch:
        st = InitialState(position=Rectangle(1.0, 1.0, np.array([14.0, 1.0])), orientation=AngleInterval(-0.1, 0.2),
                          time_step=0, velocity=Interval(0.0, 1.0), acceleration=0.0, yaw_rate=0.0, slip_angle=0.0)
        sc.add_objects(StaticObstacle(56, ObstacleType.PARKED_VEHICLE, G.rect(2.0, 1.0), st))
    if "defaults" in arch:
        sc.add_objects(StaticObstacle(57, ObstacleType.UNKNOWN, Circle(0.4), G.init_state(16.0, 1.0)))
        sc.add_objects(DynamicObstacle(58, ObstacleType.PEDESTRIAN, Circle(0.3), G.init_state(17.0, 1.0)))
    if "environment" in arch:
        sc.add_objects(EnvironmentObstacle(59, ObstacleType.BUILDING, Polygon(np.array([[0.0, 5.0], [4.0, 5.0], [4.0, 8.0], [0.0, 8.0]]))))
    # lanelets know the obstacles on them (registries are part of the observable state of a lanelet)
    sc.assign_obstacles_to_lanelets(obstacle_ids={50, 51, 60})
    # planning problems
    g0 = CustomState(time_step=Interval(1, 5), position=Rectangle(4.0, 2.0, np.array([15.0, 1.0])),
                     orientation=AngleInterval(-0.5, 0.5), velocity=Interval(0.0, 10.0))
    g1 = CustomState(time_step=Interval(2, 6), position=Circle(2.0, np.array([5.0, 1.0])))
    lan = {0: [2]} if "goal_partial_lanelets" in arch else {0: [2], 1: [1]}
    pps = PlanningProblemSet([PlanningProblem(70, G.init_state(1.0, 1.0), GoalRegion([g0, g1], lan))])
    if "goal_defaultdict" in arch:
        from commonroad.common.file_reader import CommonRoadFileReader
        from commonroad.common.file_writer import CommonRoadFileWriter, OverwriteExistingFile
        d = os.path.join(tlc.OUT, "c18_tmp")
        os.makedirs(d, exist_ok=True)
        path = os.path.join(d, "w%d.xml" % os.getpid())
        CommonRoadFileWriter(sc, pps).write_to_file(path, OverwriteExistingFile.ALWAYS)
        sc, pps = CommonRoadFileReader(path).open()
        os.remove(path)
    return sc, pps


# ---- alpha: structural snapshot ------------------------------------------------------------------------

def snapshot(obj, depth=0, seen=None):
    import enum
    import numpy as np
    if seen is None:
        seen = set()
    if obj is None or isinstance(obj, (bool, int, str)):
        return obj
    if isinstance(obj, float):
        return repr(obj)
    if isinstance(obj, (np.floating, np.integer)):
        return repr(obj.item())
    if isinstance(obj, enum.Enum):
        return "%s.%s" % (type(obj).__name__, obj.name)
    if isinstance(obj, np.ndarray):
        return ["nd", list(obj.shape), [repr(float(x)) for x in obj.ravel()]]
    if isinstance(obj, (list, tuple)):
        return [snapshot(x, depth + 1, seen) for x in obj]
    if isinstance(obj, (set, frozenset)):
        return ["set"] + sorted((snapshot(x, depth + 1, seen) for x in obj), key=lambda v: json.dumps(v, sort_keys=True))
    if isinstance(obj, dict):
        return ["dict", type(obj).__name__] + sorted(
            ([snapshot(k, depth + 1, seen), snapshot(v, depth + 1, seen)] for k, v in obj.items()),
            key=lambda v: json.dumps(v[0], sort_keys=True))
    mod = type(obj).__module__ or ""
    if not mod.startswith("commonroad"):
        return "<%s>" % type(obj).__name__                      # shapely geometries, STRtree, ...
    if id(obj) in seen or depth > 40:
        return "<cycle>"
    seen = seen | {id(obj)}
    out = {"__class__": type(obj).__name__}
    names = set(getattr(obj, "__dict__", {}).keys())
    for klass in type(obj).__mro__:
        names |= set(getattr(klass, "__slots__", ()) or ())
    for n in sorted(names):
        if n in CACHE_ATTRS or n.startswith("__") or "shapely" in n or n in CLASS_CACHE.get(type(obj).__name__, ()):
            continue
        if not hasattr(obj, n):
            continue
        out[n] = snapshot(getattr(obj, n), depth + 1, seen)
    return out


def digest(sc, pps):
    s = json.dumps([snapshot(sc), snapshot(pps)], sort_keys=True)
    return hashlib.sha1(s.encode()).hexdigest(), s


def export(sc, pps, tag):
    from commonroad.common.file_writer import CommonRoadFileWriter, OverwriteExistingFile
    d = os.path.join(tlc.OUT, "c18_tmp")
    os.makedirs(d, exist_ok=True)
    path = os.path.join(d, "e%d_%s.xml" % (os.getpid(), tag))
    # export a deep copy: the export itself is one of the operations under test ("write_xml"), not part of the probe
    CommonRoadFileWriter(copy.deepcopy(sc), copy.deepcopy(pps), author="a", affiliation="b", source="c",
                         tags=set()).write_to_file(path, OverwriteExistingFile.ALWAYS)
    with open(path, "rb") as f:
        raw = re.sub(rb'date="[^"]*"', b"", f.read())
    os.remove(path)
    return hashlib.sha1(raw).hexdigest()


def _first_diff(a, b, path="$"):
    if type(a) != type(b):
        return path
    if isinstance(a, dict):
        for k in sorted(set(a) | set(b)):
            if k not in a or k not in b:
                return path + "." + k
            d = _first_diff(a[k], b[k], path + "." + k)
            if d:
                return d
        return None
    if isinstance(a, list):
        if len(a) != len(b):
            return path + "[len]"
        for i, (x, y) in enumerate(zip(a, b)):
            d = _first_diff(x, y, "%s[%d]" % (path, i))
            if d:
                return d
        return None
    return None if a == b else path


# ---- the read-only operations ---------------------------------------------------------------------------

def do_op(op, sc, pps):
    import numpy as np
    from commonroad.common.file_writer import CommonRoadFileWriter, OverwriteExistingFile
    from commonroad.common.util import FileFormat, Interval
    from commonroad.geometry.shape import Rectangle
    from commonroad.scenario.state import KSState
    from commonroad.scenario.trajectory import Trajectory
    net = sc.lanelet_network
    if op == "occupancy":
        for o in sc.obstacles:
            for t in range(0, 4):
                o.occupancy_at_time(t)
    elif op == "state":
        for o in sc.obstacles:
            if hasattr(o, "state_at_time"):
                for t in range(0, 4):
                    o.state_at_time(t)
    elif op == "scenario_queries":
        for t in range(0, 3):
            sc.occupancies_at_time_step(t)
            sc.obstacle_states_at_time_step(t)
            try:
                sc.obstacles_by_position_intervals([Interval(0, 10), Interval(0, 2)], time_step=t)
            except TypeError:
                pass          # uncertain (region-valued) positions are outside this query's domain
        sc.obstacles_by_role_and_type()
        sc.obstacle_by_id(51)
    elif op == "lanelet_lookup":
        net.find_lanelet_by_position([np.array([1.0, 1.0]), np.array([50.0, 50.0])])
        net.find_lanelet_by_shape(Rectangle(2.0, 1.0, np.array([9.5, 1.0])))
        net.lanelets_in_proximity(np.array([1.0, 1.0]), 5.0)
        net.find_lanelet_by_id(1)
        net.map_obstacles_to_lanelets(sc.static_obstacles)
        net.filter_obstacles_in_network(sc.static_obstacles)
    elif op == "lanelet_geometry":
        for la in net.lanelets:
            la.distance
            la.inner_distance
            la.polygon
            la.interpolate_position(1.0)
            la.orientation_by_position(np.array(la.center_vertices[1], dtype=float))
            la.contains_points(np.array([[1.0, 1.0], [11.0, 1.0]]))
            la.find_lanelet_successors_in_range(net, 30.0)
            la.find_lanelet_predecessors_in_range(net, 30.0)
        for la in net.lanelets:
            type(la).all_lanelets_by_merging_successors_from_lanelet(la, net, 50.0)
            type(la).all_lanelets_by_merging_predecessors_from_lanelet(la, net, 50.0)
        net.lanelets[0].get_obstacles(sc.static_obstacles, 0)
    elif op == "light":
        for tl in net.traffic_lights:
            for t in range(0, 7):
                tl.get_state_at_time_step(t)
    elif op in ("is_reached", "goal_reached"):
        sts = [KSState(position=np.array([14.0 + i, 1.0]), orientation=0.1, velocity=1.0, steering_angle=0.0,
                       time_step=1 + i) for i in range(3)]
        for pp in pps.planning_problem_dict.values():
            if op == "is_reached":
                for s in sts:
                    pp.goal.is_reached(s)
            else:
                pp.goal_reached(Trajectory(1, sts))
    elif op == "eq":
        sc == sc
        pps == pps
        for o in sc.obstacles:
            o == o
        net == net
    elif op == "hash":
        hash(sc)
        hash(pps)
        for o in sc.obstacles:
            hash(o)
        hash(net)
    elif op == "deepcopy":
        copy.deepcopy(sc)
        copy.deepcopy(pps)
    elif op == "pickle":
        pickle.loads(pickle.dumps(sc))
        pickle.loads(pickle.dumps(pps))
    elif op in ("edit_deepcopy", "edit_pickle"):                # copy the scenario, then edit the COPY
        sc2 = copy.deepcopy(sc) if op == "edit_deepcopy" else pickle.loads(pickle.dumps(sc))
        pps2 = copy.deepcopy(pps) if op == "edit_deepcopy" else pickle.loads(pickle.dumps(pps))
        sc2.translate_rotate(np.array([3.0, -2.0]), 0.5)
        pps2.translate_rotate(np.array([3.0, -2.0]), 0.5)
        _edit_network(sc2.lanelet_network)
        sc2.assign_obstacles_to_lanelets()
        for o in list(sc2.obstacles)[:2]:
            sc2.remove_obstacle(o)
        for o in sc2.dynamic_obstacles[:1]:
            o.update_initial_state(o.state_at_time(o.initial_state.time_step + 1) if o.prediction is not None
                                   and hasattr(o.prediction, "trajectory") else o.initial_state)
    elif op in ("edit_network_copy", "edit_network_from_list"):  # copy the lanelet network, then edit the COPY
        from commonroad.scenario.lanelet import LaneletNetwork
        if op == "edit_network_copy":
            n2 = LaneletNetwork.create_from_lanelet_network(net)
            n3 = LaneletNetwork.create_from_lanelet_network(net, shape_input=Rectangle(30.0, 30.0, np.array([5.0, 1.0])))
        else:
            n2 = LaneletNetwork.create_from_lanelet_list(net.lanelets, cleanup_ids=False)
            n3 = LaneletNetwork.create_from_lanelet_list(net.lanelets, cleanup_ids=True)
        for n in (n2, n3):
            n.translate_rotate(np.array([3.0, -2.0]), 0.5)
            _edit_network(n)
    elif op in ("draw", "draw_render"):
        import matplotlib
        matplotlib.use("Agg")
        import matplotlib.pyplot as plt
        from commonroad.visualization.mp_renderer import MPRenderer
        rnd = MPRenderer()
        sc.draw(rnd)
        pps.draw(rnd)
        if op == "draw_render":
            rnd.render()
        plt.close("all")
    elif op in ("write_xml", "write_pb"):
        d = os.path.join(tlc.OUT, "c18_tmp")
        os.makedirs(d, exist_ok=True)
        path = os.path.join(d, "o%d.%s" % (os.getpid(), "xml" if op == "write_xml" else "pb"))
        CommonRoadFileWriter(sc, pps, author="a", affiliation="b", source="c", tags=set(),
                             file_format=FileFormat.XML if op == "write_xml" else FileFormat.PROTOBUF) \
            .write_to_file(path, OverwriteExistingFile.ALWAYS)
        os.remove(path)
    else:
        raise tlc.MachineryError("unknown op " + op)


def _edit_network(n):
    """Public edits of a COPIED network that reach the lanelets' sub-objects (reference sets, stop line, registries)."""
    import numpy as np
    from crv import gamma as G
    la = n.lanelets[0]
    n.add_traffic_sign(G.sign(931, (1.0, 1.0)), {la.lanelet_id})
    n.add_traffic_light(G.light(941, (1.0, 2.0)), {la.lanelet_id})
    for s in list(n.traffic_signs):
        if s.traffic_sign_id != 931:
            n.remove_traffic_sign(s.traffic_sign_id)
    for t in list(n.traffic_lights):
        if t.traffic_light_id != 941:
            n.remove_traffic_light(t.traffic_light_id)
    la.add_static_obstacle_to_lanelet(777)
    la.add_dynamic_obstacle_to_lanelet(778, 0)
    if len(n.lanelets) > 1:
        n.remove_lanelet(n.lanelets[-1].lanelet_id)


def execute(case):
    use_repo()
    sc, pps = build_world(case["arch"])
    ids = {}
    ev = []
    h, s = digest(sc, pps)
    x = export(sc, pps, "b")
    for op in case["ops"]:
        exc = "None"
        try:
            do_op(op, sc, pps)
        except tlc.MachineryError:
            raise
        except Exception as ex:
            exc = "exc:" + type(ex).__name__
        h2, s2 = digest(sc, pps)
        try:
            x2 = export(sc, pps, "a")
        except Exception as ex:
            x2 = "export-failed:" + type(ex).__name__
        diff = ""
        if h2 != h:
            diff = _first_diff(json.loads(s), json.loads(s2)) or "?"
            diff = re.sub(r"\[\d+\]", "[]", diff)
        ev.append({"op": op, "exc": exc, "before": ids.setdefault(h, len(ids) + 1), "after": ids.setdefault(h2, len(ids) + 1),
                   "export_before": ids.setdefault(x, len(ids) + 1), "export_after": ids.setdefault(x2, len(ids) + 1),
                   "diff": diff, "sig": "%s%s" % (op, ("@" + diff.split(".")[-1]) if diff else "")})
        h, s, x = h2, s2, x2
    return {"ev": ev}


def corrupt(trace, rng):
    e = rng.choice(trace["ev"])
    e["after"] = e["before"] + 100
    return trace


def summarize(cases, traces):
    ops, excs = {}, {}
    for t in traces:
        for e in t["ev"]:
            ops[e["op"]] = ops.get(e["op"], 0) + 1
            if e["exc"] != "None":
                k = e["op"] + ":" + e["exc"]
                excs[k] = excs.get(k, 0) + 1
    return {"operations_executed": ops, "operations_raising (frame still checked)": excs}
