"""C19 - rendering is total and shows the model at the selected time (spec: Render.tla, RenderTree.tla, MC_Render.tla).

Three parts (see Render.tla):
 (1) draw-parameter tree: Set(node, field, v) on a real MPDrawParams, logged as the values of `field` at all nodes plus the
     list of every (node, attribute) whose value changed;
 (2) time window: single- and multi-obstacle lattice scenarios x all windows x lanelet id filters, logged as the lattice
     cells in which an obstacle patch was collected (MPRenderer.obstacle_patches, read between draw and render), what the
     model reports (occupancy_at_time is not None) and the lanelets whose paths were collected in static_collections;
 (3) totality: archetype x window x flag rows, draw + render (+ canvas.draw) must not raise.

`python -m crv.props.c19 --regen` rewrites spec/RenderTree.tla from dataclasses.fields of the real classes.
"""
import json
import os
import sys

from crv import tlc
from crv.core import use_repo

PROPERTY = "C19"
MODULES = ["RenderTree", "Render", "MC_Render", "Trace_Render"]
TRACE = ("Trace_Render", "Trace_Render.cfg")
EXHAUSTIVE = True
RULE = ("(1) TLC enumerates every node of the draw-parameter tree x every scalar field name declared anywhere in it; each "
        "(node, field) is executed as a history of Sets on one real MPDrawParams (set, same set again, a set of another "
        "field at another node, set back) and every Set is checked against the propagation contract. "
        "(2) TLC enumerates all obstacle descriptors (static / environment / dynamic without prediction, with trajectory or "
        "set-based prediction of 1..3 steps / phantom, t0 in 0..2) x all windows 0 <= begin <= end <= 6 x lanelet id "
        "filters (7 kinds; quick: two per case, rotating; thorough: all), single-obstacle scenarios plus scenarios with all "
        "descriptors and random sub-scenarios; drawn cells and lanelets are compared with the contract, time_end itself "
        "is an EITHER band. "
        "(3) archetypes x windows (from TLC) x flag rows (quick: seeded pairwise-covering rows + random rows; thorough: "
        "full product over the 12 top-level flags of the statement x the 8 obstacle archetypes, remaining flags random) "
        "must draw and render without exception; a failing run is re-run with fewer settings to name the minimal cause. "
"Also: Replace(node, child group) histories per slot; save -> load round trips of parameter objects (per node, all "
        "scalars non-default) and parameters loaded from a saved style file as a route of the window / light / totality "
        "parts; light configurations x time_begin (lights inside / outside the plot area); totality rows carry a view "
        "(automatic limits, explicit limits and focus windows including / excluding the signs and lights), a draw target "
        "(scenario, lanelet network, single objects) and the parameter route. Every draw+render runs on a fresh figure. "
                "distinct_nontrivial = distinct (node, field) + (descriptor, window, filter) + (archetype, flag row) cases.")
ASSUMPTIONS = ["parameter-tree table spec/RenderTree.tla is generated from dataclasses.fields of the real classes and "
               "re-generated at every check (difference = SPEC-DRIFT, machinery failure, never a violation)",
               "only scalar (non-group, public) fields are Set; values are of the declared type",
               "a patch is attributed to (obstacle, time) by the lattice cell of its bounding-box centre; every "
               "(obstacle, time) occupancy lives in its own 10x10 cell",
               "lanelets drawn are observed through the paths of the collections in the public MPRenderer.static_collections "
               "(there is no public per-lanelet record); default lanelet flags (fill on) are used for that part",
               "render = MPRenderer.render() followed by figure.canvas.draw() (Agg), on a fresh figure + axes for every "
               "draw (no state of an earlier render can reach a later one; labels of findings are computed per case)",
               "save -> load: base parameters (time_begin, time_end, antialiased) of nested groups that differ from the "
               "root are an EITHER band (the loading constructor propagates the root's values, as documented)",
               "time_end itself is an EITHER band (documented inclusive, implemented exclusive)"]

TREE_FILE = os.path.join(tlc.SPEC, "RenderTree.tla")


# =====================================================================================================================
# (1) parameter tree: table generation (code -> spec/RenderTree.tla) and Set histories
# =====================================================================================================================

def tree_dump():
    """The real class table: {class name: {"fields": [scalar public field names], "kids": [[field, class name], ...]}}."""
    use_repo()
    import dataclasses
    from commonroad.visualization import draw_params as dp
    table, todo = {}, [dp.MPDrawParams]
    while todo:
        cls = todo.pop()
        if cls.__name__ in table:
            continue
        inst = cls()
        fields, kids = [], []
        for f in dataclasses.fields(cls):
            if f.name.startswith("_"):
                continue
            v = getattr(inst, f.name)
            if isinstance(v, dp.BaseParam):
                kids.append([f.name, type(v).__name__])
                todo.append(type(v))
            else:
                fields.append(f.name)
        table[cls.__name__] = {"fields": sorted(fields), "kids": kids}
    return {"root": "MPDrawParams", "classes": {k: table[k] for k in sorted(table)}}


def tree_tla(dump):
    out = ["------------------------------- MODULE RenderTree -------------------------------",
           "(* GENERATED from commonroad/visualization/draw_params.py by `python -m crv.props.c19 --regen` *)",
           "(* (harness/crv/props/c19.py: tree_dump / tree_tla).  DO NOT EDIT; the C19 check re-generates *)",
           "(* this text from dataclasses.fields of the real classes and compares (SPEC-DRIFT).           *)",
           "(* fields = declared public non-group fields (inherited included); kids = nested groups.      *)",
           "RootClass == \"%s\"" % dump["root"], "ClassTable == ["]
    rows = []
    for name, c in dump["classes"].items():
        fs = ", ".join('"%s"' % f for f in c["fields"])
        ks = ", ".join('<<"%s", "%s">>' % (k, kc) for k, kc in c["kids"])
        rows.append("  %s |->\n    [fields |-> {%s},\n     kids |-> <<%s>>]" % (name, fs, ks))
    out.append(",\n".join(rows))
    out.append("]")
    out.append("=================================================================================")
    return "\n".join(out) + "\n"


def check_tree(ctx=None):
    """Re-generate the table from the code and compare with the checked-in module."""
    want = tree_tla(tree_dump())
    have = open(TREE_FILE).read() if os.path.exists(TREE_FILE) else ""
    if want != have:
        import difflib
        d = "\n".join(list(difflib.unified_diff(have.splitlines(), want.splitlines(), "spec/RenderTree.tla",
                                                "regenerated", lineterm=""))[:40])
        if ctx is not None:
            ctx.notes.append("SPEC-DRIFT: spec/RenderTree.tla differs from the draw_params.py class table")
        raise tlc.MachineryError("SPEC-DRIFT: spec/RenderTree.tla is not what draw_params.py declares; run "
                                 "`PYTHONPATH=/verif/harness /venv/bin/python -m crv.props.c19 --regen` and review:\n" + d)



def _node(p, path):
    for k in path:
        p = getattr(p, k)
    return p


def _tok(v):
    """Value token: the repr, prefixed by the type name for anything that is not a plain Python value (so that a list
    and a list-like container with the same elements are different tokens)."""
    if type(v) in (bool, int, float, str, list, dict, tuple, type(None)):
        return repr(v)
    return "<%s>%r" % (type(v).__name__, v)


_RT = [0]


def roundtrip(p):
    """save -> load of a parameter object through a YAML file under /verif/out (removed afterwards)."""
    d = os.path.join(tlc.OUT, "c19_yaml")
    os.makedirs(d, exist_ok=True)
    path = os.path.join(d, "%d_%d.yaml" % (os.getpid(), _RT[0]))
    _RT[0] += 1
    try:
        p.save(path)
        return type(p).load(path)
    finally:
        if os.path.exists(path):
            os.remove(path)


def _roundtrip_event(p, sig):
    before = snapshot(p)
    try:
        after, res = snapshot(roundtrip(p)), "ok"
    except Exception as ex:
        after, res = before, "exc:" + type(ex).__name__
    return {"op": "roundtrip", "res": res, "sets": len(before),
            "changed": [[list(path), k] for (path, k) in sorted(set(before) | set(after))
                        if before.get((path, k), "<absent>") != after.get((path, k), "<absent>")],
            "sig": sig}


def _walk(p, path=()):
    """Yield (path, node) over the REAL parameter object graph (children = attributes that are BaseParam instances)."""
    from commonroad.visualization.draw_params import BaseParam
    yield path, p
    for k, v in vars(p).items():
        if isinstance(v, BaseParam):
            yield from _walk(v, path + (k,))


def snapshot(p):
    """{(path, attribute): token} for every public non-group attribute of every node."""
    from commonroad.visualization.draw_params import BaseParam
    snap = {}
    for path, node in _walk(p):
        for k, v in vars(node).items():
            if k.startswith("_") or isinstance(v, BaseParam):
                continue
            snap[(path, k)] = _tok(v)
    return snap


def _values_for(field, p, node_path):
    """Two values of the declared type of `field`, the first different from the value at the first node holding it."""
    cur = None
    for path, node in _walk(p):
        if len(path) >= len(node_path) and tuple(path[:len(node_path)]) == tuple(node_path) and field in vars(node):
            cur = getattr(node, field)
            break
    else:
        for path, node in _walk(p):
            if field in vars(node):
                cur = getattr(node, field)
                break
    return _typed_values(cur, field)


def _typed_values(cur, field):
    """Two values of the type of `cur` (the current value of `field`), the first different from it."""
    if isinstance(cur, bool):
        return [not cur, cur]
    if isinstance(cur, int):
        return [7, 8]
    if isinstance(cur, float):
        return [7.5, 8.5]
    if isinstance(cur, str):
        return ["#010203", "#040506"]
    if isinstance(cur, dict):
        return [{"k": 1}, {"k": 2}]
    if field in ("draw_ids", "show_traffic_signs"):
        return [[1, 2], [3]]
    if field == "linewidth":
        return [7.5, 8.5]
    return ["#010203", "#040506"]


def _do_set(p, node_path, field, value, route):
    node = _node(p, node_path)
    try:
        if route == "item":
            node[field] = value
        else:
            setattr(node, field, value)
        return "ok"
    except Exception as ex:
        return "exc:" + type(ex).__name__


def _set_event(p, node_path, field, value, route, sig, memo, step="first"):
    before = memo.get("snap") or snapshot(p)          # the snapshot after the previous Set on the same object
    res = _do_set(p, node_path, field, value, route)
    after = memo["snap"] = snapshot(p)
    vals = [[list(path), tok] for (path, k), tok in sorted(after.items()) if k == field]
    changed = [[list(path), k] for (path, k) in sorted(set(before) | set(after))
               if before.get((path, k), "<absent>") != after.get((path, k), "<absent>")]
    return {"op": "set", "node": list(node_path), "field": field, "v": _tok(value), "res": res, "vals": vals,
            "changed": changed, "step": step, "sig": sig}


def _exec_tree(case):
    import random
    from commonroad.visualization.draw_params import MPDrawParams
    node_path = tuple(case["node"])
    rng = random.Random(case["seed"])
    ev = []
    all_nodes = [path for path, _ in _walk(MPDrawParams())]
    at = "root" if not node_path else ("leaf" if not any(len(q) > len(node_path) and q[:len(node_path)] == node_path
                                                          for q in all_nodes) else "inner")
    if not node_path:
        # the constructor route: MPDrawParams(field=v) must carry the value to every nested group as a Set at the root does
        base = snapshot(MPDrawParams())
        for field in ("time_begin", "time_end", "antialiased"):
            v = _values_for(field, MPDrawParams(), ())[0]
            try:
                after, res = snapshot(MPDrawParams(**{field: v})), "ok"
            except Exception as ex:
                after, res = base, "exc:" + type(ex).__name__
            ev.append({"op": "set", "node": [], "field": field, "v": _tok(v), "res": res,
                       "vals": [[list(path), tok] for (path, k), tok in sorted(after.items()) if k == field],
                       "changed": [[list(path), k] for (path, k) in sorted(set(base) | set(after))
                                   if base.get((path, k), "<absent>") != after.get((path, k), "<absent>")],
                       "step": "constructor", "sig": "propagate/%s@root/constructor" % field})
    for field in case["fields"]:
        p, memo = MPDrawParams(), {}
        v1, v2 = _values_for(field, p, node_path)
        below = any(len(q) >= len(node_path) and q[:len(node_path)] == node_path and field in vars(_node(p, q))
                    for q in all_nodes)
        name = field if field in ("time_begin", "time_end", "facecolor", "show_label", "zorder", "antialiased") else "field"
        sig = "propagate/%s@%s%s" % (name, at, "" if below else "/undeclared-below")
        ev.append(_set_event(p, node_path, field, v1, "attr", sig, memo))
        if not below:
            continue
        ev.append(_set_event(p, node_path, field, v1, "item", sig, memo, "again"))
        # a Set of another field somewhere else, then the first field once more with another value
        other = rng.choice(all_nodes)
        g = rng.choice([f for f in case["fields"] if f != field])
        w = _values_for(g, p, other)[0]
        ev.append(_set_event(p, other, g, w, "attr", "propagate/other-field", memo))
        ev.append(_set_event(p, node_path, field, v2, "attr", sig, memo, "after-other"))
    # save -> load round trips: every scalar declared at or below this node set to a non-default value (list- and
    # dict-valued ones included); base parameters only at the root (see RoundtripBand); then the same with random Sets
    for variant in (("all-fields", "random-sets") if not node_path else ("all-fields",)):
        p = MPDrawParams()
        for q in all_nodes:
            if q[:len(node_path)] != node_path:
                continue
            nd = _node(p, q)
            for k in sorted(vars(nd)):
                if k.startswith("_") or hasattr(getattr(nd, k), "__dataclass_fields__") or k in ("time_begin", "time_end",
                                                                                                 "antialiased"):
                    continue
                if variant == "all-fields" or rng.random() < 0.3:
                    setattr(nd, k, _typed_values(getattr(nd, k), k)[0])
        p.time_begin, p.time_end = 3, 5
        ev.append(_roundtrip_event(p, "roundtrip/%s@%s" % (variant, at)))
    return ev




# ---- Replace(node, child): assign a freshly constructed group to a nested-group attribute ---------------------------

def _build_group(cls, how, rng):
    """A fresh group of class cls: default-constructed, or constructed with non-default scalar fields."""
    if how == "default":
        return cls(), {}
    import dataclasses
    proto = cls()
    own = sorted(f.name for f in dataclasses.fields(cls) if not f.name.startswith("_") and
                 f.name not in ("time_begin", "time_end", "antialiased") and
                 not hasattr(getattr(proto, f.name), "__dataclass_fields__"))
    kw = {"time_begin": 3, "antialiased": False}
    if own:
        f = rng.choice(own)
        kw[f] = _typed_values(getattr(proto, f), f)[0]
    return cls(**kw), kw


def _replace_event(p, node_path, child, how, rng, sig, memo, via="attr"):
    """Assign a fresh group to node.child (via="attr"), or build the parent with it (via="parent-ctor", root only).
    Returns (event, params object to continue with)."""
    from commonroad.visualization.draw_params import MPDrawParams
    before = memo.get("snap") or snapshot(p)
    node = _node(p, node_path)
    group, kw = _build_group(type(getattr(node, child)), how, rng)
    built = snapshot(group)
    res = "ok"
    try:
        if via == "parent-ctor":
            p = MPDrawParams(**{child: group})
            node = p
        else:
            setattr(node, child, group)
    except Exception as ex:
        res = "exc:" + type(ex).__name__
    after = memo["snap"] = snapshot(p)
    r = tuple(node_path) + (child,)
    ev = {"op": "replace", "node": list(node_path), "child": child, "how": how, "via": via,
          "with": sorted(kw), "res": res, "holds": int(getattr(node, child) is group),
          "aliases": [list(path) for path, nd in _walk(p) if nd is group and tuple(path) != r],
          "changed": [[list(path), k] for (path, k) in sorted(set(before) | set(after))
                      if before.get((path, k), "<absent>") != after.get((path, k), "<absent>")],
          "differs": [[list(rel), k, after.get((r + tuple(rel), k), "<absent>")] for (rel, k), tok in sorted(built.items())
                      if after.get((r + tuple(rel), k), "<absent>") != tok],
          "pvals": [[k, tok] for (path, k), tok in sorted(after.items()) if tuple(path) == tuple(node_path)],
          "sig": sig}
    return ev, p


def _exec_replace(case):
    """Histories Set;Replace;Set / Replace;Set / Set;Replace / Replace;Set inside;Set above on one real MPDrawParams."""
    import random
    from commonroad.visualization.draw_params import MPDrawParams
    node_path, child, clean = tuple(case["node"]), case["child"], case["clean"]
    r = node_path + (child,)
    rng = random.Random(case["seed"])
    at = "root" if not node_path else "inner"
    ev = []

    def sset(p, memo, where, field, which, step):
        v = _values_for(field, p, where)[which]
        name = field if field in ("time_begin", "time_end", "antialiased") else "field"
        w = "root" if not where else ("new-group" if tuple(where[:len(r)]) == r else "parent")
        return _set_event(p, where, field, v, "attr", "propagate/%s@%s/after-replace" % (name, w)
                          if step != "before-replace" else "propagate/%s@%s" % (name, w), memo, step)

    for how in ("default", "custom"):
        below = sorted(case["scalars"])
        f_in = rng.choice([f for f in below if f not in ("time_begin", "time_end", "antialiased")] or below)
        rsig = "replace/%s@%s%s" % (how, at, "" if clean else "/aliasing")
        # Set ; Replace            (also the only history for a slot whose name recurs below the node)
        p, memo = MPDrawParams(), {}
        ev.append(sset(p, memo, (), "time_begin", 0, "before-replace"))
        e, p = _replace_event(p, node_path, child, how, rng, rsig, memo)
        ev.append(e)
        if not clean:
            continue
        # ... ; Set   (Set ; Replace ; Set at the root: the window selected after customising the parameters)
        ev.append(sset(p, memo, (), "time_begin", 1, "after-replace"))
        ev.append(sset(p, memo, (), "time_end", 0, "after-replace"))
        # Replace ; Set at the parent group ; Set of a field of the new group's class at the root
        p, memo = MPDrawParams(), {}
        e, p = _replace_event(p, node_path, child, how, rng, rsig, memo)
        ev.append(e)
        ev.append(sset(p, memo, node_path, "time_begin", 0, "after-replace"))
        ev.append(sset(p, memo, (), f_in, 0, "after-replace"))
        # Replace ; Set inside the new group ; Set above it
        p, memo = MPDrawParams(), {}
        e, p = _replace_event(p, node_path, child, how, rng, rsig, memo)
        ev.append(e)
        ev.append(sset(p, memo, r, f_in, 0, "after-replace"))
        ev.append(sset(p, memo, node_path, "antialiased", 0, "after-replace"))
        # Replace twice ; Set
        e, p = _replace_event(p, node_path, child, "default", rng, rsig, memo)
        ev.append(e)
        ev.append(sset(p, memo, (), "time_begin", 1, "after-replace"))
        if not node_path:
            # the constructor of the parent as the assignment: MPDrawParams(child=group) ; Set
            p, memo = MPDrawParams(), {}
            e, p = _replace_event(p, node_path, child, how, rng, rsig + "/parent-ctor", memo, via="parent-ctor")
            ev.append(e)
            ev.append(sset(p, memo, (), "time_begin", 0, "after-replace"))
            ev.append(sset(p, memo, (), f_in, 0, "after-replace"))
    return ev


# =====================================================================================================================
# (2) time window: lattice scenarios, drawn cells, lanelets
# =====================================================================================================================
CELL = 10.0
TMAX = 8
LANELETS = (101, 102, 103)                       # lanelet 101+k lives in cell column k of row -1
FILTERS = {"none": None, "empty": [], "one": [101], "two": [102, 103], "all": [101, 102, 103], "unknown": [999],
           "mixed": [101, 999]}


def _centre(oid, col):
    return (CELL * col + 5.0, CELL * oid + 5.0)


def build_obstacle(d):
    """Descriptor {id, kind, t0, n} -> obstacle whose occupancy at time t is a 2x2 square centred in cell (id, t)."""
    from crv import gamma as G
    from commonroad.prediction.prediction import Occupancy, SetBasedPrediction
    from commonroad.scenario.obstacle import DynamicObstacle, ObstacleType
    oid, kind, t0, n = d["id"], d["kind"], d["t0"], d["n"]
    sq = lambda c=(0.0, 0.0): G.rect(2.0, 2.0, c)
    if kind == "static":
        from commonroad.scenario.obstacle import StaticObstacle
        x, y = _centre(oid, 0)
        return StaticObstacle(oid, ObstacleType.PARKED_VEHICLE, sq(), G.init_state(x, y, t=t0))
    if kind == "env":
        return G.environment_obstacle(oid, sq(_centre(oid, 0)))
    if kind == "dyn-none":
        x, y = _centre(oid, t0)
        return G.dynamic_obstacle(oid, x, y, sq(), None, t0)
    if kind == "dyn-traj":
        x, y = _centre(oid, t0)
        return G.dynamic_obstacle(oid, x, y, sq(), [_centre(oid, t0 + 1 + i) + (0.0,) for i in range(n)], t0)
    if kind == "dyn-set":
        x, y = _centre(oid, t0)
        pred = SetBasedPrediction(t0 + 1, [Occupancy(t0 + 1 + i, sq(_centre(oid, t0 + 1 + i))) for i in range(n)])
        return DynamicObstacle(oid, ObstacleType.CAR, sq(), G.init_state(x, y, t=t0), pred)
    if kind == "phantom-set":
        return G.phantom_obstacle(oid, [(t0 + i, sq(_centre(oid, t0 + i))) for i in range(n)])
    raise tlc.MachineryError("unknown obstacle kind %r" % (kind,))


LIGHT_IDS = (301, 302)                           # light 301+k stands in cell column k of row -2 and is referenced by lanelet 101+k


def build_light(lid, desc, k, inside=False):
    """Light descriptor {cyc: [{d, c}], off, active} -> TrafficLight standing in cell column k: below the lanelets (row -2,
    outside the automatic plot limits) or, inside=True, in the middle of lanelet 101+k (inside the plot area)."""
    import numpy as np
    from commonroad.scenario.traffic_light import (TrafficLight, TrafficLightCycle, TrafficLightCycleElement,
                                                   TrafficLightState)
    els = [TrafficLightCycleElement(TrafficLightState(x["c"]), x["d"]) for x in desc["cyc"]]
    return TrafficLight(lid, np.array([CELL * k + 5.0, -5.0 if inside else -15.0]), TrafficLightCycle(els, time_offset=desc["off"]),
                        active=bool(desc["active"]))


def build_window_scenario(descs, lights=(), lights_inside=False):
    """Lanelets 101 -> 102 -> 103 (successors), one per cell of row -1; light k is referenced by lanelet 101+k and so
    governs the centre-line colour of lanelet 102+k; the obstacles of the descriptors."""
    from crv import gamma as G
    sc = G.scenario()
    las = []
    for k, lid in enumerate(LANELETS):
        kw = {}
        if k + 1 < len(LANELETS):
            kw["successor"] = [LANELETS[k + 1]]
        if k > 0:
            kw["predecessor"] = [LANELETS[k - 1]]
        if k < len(lights):
            kw["traffic_lights"] = {LIGHT_IDS[k]}
        las.append(G.lanelet(lid, CELL * k + 2.0, -6.5, 6.0, 3.0, **kw))
    net = G.network(las)
    for k, desc in enumerate(lights):
        net.add_traffic_light(build_light(LIGHT_IDS[k], desc, k, lights_inside), {LANELETS[k]})
    sc.add_objects(net)
    for d in descs:
        sc.add_objects(build_obstacle(d))
    return sc


def _bbox_centre(xy):
    import numpy as np
    xy = np.asarray(xy, dtype=float)
    return (float(xy[:, 0].min() + xy[:, 0].max()) / 2.0, float(xy[:, 1].min() + xy[:, 1].max()) / 2.0)


def observe_patches(renderer):
    """obstacle_patches -> (sorted distinct cells [row, col], number of patches that cannot be attributed)."""
    import math
    import matplotlib.patches as mp
    cells, stray = set(), 0
    for pa in renderer.obstacle_patches:
        if isinstance(pa, mp.Polygon):
            cx, cy = _bbox_centre(pa.get_xy())
        elif isinstance(pa, (mp.Ellipse, mp.Circle)):
            cx, cy = pa.center
        else:
            stray += 1
            continue
        row, col = int(math.floor(cy / CELL)), int(math.floor(cx / CELL))
        if row < 1 or col < 0 or col > 1000:
            stray += 1
        else:
            cells.add((row, col))
    return [list(c) for c in sorted(cells)], stray


def observe_lanelets(renderer):
    """(lanelet ids with any path, parts [[id, part], ...], stray) from the collections of renderer.static_collections.
    part: "fill" (polygon of a PolyCollection), "right" / "left" / "center" (horizontal paths at the lanelet's bounds and
    centre line), "arrow" (anything else inside the lanelet's cell: the start-and-direction marker)."""
    import math
    import matplotlib.collections as mc
    ids, parts, stray = set(), set(), 0
    for col in renderer.static_collections:
        if not isinstance(col, (mc.PolyCollection, mc.PathCollection, mc.PatchCollection, mc.LineCollection)):
            continue
        for path in col.get_paths():
            v = path.vertices
            if len(v) == 0:
                continue
            cx, cy = _bbox_centre(v)
            row, k = int(math.floor(cy / CELL)), int(math.floor(cx / CELL))
            if row == -1 and 0 <= k < len(LANELETS):
                ids.add(LANELETS[k])
                flat = float(v[:, 1].max() - v[:, 1].min()) < 1e-9
                if isinstance(col, mc.PolyCollection):
                    part = "fill"
                elif flat and abs(cy + 6.5) < 1e-9:
                    part = "right"
                elif flat and abs(cy + 3.5) < 1e-9:
                    part = "left"
                elif flat and abs(cy + 5.0) < 1e-9:
                    part = "center"
                else:
                    part = "arrow"
                parts.add((LANELETS[k], part))
            else:
                stray += 1
    return sorted(ids), [list(x) for x in sorted(parts)], stray


_LIGHT_IMAGES = None


def observe_lights(artists):
    """[[light id, colour token], ...]: the stock image shown by the artist of each light, after render.
    The light is identified by the cell of the artist's anchor, the colour by comparing the image data with the
    images commonroad ships (traffic_light_state_<token>.png)."""
    global _LIGHT_IMAGES
    import math
    import numpy as np
    from matplotlib.offsetbox import AnnotationBbox, OffsetImage
    if _LIGHT_IMAGES is None:
        import os
        from PIL import Image
        from commonroad.visualization.traffic_sign import traffic_sign_path
        _LIGHT_IMAGES = {}
        for fn in sorted(os.listdir(traffic_sign_path)):
            if fn.startswith("traffic_light_state_") and fn.endswith(".png"):
                _LIGHT_IMAGES[fn[len("traffic_light_state_"):-4]] = np.asarray(Image.open(os.path.join(traffic_sign_path, fn)))

    def images(box):
        if isinstance(box, OffsetImage):
            yield box
        for c in box.get_children():
            if c is not box:
                yield from images(c)
    shown = []
    for a in artists:
        if not isinstance(a, AnnotationBbox):
            continue
        row, k = int(math.floor(a.xy[1] / CELL)), int(math.floor(a.xy[0] / CELL))
        lid = LIGHT_IDS[k] if row in (-1, -2) and 0 <= k < len(LIGHT_IDS) else 0
        for im in images(a.offsetbox):
            data = np.asarray(im.get_data())
            tok = [t for t, ref in _LIGHT_IMAGES.items() if ref.shape == data.shape and np.array_equal(ref, data)]
            shown.append([lid, tok[0] if tok else "<unknown-image>"])
    return sorted(shown)


def model_occupancies(sc):
    occ = []
    for o in sc.obstacles:
        for t in range(TMAX + 1):
            if o.occupancy_at_time(t) is not None:
                occ.append([int(o.obstacle_id), t])
    return sorted(occ)


def statement_flags(p):
    """The flag setting of the statement, set at the top level (propagation carries it to every obstacle group)."""
    p.draw_shape = True
    p.draw_icon = False
    p.draw_signals = False
    p.draw_trajectory = False
    p.draw_occupancies = False
    p.draw_history = False


def _params_window(b, e, route):
    from commonroad.visualization.draw_params import MPDrawParams
    if route == "replace":
        # customise by REPLACING nested groups with freshly built ones, select the window at the top level afterwards
        from commonroad.visualization import draw_params as dp
        p = MPDrawParams()
        p.dynamic_obstacle = dp.DynamicObstacleParams(draw_signals=False,
                                                      trajectory=dp.TrajectoryParams(draw_trajectory=False))
        p.phantom_obstacle = dp.PhantomObstacleParams()
        p.static_obstacle = dp.StaticObstacleParams()
        p.environment_obstacle = dp.EnvironmentObstacleParams()
        p.lanelet_network = dp.LaneletNetworkParams()
        p.time_begin = b
        p.time_end = e
    elif route == "ctor":
        p = MPDrawParams(time_begin=b, time_end=e)
    else:                                             # "attr", "item", "file" (file: see roundtrip at the call site)
        p = MPDrawParams()
        if route == "item":
            p["time_begin"] = b
            p["time_end"] = e
        else:
            p.time_begin = b
            p.time_end = e
    return p


class _Fig:
    """A fresh matplotlib figure + axes for EVERY draw+render, closed afterwards: no axis limits, autoscale state or
    artists of an earlier render can influence a later one, so the outcome of a case does not depend on what the worker
    process executed before (a replay of a violation reproduces it)."""

    def get(self):
        import matplotlib.pyplot as plt
        plt.close("all")
        return plt.subplots(figsize=(3, 2), dpi=50)

    def drop(self):
        import matplotlib.pyplot as plt
        plt.close("all")

    done = drop


def _exc(ex):
    if os.environ.get("CRV_TB"):                      # diagnosis aid: keep the traceback of a failing draw / render
        import traceback
        with open(os.path.join(tlc.OUT, "c19_tb.log"), "a") as f:
            f.write("".join(traceback.format_exception(type(ex), ex, ex.__traceback__)) + "\n")
            tb = ex.__traceback__
            while tb is not None:
                if tb.tb_frame.f_code.co_filename.endswith("visualization/traffic_sign.py"):
                    f.write("locals: %r\n" % {k: v for k, v in tb.tb_frame.f_locals.items() if k != "self"})
                    slf = tb.tb_frame.f_locals.get("self")
                    f.write("self: %r\n" % {k: getattr(slf, k, None) for k in ("dx_m", "dy_m", "dx_pix", "dy_pix", "px_per_metre")})
                tb = tb.tb_next
    return "exc:" + type(ex).__name__


def draw_and_render(figs, params, drawables, observe=None, observe_after=None, rkw=None):
    """On a fresh figure: build the renderer, draw every drawable, call observe(renderer) between draw and render, render
    + rasterise, call observe_after(artists).  params / drawables / rkw may be callables (evaluated inside the guarded
    draw phase).  Returns (draw result, render result, observation)."""
    from commonroad.visualization.mp_renderer import MPRenderer
    fig, ax = figs.get()
    obs = None
    try:
        try:
            if callable(params):
                params = params()
            if callable(rkw):
                rkw = rkw()
            r = MPRenderer(draw_params=params, ax=ax, **(rkw or {}))
            for d in (drawables(r) if callable(drawables) else drawables):
                d.draw(r)
        except Exception as ex:
            return _exc(ex), "skipped", None
        if observe is not None:
            obs = observe(r)
        try:
            artists = r.render()
            fig.canvas.draw()
        except Exception as ex:
            return "ok", _exc(ex), obs
        if observe_after is not None:
            obs = (obs, observe_after(artists))
        return "ok", "ok", obs
    finally:
        figs.drop()


def _wclass(d, b, e):
    if d["kind"] in ("static", "env"):
        return "any"
    first = d["t0"]
    last = d["t0"] + d["n"] - (1 if d["kind"] == "phantom-set" else 0)
    if e < first:
        return "before"
    if b > last:
        return "after"
    return "straddle-start" if b < first else "inside"


def _exec_window(case):
    descs, b, e = case["obs"], case["b"], case["e"]
    kind = descs[0]["kind"] if len(descs) == 1 else "mixed"
    tag = "%s/%s" % (kind, _wclass(descs[0], b, e) if len(descs) == 1 else "all")
    if case.get("route"):
        tag += "@after-" + case["route"]
    figs, ev = _Fig(), []
    try:
        for i, fname in enumerate(case["filters"]):
            route = case.get("route") or ("attr", "ctor", "item")[(b + e + i) % 3]
            if case.get("file") and i == 0:
                route = "file"
            sc = build_window_scenario(descs)
            ids = FILTERS[fname]

            def params(route=route, ids=ids):
                p = _params_window(b, e, route)
                statement_flags(p)
                if ids is not None:
                    p.lanelet_network.draw_ids = list(ids)
                return roundtrip(p) if route == "file" else p       # set in memory vs loaded from a style file
            occ = model_occupancies(sc)
            dres, rres, obs = draw_and_render(figs, params, [sc], lambda r: (observe_patches(r), observe_lanelets(r)))
            ev.append({"op": "draw", "part": "window", "res": dres, "route": route,
                       "sig": "draw/" + tag + ("@file" if route == "file" else "")})
            if obs is not None:
                (cells, stray), (lids, parts, lstray) = obs
                ev.append({"op": "drawn", "obs": descs, "b": b, "e": e, "occ": occ, "drawn": cells, "stray": stray,
                           "sig": "drawn/" + tag})
                ev.append({"op": "lanelets", "net": list(LANELETS), "filter": 0 if ids is None else 1,
                           "ids": list(ids or []), "lanelets": lids, "parts": parts, "defaults": 1, "stray": lstray,
                           "sig": "lanelets/" + fname + ("@file" if route == "file" else "")})
            ev.append({"op": "render", "res": rres, "sig": "render/" + tag})
    finally:
        figs.done()
    return ev




def _exec_lights(case):
    """Network with lights (cycles with inactive / red-yellow phases, offsets, switched-off lights) at one time_begin:
    every lanelet must yield all its parts, every light's artist shows the state at time_begin."""
    lights, t = case["lights"], case["t"]
    figs, ev = _Fig(), []
    try:
        for fname in case["filters"]:
            sc = build_window_scenario([], lights, bool(case.get("inside")))
            net = sc.lanelet_network
            # the model's own answers, only used as a label: is a lanelet governed by a light in an inactive phase?
            gov = [net.find_traffic_light_by_id(LIGHT_IDS[k]).get_state_at_time_step(t).value for k in range(len(lights))]
            tag = "lights-" + ("some-inactive-phase" if "inactive" in gov else "all-coloured") + \
                  ("/inside-plot" if case.get("inside") else "")
            ids = FILTERS[fname]
            route = ("attr", "ctor", "item")[t % 3] if not case.get("file") else "file"

            def params(route=route, ids=ids):
                p = _params_window(t, t + 1, route)
                if ids is not None:
                    p.lanelet_network.draw_ids = list(ids)
                return roundtrip(p) if route == "file" else p
            dres, rres, obs = draw_and_render(figs, params, [sc], observe_lanelets, observe_lights)
            ev.append({"op": "draw", "part": "lights", "res": dres, "sig": "draw/" + tag})
            if obs is not None:
                lobs, shown = obs if rres == "ok" else (obs, None)
                lids, parts, lstray = lobs
                ev.append({"op": "lanelets", "net": list(LANELETS), "filter": 0 if ids is None else 1,
                           "ids": list(ids or []), "lanelets": lids, "parts": parts, "defaults": 1, "stray": lstray,
                           "sig": "lanelets/" + tag})
                if shown is not None:
                    ev.append({"op": "lights", "t": t, "lights": [dict(d, id=LIGHT_IDS[k]) for k, d in enumerate(lights)],
                               "shown": shown, "sig": "lights/" + ("active" if lights[0]["active"] else "switched-off")})
            ev.append({"op": "render", "res": rres, "sig": "render/" + tag})
    finally:
        figs.done()
    return ev



def observe_axes(ax):
    """Obstacle shapes VISIBLE on the axes: paths of the PatchCollections and the patches attached to the axes whose
    bounding-box centre lies in an obstacle cell (row >= 1).  -> (sorted distinct cells [row, col], stray)."""
    import math
    import matplotlib.collections as mc
    cells, stray = set(), 0
    boxes = []
    for col in ax.collections:
        if isinstance(col, mc.PatchCollection) and col.get_visible():
            boxes += [path.vertices for path in col.get_paths() if len(path.vertices)]
    for pa in ax.patches:
        if pa.get_visible():
            boxes.append(pa.get_patch_transform().transform_path(pa.get_path()).vertices)
    for v in boxes:
        cx, cy = _bbox_centre(v)
        row, col = int(math.floor(cy / CELL)), int(math.floor(cx / CELL))
        if row >= 1:
            if 0 <= col <= 1000:
                cells.add((row, col))
            else:
                stray += 1
    return [list(c) for c in sorted(cells)], stray


def _exec_frames(case):
    """The loop create_video runs, on ONE renderer: draw + render_static, then rounds of remove_dynamic; clear; draw with
    the next window; render_dynamic; finally a full render().  After every round the shapes visible on the axes are logged."""
    from commonroad.visualization.draw_params import MPDrawParams
    from commonroad.visualization.mp_renderer import MPRenderer
    descs, b0, e0, k = case["obs"], case["b"], case["e"], case["k"]
    kind = descs[0]["kind"] if len(descs) == 1 else "mixed"
    figs, ev = _Fig(), []
    fig, ax = figs.get()
    try:
        sc = build_window_scenario(descs)
        occ = model_occupancies(sc)
        p = MPDrawParams()
        statement_flags(p)
        p.time_begin, p.time_end = b0, e0
        step = "init"
        try:
            r = MPRenderer(draw_params=p, ax=ax)
            r.draw_list([sc], draw_params=[p])
            r.render_static()
            for i in list(range(k + 1)) + ["final"]:
                step = "final-render" if i == "final" else ("first-round" if i == 0 else "later-round")
                if i == "final":
                    b, e = b0 + 1, e0 + 1              # a window that differs from the last round's
                    p.time_begin, p.time_end = b, e
                    r.clear()                          # as in the loop: the drawing buffer is emptied before drawing
                    r.draw_list([sc], draw_params=[p])
                    r.render()
                else:
                    b, e = b0 + i, e0 + i
                    p.time_begin, p.time_end = b, e
                    r.remove_dynamic()
                    r.clear()
                    r.draw_list([sc], draw_params=[p])
                    r.render_dynamic()
                    ax.autoscale()
                fig.canvas.draw()
                cells, stray = observe_axes(ax)
                ev.append({"op": "drawn", "obs": descs, "b": b, "e": e, "occ": occ, "drawn": cells, "stray": stray,
                           "round": step, "sig": "frames/%s/%s" % (kind, step)})
            ev.append({"op": "render", "res": "ok", "sig": "frames/%s" % kind})
        except Exception as ex:
            ev.append({"op": "render", "res": _exc(ex), "sig": "frames/%s/%s" % (kind, step)})
    finally:
        figs.drop()
    return ev


# =====================================================================================================================
# (3) totality: archetypes x windows x flag rows
# =====================================================================================================================
# boolean flags set on their own group ("path:field"); ":field" = set at the top level (reaches every group declaring it)
NODE_FLAGS = [
    "dynamic_obstacle:draw_shape", "dynamic_obstacle:draw_icon", "dynamic_obstacle:draw_direction",
    "dynamic_obstacle:draw_bounding_box", "dynamic_obstacle:show_label", "dynamic_obstacle:draw_signals",
    "dynamic_obstacle:draw_initial_state", "dynamic_obstacle.history:draw_history",
    "dynamic_obstacle.occupancy:draw_occupancies", "dynamic_obstacle.trajectory:draw_trajectory",
    "dynamic_obstacle.trajectory:draw_continuous", "dynamic_obstacle.trajectory:unique_colors",
    "dynamic_obstacle.state:draw_arrow",
    "phantom_obstacle:draw_shape", "phantom_obstacle.occupancy:draw_occupancies",
    "static_obstacle.occupancy:draw_occupancies", "environment_obstacle.occupancy:draw_occupancies",
    "lanelet_network.lanelet:unique_colors", "lanelet_network.lanelet:draw_stop_line",
    "lanelet_network.lanelet:draw_line_markings", "lanelet_network.lanelet:draw_left_bound",
    "lanelet_network.lanelet:draw_right_bound", "lanelet_network.lanelet:draw_center_bound",
    "lanelet_network.lanelet:draw_border_vertices", "lanelet_network.lanelet:draw_start_and_direction",
    "lanelet_network.lanelet:colormap_tangent", "lanelet_network.lanelet:show_label",
    "lanelet_network.lanelet:fill_lanelet",
    "lanelet_network.intersection:draw_intersections", "lanelet_network.intersection:draw_incoming_lanelets",
    "lanelet_network.intersection:draw_crossings", "lanelet_network.intersection:draw_successors",
    "lanelet_network.intersection:show_label",
    "lanelet_network.traffic_sign:draw_traffic_signs", "lanelet_network.traffic_sign:show_label",
    "lanelet_network.traffic_light:draw_traffic_lights", "lanelet_network.traffic_light:show_label",
    "traffic_sign:draw_traffic_signs", "traffic_sign:show_label", "traffic_light:draw_traffic_lights",
    "traffic_light:show_label",
    "planning_problem_set.planning_problem.initial_state.state:draw_arrow",
    ":axis_visible", ":antialiased",
]
# the flags of the statement, set at the top level; full product in the thorough tier
ROOT_FLAGS = [":draw_shape", ":draw_icon", ":draw_direction", ":show_label", ":draw_signals", ":draw_initial_state",
              ":draw_history", ":draw_occupancies", ":draw_trajectory", ":draw_continuous", ":draw_arrow",
              ":draw_border_vertices"]
# archetypes of the full flag product in the thorough tier (the ones with dynamic / phantom obstacles)
PRODUCT_ARCHETYPES = ("plain", "point-mass", "custom-state", "no-orientation", "uncertain-position", "uncertain-orientation",
                      "defaults", "interval-sets")
FEAT_DEFAULTS = {"lanelets": "all", "problems": "all", "view": "auto", "target": "scenario", "via": "memory"}
VIEWS = ("auto", "limits-include", "limits-exclude", "focus-include", "focus-exclude")
TARGETS = ("scenario", "network", "objects")
ROUTES = ("memory", "file")
LFILTERS = {"all": None, "none-selected": [], "some": [101, 103], "unknown": [999]}
PFILTERS = {"all": None, "none-selected": [], "some": [11, 13], "unknown": [99]}


def _base_net(signs=False, inter=False):
    import numpy as np
    from crv import gamma as G
    from commonroad.scenario.lanelet import LineMarking, StopLine
    kw = {}
    if signs:
        kw = dict(traffic_signs={201}, traffic_lights={301},
                  stop_line=StopLine(np.array([19.0, 0.0]), np.array([19.0, 3.0]), LineMarking.SOLID))
    l1 = G.lanelet(101, 0, 0, 20, 3, n=3, successor=[102], **kw)
    l2 = G.lanelet(102, 20, 0, 20, 3, n=3, predecessor=[101], line_marking_left_vertices=LineMarking.DASHED,
                   line_marking_right_vertices=LineMarking.SOLID)
    l3 = G.lanelet(103, 0, 3, 20, 3, n=3, adjacent_right=101, adjacent_right_same_direction=True)
    net = G.network([l1, l2, l3])
    if signs:
        net.add_traffic_sign(G.sign(201, (18.0, -1.0), {101}), {101})
        net.add_traffic_light(G.light(301, (19.0, -1.0)), {101})
    if inter:
        net.add_intersection(G.intersection(401, [(402, {101}, set(), {102}, set(), None)], {103}))
    return net


def _full_init(x, y, t, position=None, orientation=0.0):
    import numpy as np
    from commonroad.scenario.state import InitialState
    return InitialState(time_step=t, position=np.array([x, y], dtype=float) if position is None else position,
                        orientation=orientation, velocity=1.0, acceleration=0.0, yaw_rate=0.0, slip_angle=0.0)


def build_archetype(name):
    """-> (scenario, planning problem set or None).  Obstacle horizons lie in time steps 1..4."""
    import numpy as np
    from crv import gamma as G
    from commonroad.common.util import AngleInterval, Interval
    from commonroad.geometry.shape import Circle, Polygon, Rectangle, ShapeGroup
    from commonroad.planning.goal import GoalRegion
    from commonroad.planning.planning_problem import PlanningProblem, PlanningProblemSet
    from commonroad.prediction.prediction import Occupancy, SetBasedPrediction, TrajectoryPrediction
    from commonroad.scenario.obstacle import (DynamicObstacle, EnvironmentObstacle, ObstacleType, PhantomObstacle,
                                              SignalState, StaticObstacle)
    from commonroad.scenario.state import CustomState, InitialState, KSState, PMState
    from commonroad.scenario.trajectory import Trajectory
    sc, pps = G.scenario(), None
    R = Rectangle(4.0, 2.0)
    arr = lambda *a: np.array(a, dtype=float)
    env_poly = Polygon(arr([0, 8], [5, 8], [5, 12], [0, 12]))
    if name == "empty":
        return sc, pps
    sc.add_objects(_base_net(signs=(name == "signs-lights"), inter=(name == "signs-lights")))
    if name == "plain":                       # all four roles, kinematic states, signals, every shape class
        sig = dict(horn=True, indicator_left=True, indicator_right=False, braking_lights=True,
                   hazard_warning_lights=False, flashing_blue_lights=True)
        sig2 = dict(horn=False, indicator_left=False, indicator_right=True, braking_lights=False,
                    hazard_warning_lights=True, flashing_blue_lights=False)
        sc.add_objects(G.static_obstacle(1, 5, 1.5, R))
        sc.add_objects(DynamicObstacle(2, ObstacleType.CAR, R, G.init_state(2, 4.5, t=1), G.trajectory_prediction(
            R, [(4, 4.5, 0.0), (6, 4.5, 0.1), (8, 4.5, 0.2)], 2), initial_signal_state=SignalState(time_step=1, **sig),
            signal_series=[SignalState(time_step=2, **sig2), SignalState(time_step=3, **sig)]))
        sc.add_objects(DynamicObstacle(3, ObstacleType.BICYCLE, Circle(1.0), G.init_state(22, 1.5, t=1), SetBasedPrediction(
            2, [Occupancy(2, Rectangle(4, 2, arr(24, 1.5))), Occupancy(3, Circle(1.0, arr(26, 1.5)))])))
        sc.add_objects(G.phantom_obstacle(4, [(1, Rectangle(2, 2, arr(30, 1.5))),
                                              (2, Polygon(arr([31, 0.5], [33, 0.5], [32, 2.5])))]))
        sc.add_objects(G.environment_obstacle(5, env_poly))
        sc.add_objects(DynamicObstacle(6, ObstacleType.TRUCK, Polygon(arr([-2, -1], [2, -1], [2, 1], [-2, 1])),
                                       G.init_state(12, 4.5, t=0),
                                       G.trajectory_prediction(R, [(14, 4.5, 0.0), (16, 4.5, 0.0)], 1)))
    elif name == "point-mass":                # trajectory states without an orientation field (PMState)
        tr = Trajectory(2, [PMState(time_step=2 + i, position=arr(4 + 2 * i, 4.5), velocity=1.0, velocity_y=0.5)
                            for i in range(3)])
        sc.add_objects(DynamicObstacle(2, ObstacleType.CAR, R, _full_init(2, 4.5, 1), TrajectoryPrediction(tr, R)))
        tr = Trajectory(2, [PMState(time_step=2, position=arr(4, 1.5), velocity=0.0, velocity_y=1.0)])
        sc.add_objects(DynamicObstacle(3, ObstacleType.PEDESTRIAN, Circle(0.5), _full_init(2, 1.5, 1),
                                       TrajectoryPrediction(tr, Circle(0.5))))
    elif name == "custom-state":              # custom states carrying position and orientation only
        tr = Trajectory(2, [CustomState(time_step=2 + i, position=arr(4 + 2 * i, 4.5), orientation=0.0)
                            for i in range(3)])
        sc.add_objects(DynamicObstacle(2, ObstacleType.TRUCK, R, _full_init(2, 4.5, 1), TrajectoryPrediction(tr, R)))
    elif name == "no-orientation":            # custom states with velocity components instead of an orientation
        tr = Trajectory(2, [CustomState(time_step=2 + i, position=arr(4 + 2 * i, 4.5), velocity=1.0, velocity_y=0.5)
                            for i in range(3)])
        sc.add_objects(DynamicObstacle(2, ObstacleType.CAR, R, _full_init(2, 4.5, 1), TrajectoryPrediction(tr, R)))
    elif name == "uncertain-position":        # a Shape as position (initial and predicted), exact orientation
        ist = _full_init(0, 0, 1, position=Rectangle(1.0, 1.0, arr(2, 4.5)))
        tr = Trajectory(2, [KSState(time_step=2 + i, position=Circle(0.5, arr(4 + 2 * i, 4.5)), orientation=0.0,
                                    velocity=1.0, steering_angle=0.0) for i in range(3)])
        sc.add_objects(DynamicObstacle(2, ObstacleType.CAR, R, ist, TrajectoryPrediction(tr, R)))
        sc.add_objects(StaticObstacle(1, ObstacleType.PARKED_VEHICLE, R, _full_init(
            0, 0, 0, position=Polygon(arr([4, 1], [6, 1], [6, 2], [4, 2])))))
        sc.add_objects(DynamicObstacle(3, ObstacleType.CAR, R, _full_init(0, 0, 0, position=Rectangle(1.0, 1.0, arr(12, 4.5)))))
    elif name == "uncertain-orientation":     # exact position, orientation interval
        ai = AngleInterval(-0.1, 0.1)
        tr = Trajectory(2, [KSState(time_step=2 + i, position=arr(4 + 2 * i, 4.5), orientation=ai, velocity=1.0,
                                    steering_angle=0.0) for i in range(3)])
        sc.add_objects(DynamicObstacle(2, ObstacleType.CAR, R, _full_init(2, 4.5, 1, orientation=ai),
                                       TrajectoryPrediction(tr, R)))
        sc.add_objects(StaticObstacle(1, ObstacleType.PARKED_VEHICLE, R, _full_init(5, 1.5, 0, orientation=ai)))
    elif name == "defaults":                  # every optional constructor argument left at its default
        sc.add_objects(StaticObstacle(1, ObstacleType.UNKNOWN, R, InitialState(time_step=0, position=arr(5, 1.5),
                                                                               orientation=0.0)))
        sc.add_objects(DynamicObstacle(2, ObstacleType.UNKNOWN, R, InitialState(time_step=1, position=arr(2, 4.5),
                                                                                orientation=0.0)))
        sc.add_objects(PhantomObstacle(4))
        sc.add_objects(EnvironmentObstacle(5, ObstacleType.BUILDING, env_poly))
    elif name == "interval-sets":             # set-based occupancies over time intervals, shape groups
        sc.add_objects(DynamicObstacle(3, ObstacleType.CAR, R, G.init_state(22, 1.5, t=1), SetBasedPrediction(2, [
            Occupancy(Interval(2, 3), Rectangle(4, 2, arr(24, 1.5))),
            Occupancy(Interval(4, 6), ShapeGroup([Circle(1.0, arr(26, 1.5)), Rectangle(1, 1, arr(28, 1.5))]))])))
        sc.add_objects(PhantomObstacle(4, SetBasedPrediction(0, [Occupancy(Interval(0, 2), ShapeGroup(
            [Rectangle(2, 2, arr(30, 1.5))]))])))
    elif name in ("goals", "goal-no-position"):
        sc.add_objects(G.static_obstacle(1, 5, 1.5, R))
        ti = Interval(3, 5)
        if name == "goals":                   # rectangle / lanelet / disc goals, reader-style time-only goal
            gs = [GoalRegion([KSState(time_step=ti, position=Rectangle(4, 2, arr(30, 1.5)))]),
                  GoalRegion([CustomState(time_step=ti, position=ShapeGroup(
                      [sc.lanelet_network.find_lanelet_by_id(102).polygon]))], {0: [102]}),
                  GoalRegion([CustomState(time_step=ti)]),
                  GoalRegion([KSState(time_step=ti, position=Circle(2.0, arr(10, 4.5)),
                                      orientation=AngleInterval(-0.2, 0.2), velocity=Interval(0, 3)),
                              KSState(time_step=ti, position=Polygon(arr([30, 3], [34, 3], [32, 6])))])]
        else:                                 # kinematic goal state constraining time and velocity only
            gs = [GoalRegion([KSState(time_step=ti, velocity=Interval(0, 3))])]
        pps = PlanningProblemSet([PlanningProblem(11 + i, G.init_state(1 + 2 * i, 1.5), g) for i, g in enumerate(gs)])
    elif name == "signs-lights":
        sc.add_objects(G.static_obstacle(1, 5, 1.5, R))
    elif name == "signs-inside":              # signs (with / without additional value, two elements) and lights INSIDE the
        from commonroad.scenario.traffic_sign import TrafficSign, TrafficSignElement, TrafficSignIDZamunda as Z     # lanelet area
        net = sc.lanelet_network
        signs = {101: TrafficSign(201, [TrafficSignElement(Z.MAX_SPEED, ["10"])], {101}, arr(10, 1.5)),
                 102: TrafficSign(202, [TrafficSignElement(Z.STOP, [])], {102}, arr(30, 1.5)),
                 103: TrafficSign(203, [TrafficSignElement(Z.MAX_SPEED, ["20"]), TrafficSignElement(Z.PRIORITY, []),
                                        TrafficSignElement(Z.ADDITION_VALID_FOR_X_METERS, ["100"])], {103}, arr(10, 4.5))}
        for lid, sg in signs.items():
            net.add_traffic_sign(sg, {lid})
        net.add_traffic_light(G.light(301, (20.0, 1.5), (("red", 2), ("red_yellow", 1), ("green", 2), ("inactive", 1)), 1), {101})
        net.add_traffic_light(G.light(302, (25.0, 4.5)), {103})
        sc.add_objects(G.static_obstacle(1, 5, 1.5, R))
        sc.add_objects(G.dynamic_obstacle(2, 2, 4.5, R, [(4, 4.5, 0.0), (6, 4.5, 0.0), (8, 4.5, 0.0)], 1))
    elif name in ("lights-inactive", "light-no-cycle"):
        from commonroad.scenario.traffic_light import (TrafficLight, TrafficLightCycle, TrafficLightCycleElement,
                                                       TrafficLightState)
        net = sc.lanelet_network
        cyc = lambda *els, off=0: TrafficLightCycle([TrafficLightCycleElement(TrafficLightState(c), d) for c, d in els],
                                                    time_offset=off)
        if name == "lights-inactive":         # inactive and red-yellow phases, an offset, a switched-off light
            lights = {101: TrafficLight(301, arr(19, -1), cyc(("green", 2), ("red", 2)), active=False),
                      102: TrafficLight(302, arr(39, -1), cyc(("inactive", 3), ("yellow", 1))),
                      103: TrafficLight(303, arr(19, 7), cyc(("red", 1), ("redYellow", 1), ("green", 1), ("inactive", 2),
                                                             off=2))}
        else:                                 # a light built with its default arguments (no cycle), referenced by a lanelet
            lights = {101: TrafficLight(301, arr(19, -1))}
        for lid, tl in lights.items():
            net.add_traffic_light(tl, {lid})
        sc.add_objects(G.static_obstacle(1, 5, 1.5, R))
    else:
        raise tlc.MachineryError("unknown archetype %r" % (name,))
    return sc, pps


_DEFAULT_FLAGS = None


def flag_defaults():
    """Default of every flag; a top-level flag has no single default ("-")."""
    global _DEFAULT_FLAGS
    if _DEFAULT_FLAGS is None:
        from commonroad.visualization.draw_params import MPDrawParams
        p = MPDrawParams()
        d = {}
        for key in NODE_FLAGS:
            path, f = key.split(":")
            d[key] = int(bool(getattr(_node(p, [x for x in path.split(".") if x]), f)))
        _DEFAULT_FLAGS = d
    return _DEFAULT_FLAGS


def apply_flags(p, flags):
    """Top-level flags first (they reach every group), then the per-group flags."""
    for key, v in sorted(flags.items(), key=lambda kv: (not kv[0].startswith(":"), kv[0])):
        path, f = key.split(":")
        setattr(_node(p, [x for x in path.split(".") if x]), f, bool(v))


def _renderer_kwargs(view, sc):
    """The camera: automatic limits, explicit plot limits that include / exclude the signs and lights of the archetypes,
    a focus obstacle with a wide (default) / narrow window around it."""
    from commonroad.scenario.obstacle import DynamicObstacle
    if view == "limits-include":
        return {"plot_limits": [-5.0, 45.0, -5.0, 13.0]}
    if view == "limits-exclude":
        return {"plot_limits": [[0.0, 8.0], [3.2, 6.0]]}
    if view in ("focus-include", "focus-exclude"):
        obs = sorted(sc.obstacles, key=lambda o: (not isinstance(o, DynamicObstacle), o.obstacle_id))
        kw = {"focus_obstacle": obs[0]} if obs else {}
        if view == "focus-exclude":
            kw["plot_limits"] = [-1.5, 1.5, -1.0, 1.0]
        return kw
    return {}


def _total_once(figs, arch, b, e, flags, feats):
    from commonroad.visualization.draw_params import MPDrawParams
    feats = dict(FEAT_DEFAULTS, **feats)
    sc, pps = build_archetype(arch)

    def params():
        import copy
        key = (frozenset(flags.items()), feats["lanelets"], feats["problems"])
        if feats["via"] == "file" and key in _LOADED:
            p = copy.deepcopy(_LOADED[key])           # the style sheet of this case was loaded already
        else:
            p = MPDrawParams()
            apply_flags(p, flags)
            if LFILTERS[feats["lanelets"]] is not None:
                p.lanelet_network.draw_ids = list(LFILTERS[feats["lanelets"]])
            if PFILTERS[feats["problems"]] is not None:
                p.planning_problem_set.draw_ids = list(PFILTERS[feats["problems"]])
            if feats["via"] == "file":                # set in memory, saved, loaded: one load per case and setting
                _LOADED[key] = roundtrip(p)
                p = copy.deepcopy(_LOADED[key])
        p.time_begin = b                              # the window is selected on the (loaded) object, at the top level
        p.time_end = e
        return p

    if feats["target"] == "network":
        drawables = [sc.lanelet_network]
    elif feats["target"] == "objects":          # every sign, light and obstacle handed to the renderer on its own
        net = sc.lanelet_network
        drawables = list(net.traffic_signs) + list(net.traffic_lights) + list(sc.obstacles)
    else:
        drawables = [sc]
    dres, rres, _ = draw_and_render(figs, params, drawables + ([pps] if pps is not None else []),
                                    rkw=lambda: _renderer_kwargs(feats["view"], sc))
    return dres, rres


_LOADED = {}        # per CASE (reset in _exec_total): settings -> parameter object loaded from the saved style sheet
_MINIMAL = {}       # per CASE (reset in _exec_total): outcome -> [(minimal settings, culprit archetype)] already found


def _short(key):
    path, f = key.split(":")
    return f if not path else path.split(".")[-1] + "." + f


def minimise(figs, arch, b, e, flags, feats, outcome):
    """Smallest set of non-default settings that still gives the same outcome: the label of the finding.
    Only computes a name (by re-running the real code with fewer settings); the verdict is the logged outcome of the
    original run.  Causes found earlier in the same case are tried first (one confirming run each)."""
    defaults = flag_defaults()
    rooted = {k[1:] for k in flags if k.startswith(":")}
    # keep a group-level flag at its default when a top-level flag of the same field is in the row (it masks it)
    cur = {k: v for k, v in flags.items() if k.startswith(":") or defaults[k] != v or k.split(":")[1] in rooted}
    feats = dict(FEAT_DEFAULTS, **feats)
    run = lambda fl, ft, a=arch: _total_once(figs, a, b, e, fl, ft)
    nondef = lambda ft: [(k, v) for k, v in sorted(ft.items()) if v != FEAT_DEFAULTS[k]]

    def split(settings):
        fl = {k: v for k, v in settings if k not in FEAT_DEFAULTS}
        return fl, dict(FEAT_DEFAULTS, **{k: v for k, v in settings if k in FEAT_DEFAULTS})

    items = set(list(cur.items()) + nondef(feats))
    for (settings, culprit) in _MINIMAL.get(outcome, []):
        if settings <= items and culprit in (arch, "any-scenario") and run(*split(settings)) == outcome:
            return settings, culprit
    if run(cur, feats) != outcome:
        cur = dict(flags)

    def reduce(keys):                                  # drop whole blocks of settings while the outcome stays
        nonlocal cur
        if not keys:
            return
        trial = {k: v for k, v in cur.items() if k not in keys}
        if run(trial, feats) == outcome:
            cur = trial
        elif len(keys) > 1:
            reduce(keys[:len(keys) // 2])
            reduce(keys[len(keys) // 2:])
    reduce(sorted(cur, key=lambda k: (not k.startswith(":"), k)))           # top-level flags first
    for k in sorted(FEAT_DEFAULTS):
        if feats[k] != FEAT_DEFAULTS[k]:
            trial = dict(feats, **{k: FEAT_DEFAULTS[k]})
            if run(cur, trial) == outcome:
                feats = trial
    # a top-level flag that is needed: name the single group whose flag is responsible, if there is one
    for key in sorted(k for k in cur if k.startswith(":")):
        for nk in sorted(k for k in NODE_FLAGS if not k.startswith(":") and k.split(":")[1] == key[1:]):
            if nk in cur or defaults[nk] == cur[key]:
                continue
            trial = dict(cur)
            del trial[key]
            trial[nk] = cur[key]
            if run(trial, feats) == outcome:
                cur = trial
                break
    # is the archetype part of the cause?  (same outcome on another archetype -> it is not)
    culprit = arch
    if arch != "empty" and run(cur, feats, "plain" if arch != "plain" else "point-mass") == outcome:
        culprit = "any-scenario"
    res = (frozenset(list(cur.items()) + nondef(feats)), culprit)
    _MINIMAL.setdefault(outcome, []).append(res)
    return res


def _label(minimal):
    settings, culprit = minimal
    parts = []
    for k, v in sorted(settings):
        if k in FEAT_DEFAULTS:
            parts.append("%s=%s" % (k, v))
        else:
            parts.append(_short(k) if v else "no-" + _short(k))
    return "total/" + "+".join(parts + [culprit])


def _exec_total(case):
    arch, flags = case["arch"], dict(case["flags"])
    feats = {"lanelets": case["lf"], "problems": case["pf"], "view": case.get("view", "auto"),
             "target": case.get("target", "scenario"), "via": case.get("via", "memory")}
    on = sorted(k for k, v in flags.items() if v)
    figs, ev = _Fig(), []
    _MINIMAL.clear()                # labels must not depend on what this worker process executed before
    _LOADED.clear()
    for (wname, b, e) in case["wins"]:
        outcome = _total_once(figs, arch, b, e, flags, feats)
        sig = "total/%s/%s" % (arch, wname)
        if outcome != ("ok", "ok"):
            sig = _label(minimise(figs, arch, b, e, flags, feats, outcome))
        base = {"part": "total", "arch": arch, "win": wname, "b": b, "e": e, "on": on, "lf": feats["lanelets"],
                "pf": feats["problems"], "view": feats["view"], "target": feats["target"], "via": feats["via"], "sig": sig}
        ev.append(dict(base, op="draw", res=outcome[0]))
        ev.append(dict(base, op="render", res=outcome[1]))
    return ev


# =====================================================================================================================
# driver interface
# =====================================================================================================================

def model_check(ctx):
    check_tree(ctx)                 # fail early: every model below is built on the generated table
    # coverage off for the tree model (x4 run time; its only action is DoSet, the state count shows it is taken)
    ctx.mc("MC_Render", "MC_Render_t.cfg" if ctx.thorough else "MC_Render.cfg", coverage=False, timeout=1800)
    # Set / Replace histories of depth 3 (root, dynamic_obstacle, one deep node); the deviation constant documents the
    # seeded change seeded/C19-1 (a group that propagates to the nested groups it was constructed with)
    ctx.mc("MC_Render", "MC_Render_rep.cfg", coverage=False, timeout=1800)
    ctx.mc_expect("MC_Render", "DEV_Render_1.cfg", "PropContract")
    ctx.mc("MC_Render", "MC_Render_win.cfg", coverage=True)
    ctx.mc("MC_Render", "MC_Render_lights.cfg", coverage=False)
    ctx.mc("MC_Render", "MC_Render_frames.cfg", coverage=False)


def pairwise_rows(rng, factors, candidates=12):
    """Greedy pairwise-covering rows over `factors` = {name: [values]} (seeded)."""
    names = sorted(factors)
    idx = [(i, j) for i in range(len(names)) for j in range(i + 1, len(names))]
    uncovered = {(i, j, a, b) for (i, j) in idx for a in factors[names[i]] for b in factors[names[j]]}
    rows = []
    while uncovered:
        best, best_cov = None, None
        seed_pair = next(iter(sorted(uncovered, key=str)[:1]))
        for _ in range(candidates):
            row = [rng.choice(factors[n]) for n in names]
            row[seed_pair[0]], row[seed_pair[1]] = seed_pair[2], seed_pair[3]       # progress guaranteed
            cov = [(i, j, row[i], row[j]) for (i, j) in idx if (i, j, row[i], row[j]) in uncovered]
            if best is None or len(cov) > len(best_cov):
                best, best_cov = row, cov
        uncovered.difference_update(best_cov)
        rows.append(dict(zip(names, best)))
    return rows


def _row_case(arch, wins, row):
    flags = {k: v for k, v in row.items() if ":" in k}
    return {"part": "total", "arch": arch, "wins": wins[arch], "flags": flags, "lf": row.get("lf", "all"),
            "pf": row.get("pf", "all"), "view": row.get("view", "auto"), "target": row.get("target", "scenario"),
            "via": row.get("via", "memory")}


def cases(ctx):
    check_tree(ctx)
    rng = ctx.rng
    cs = []
    # (1) tree: every node x every scalar field name of the table
    tree = ctx.gen("MC_Render", "GEN_Render_tree.cfg")
    for c in tree:
        cs.append({"part": "tree", "node": list(c["node"]), "fields": sorted(c["fields"]), "seed": rng.randrange(1 << 30)})
    # (1b) replace: every slot (node, child group) of the table
    slots = ctx.gen("MC_Render", "GEN_Render_rep.cfg")
    for c in slots:
        cs.append({"part": "replace", "node": list(c["node"]), "child": c["child"], "clean": c["clean"],
                   "scalars": sorted(c["scalars"]), "seed": rng.randrange(1 << 30)})
    ctx.extra["replace_slots"] = {"slots": len(slots), "clean (histories continue with Sets)": sum(c["clean"] for c in slots)}
    # (2) windows: every descriptor x window, all lanelet filters; all descriptors in one scenario per window
    win = ctx.gen("MC_Render", "GEN_Render_win.cfg")
    descs, windows = [], []
    fl = sorted(FILTERS)
    for i, c in enumerate(sorted(win, key=lambda c: json.dumps(c, sort_keys=True))):
        d = {"id": 1, "kind": c["desc"]["kind"], "t0": c["desc"]["t0"], "n": c["desc"]["n"]}
        # quick: two of the seven lanelet filters per case, rotating (the filter does not interact with the obstacle)
        case = {"part": "window", "obs": [d], "b": c["b"], "e": c["e"],
                "filters": fl if ctx.thorough else [fl[i % len(fl)], fl[(i + 3) % len(fl)]]}
        if i % 12 == 5:                 # parameters (window, flags, id filter) saved to a style file and loaded from it
            sel = [f for f in fl if FILTERS[f] is not None]
            case["file"], case["filters"] = 1, [sel[(i // 12) % len(sel)]] + case["filters"][1:]
        cs.append(case)
        if d not in descs:
            descs.append(d)
        if [c["b"], c["e"]] not in windows:
            windows.append([c["b"], c["e"]])
    descs.sort(key=lambda d: (d["kind"], d["t0"], d["n"]))
    for b, e in sorted(windows):
        cs.append({"part": "window", "obs": [dict(d, id=i + 1) for i, d in enumerate(descs)], "b": b, "e": e,
                   "filters": ["none", "two"]})
        # the window selected at the top level AFTER nested groups were replaced by freshly built ones
        cs.append({"part": "window", "obs": [dict(d, id=i + 1) for i, d in enumerate(descs)], "b": b, "e": e,
                   "filters": ["none"], "route": "replace"})
        for _ in range(8 if ctx.thorough else 1):                # random sub-scenarios, shuffled ids
            sub = rng.sample(descs, 6)
            ids = rng.sample(range(1, 30), 6)
            cs.append({"part": "window", "obs": [dict(d, id=i) for d, i in zip(sub, ids)], "b": b, "e": e,
                       "filters": [rng.choice(sorted(FILTERS))]})
    ctx.extra["window_cases"] = {"descriptors": len(descs), "windows": len(windows),
                                 "descriptor_x_window": len(win),
                                 "with_a_shape_that_must_be_drawn": sum(1 for c in win if c["must"] > 0),
                                 "with_an_EITHER_band_shape (t = time_end)": sum(1 for c in win if c["band"] > 0)}
    # (2c) frame sequences: the video loop on one renderer, for the obstacles that change over time (+ all kinds at once)
    fr = sorted(ctx.gen("MC_Render", "GEN_Render_frames.cfg"), key=lambda c: json.dumps(c, sort_keys=True))
    n_fr = 0
    for c in fr:
        d = {"id": 1, "kind": c["desc"]["kind"], "t0": c["desc"]["t0"], "n": c["desc"]["n"]}
        if d["kind"] in ("static", "env"):
            continue
        cs.append({"part": "frames", "obs": [d], "b": c["b"], "e": c["e"], "k": 3})
        n_fr += 1
    for b, e in ((0, 0), (0, 2), (1, 1), (1, 3)):
        cs.append({"part": "frames", "obs": [dict(d, id=i + 1) for i, d in enumerate(descs)], "b": b, "e": e, "k": 4})
        n_fr += 1
    ctx.extra["frame_sequences"] = {"sequences": n_fr, "rounds_each": "4-5 render_dynamic rounds + a final render()"}
    # (2b) lights: every light configuration x every time_begin (TLC); a second light with another configuration
    lit = sorted(ctx.gen("MC_Render", "GEN_Render_lights.cfg"), key=lambda c: json.dumps(c, sort_keys=True))
    for i, c in enumerate(lit):
        other = lit[(i * 7 + 13) % len(lit)]["light"]
        cs.append({"part": "lights", "lights": [c["light"], other], "t": c["t"], "inside": (i // 2) % 2, "file": int(i % 8 == 3),
                   "filters": ["none"] if i % 4 else ["none", "two"]})
    ctx.extra["light_cases"] = {"light_configurations_x_time_begin": len(lit),
                                "with_an_inactive_phase_in_the_cycle": sum(
                                    1 for c in lit if any(x["c"] == "inactive" for x in c["light"]["cyc"])),
                                "switched_off": sum(1 for c in lit if not c["light"]["active"])}
    # (3) totality: archetype x window from the spec, flag rows from here
    tot = ctx.gen("MC_Render", "GEN_Render_total.cfg")
    wins = {}
    for c in sorted(tot, key=lambda c: (c["arch"], c["b"], c["e"])):
        wins.setdefault(c["arch"], []).append([c["win"], c["b"], c["e"]])
    archs = sorted(wins)
    factors = {k: [0, 1] for k in NODE_FLAGS}
    factors.update({"arch": archs, "lf": sorted(LFILTERS), "pf": sorted(PFILTERS), "view": list(VIEWS),
                    "target": list(TARGETS), "via": list(ROUTES)})
    rows = pairwise_rows(rng, factors)
    n_pair = len(rows)
    for row in rows:
        cs.append(_row_case(row["arch"], wins, row))
    for arch in archs:                                            # all defaults, everything on, everything off
        for v in (None, 0, 1):
            cs.append(_row_case(arch, wins, {} if v is None else {k: v for k in NODE_FLAGS}))
    # signs and lights inside / outside the plot area: every view x target with sign / light drawing (and labels) on,
    # at lanelet-network level and at top level
    n_sign = 0
    for arch in ("signs-inside", "signs-lights", "lights-inactive"):
        for view in VIEWS:
            for target in TARGETS:
                for label in (0, 1):
                    row = {"view": view, "target": target, "via": "file" if n_sign % 6 == 5 else "memory"}
                    for grp in ("lanelet_network.traffic_sign", "traffic_sign"):
                        row[grp + ":draw_traffic_signs"], row[grp + ":show_label"] = 1, label
                    for grp in ("lanelet_network.traffic_light", "traffic_light"):
                        row[grp + ":draw_traffic_lights"], row[grp + ":show_label"] = 1, label
                    cs.append(_row_case(arch, wins, row))
                    n_sign += 1
    n_rand = 0
    for _ in range(1500 if ctx.thorough else 500):
        dens = rng.choice([0.1, 0.5, 0.9])
        row = {k: int(rng.random() < dens) for k in NODE_FLAGS}
        if rng.random() < 0.5:
            row.update({k: rng.randint(0, 1) for k in ROOT_FLAGS if rng.random() < 0.3})
        row["lf"], row["pf"] = rng.choice(sorted(LFILTERS)), rng.choice(sorted(PFILTERS))
        row["view"], row["target"], row["via"] = rng.choice(VIEWS), rng.choice(TARGETS), ("file" if rng.random() < 0.1 else "memory")
        cs.append(_row_case(rng.choice(archs), wins, row))
        n_rand += 1
    n_prod = 0
    if ctx.thorough:                                              # full product over the top-level flags of the statement
        short = {a: [w for w in wins[a] if w[0] == "inside"] for a in archs}      # other windows: random rows above
        root_fields = {k[1:] for k in ROOT_FLAGS}
        free = [k for k in NODE_FLAGS if k.split(":")[1] not in root_fields]
        for bits in range(1 << len(ROOT_FLAGS)):
            base = {k: (bits >> i) & 1 for i, k in enumerate(ROOT_FLAGS)}
            for arch in [a for a in archs if a in PRODUCT_ARCHETYPES]:
                row = dict(base)
                row.update({k: rng.randint(0, 1) for k in free})
                row["lf"], row["pf"] = rng.choice(sorted(LFILTERS)), rng.choice(sorted(PFILTERS))
                cs.append(_row_case(arch, short, row))
                n_prod += 1
    ctx.extra["total_rows"] = {"pairwise": n_pair, "signs_lights_x_view_x_target": n_sign, "random": n_rand, "product": n_prod, "archetypes": len(archs),
                               "flags": len(NODE_FLAGS), "top_level_flags": len(ROOT_FLAGS)}
    return cs


def execute(case):
    use_repo()
    import warnings
    warnings.filterwarnings("ignore")
    part = case["part"]
    if part == "tree":
        return {"ev": _exec_tree(case)}
    if part == "replace":
        return {"ev": _exec_replace(case)}
    if part == "window":
        return {"ev": _exec_window(case)}
    if part == "lights":
        return {"ev": _exec_lights(case)}
    if part == "frames":
        return {"ev": _exec_frames(case)}
    if part == "total":
        return {"ev": _exec_total(case)}
    raise tlc.MachineryError("unknown case part %r" % (part,))


def nontrivial(case):
    if case["part"] == "tree":
        return ("tree", tuple(case["node"]))
    if case["part"] == "frames":
        return ("frames", json.dumps(case["obs"], sort_keys=True), case["b"], case["e"])
    if case["part"] == "lights":
        return ("lights", json.dumps(case["lights"], sort_keys=True), case["t"])
    if case["part"] == "replace":
        return ("replace", tuple(case["node"]), case["child"])
    if case["part"] == "window":
        return ("window", case.get("route", ""), json.dumps(case["obs"], sort_keys=True), case["b"], case["e"], tuple(case["filters"]))
    return ("total", case["arch"], json.dumps(case["flags"], sort_keys=True), case["lf"], case["pf"], case.get("view"),
            case.get("target"), case.get("via"))


def corrupt(trace, rng):
    """Corrupt ONE logged observation; the trace spec must reject exactly that event."""
    evs = trace["ev"]
    i = rng.randrange(len(evs))
    e = evs[i]
    if e["op"] == "set":
        mine = [x for x in e["vals"] if x[0] == e["node"]]
        if mine and rng.random() < 0.5:
            mine[0][1] = "<corrupted>"                            # the node itself did not take the value -> missed
        else:
            e["changed"].append([["static_obstacle"], "<no-such-field>"])      # something else changed -> clobbered
    elif e["op"] == "roundtrip":
        e["changed"].append([["lanelet_network"], "draw_ids"])     # a loaded value differs -> changed
    elif e["op"] == "replace":
        if rng.random() < 0.5:
            e["holds"] = 0                                        # the assignment did not take -> lost
        else:
            e["changed"].append([["static_obstacle"] if e["node"] + [e["child"]] != ["static_obstacle"] else ["shape"],
                                 "time_begin"])                   # a group elsewhere changed -> clobbered
    elif e["op"] == "drawn":
        e["drawn"].append([99, 0])                                # a shape nobody reported -> extra
    elif e["op"] == "lights":
        if e["shown"] and rng.random() < 0.7:
            x = rng.choice(e["shown"])
            x[1] = "green" if x[1] != "green" else "red"         # the artist shows another colour -> state
        else:
            e["shown"] = e["shown"][1:] if e["shown"] else [[999, "red"]]     # -> missing / extra
    elif e["op"] == "lanelets" and e["parts"] and rng.random() < 0.4:
        e["parts"] = [x for x in e["parts"] if x != e["parts"][0]]           # one part of one lanelet gone -> part-missing
    elif e["op"] == "lanelets":
        if e["lanelets"] and rng.random() < 0.5:
            e["lanelets"].pop()                                   # -> missing
        else:
            e["lanelets"].append(555)                             # -> extra
    else:
        e["res"] = "exc:Corrupted"
    return trace


if __name__ == "__main__":
    if "--regen" in sys.argv:
        with open(TREE_FILE, "w") as f:
            f.write(tree_tla(tree_dump()))
        print("wrote", TREE_FILE)
    elif "--dump" in sys.argv:
        print(json.dumps(tree_dump(), indent=1))
