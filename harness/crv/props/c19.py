"""C19 - rendering is total and shows the model at the selected time (spec: Render.tla, RenderTree.tla, MC_Render.tla).

Three parts (see Render.tla):
 (1) draw-parameter tree: Set(node, field, v) on a real MPDrawParams, logged as the values of `field` at all nodes plus the
     list of every (node, attribute) whose value changed;
 (2) time window: single- and multi-obstacle lattice scenarios x all windows x lanelet id filters, logged as the lattice
     cells in which an obstacle patch was collected (MPRenderer.obstacle_patches, read between draw and render), what the
     model reports (occupancy_at_time is not None) and the lanelets whose paths were collected in static_collections;
 (3) totality: archetype x window x flag rows, draw + render (+ canvas.draw) must not raise.

`python -m crv.props.c19 --regen` rewrites spec/RenderTree.tla from dataclasses.fields of the real classes.
"""
import json
import os
import sys

from crv import tlc
from crv.core import use_repo

PROPERTY = "C19"
MODULES = ["RenderTree", "Render", "MC_Render", "Trace_Render"]
TRACE = ("Trace_Render", "Trace_Render.cfg")
EXHAUSTIVE = True
RULE = ("(1) TLC enumerates every node of the draw-parameter tree x every scalar field name declared anywhere in it; each "
        "(node, field) is executed as a history of Sets on one real MPDrawParams (set, same set again, a set of another "
        "field at another node, set back) and every Set is checked against the propagation contract. "
        "(2) TLC enumerates all obstacle descriptors (static / environment / dynamic without prediction, with trajectory or "
        "set-based prediction of 1..3 steps / phantom, t0 in 0..2) x all windows 0 <= begin <= end <= 6 x 7 lanelet id "
        "filters, single-obstacle scenarios plus one scenario with all descriptors; drawn cells and lanelets are compared "
        "with the contract, time_end itself is an EITHER band. "
        "(3) archetypes x windows (from TLC) x flag rows (quick: seeded pairwise-covering rows + random rows; thorough: "
        "full product over 12 obstacle flags, remaining flags random) must draw and render without exception. "
        "distinct_nontrivial = distinct (node, field) + (descriptor, window, filter) + (archetype, flag row) cases.")
ASSUMPTIONS = ["parameter-tree table spec/RenderTree.tla is generated from dataclasses.fields of the real classes and "
               "re-generated at every check (difference = SPEC-DRIFT, machinery failure, never a violation)",
               "only scalar (non-group, public) fields are Set; values are of the declared type",
               "a patch is attributed to (obstacle, time) by the lattice cell of its bounding-box centre; every "
               "(obstacle, time) occupancy lives in its own 10x10 cell",
               "lanelets drawn are observed through the paths of the collections in the public MPRenderer.static_collections "
               "(there is no public per-lanelet record); default lanelet flags (fill on) are used for that part",
               "render = MPRenderer.render() followed by figure.canvas.draw() (Agg)",
               "time_end itself is an EITHER band (documented inclusive, implemented exclusive)"]

TREE_FILE = os.path.join(tlc.SPEC, "RenderTree.tla")


# =====================================================================================================================
# (1) parameter tree: table generation (code -> spec/RenderTree.tla) and Set histories
# =====================================================================================================================

def tree_dump():
    """The real class table: {class name: {"fields": [scalar public field names], "kids": [[field, class name], ...]}}."""
    use_repo()
    import dataclasses
    from commonroad.visualization import draw_params as dp
    table, todo = {}, [dp.MPDrawParams]
    while todo:
        cls = todo.pop()
        if cls.__name__ in table:
            continue
        inst = cls()
        fields, kids = [], []
        for f in dataclasses.fields(cls):
            if f.name.startswith("_"):
                continue
            v = getattr(inst, f.name)
            if isinstance(v, dp.BaseParam):
                kids.append([f.name, type(v).__name__])
                todo.append(type(v))
            else:
                fields.append(f.name)
        table[cls.__name__] = {"fields": sorted(fields), "kids": kids}
    return {"root": "MPDrawParams", "classes": {k: table[k] for k in sorted(table)}}


def tree_tla(dump):
    out = ["------------------------------- MODULE RenderTree -------------------------------",
           "(* GENERATED from commonroad/visualization/draw_params.py by `python -m crv.props.c19 --regen` *)",
           "(* (harness/crv/props/c19.py: tree_dump / tree_tla).  DO NOT EDIT; the C19 check re-generates *)",
           "(* this text from dataclasses.fields of the real classes and compares (SPEC-DRIFT).           *)",
           "(* fields = declared public non-group fields (inherited included); kids = nested groups.      *)",
           "RootClass == \"%s\"" % dump["root"], "ClassTable == ["]
    rows = []
    for name, c in dump["classes"].items():
        fs = ", ".join('"%s"' % f for f in c["fields"])
        ks = ", ".join('<<"%s", "%s">>' % (k, kc) for k, kc in c["kids"])
        rows.append("  %s |->\n    [fields |-> {%s},\n     kids |-> <<%s>>]" % (name, fs, ks))
    out.append(",\n".join(rows))
    out.append("]")
    out.append("=================================================================================")
    return "\n".join(out) + "\n"


def check_tree(ctx=None):
    """Re-generate the table from the code and compare with the checked-in module."""
    want = tree_tla(tree_dump())
    have = open(TREE_FILE).read() if os.path.exists(TREE_FILE) else ""
    if want != have:
        import difflib
        d = "\n".join(list(difflib.unified_diff(have.splitlines(), want.splitlines(), "spec/RenderTree.tla",
                                                "regenerated", lineterm=""))[:40])
        if ctx is not None:
            ctx.notes.append("SPEC-DRIFT: spec/RenderTree.tla differs from the draw_params.py class table")
        raise tlc.MachineryError("SPEC-DRIFT: spec/RenderTree.tla is not what draw_params.py declares; run "
                                 "`PYTHONPATH=/verif/harness /venv/bin/python -m crv.props.c19 --regen` and review:\n" + d)


if __name__ == "__main__":
    if "--regen" in sys.argv:
        with open(TREE_FILE, "w") as f:
            f.write(tree_tla(tree_dump()))
        print("wrote", TREE_FILE)
    elif "--dump" in sys.argv:
        print(json.dumps(tree_dump(), indent=1))
