"""C20 - lanelet arc-length geometry and successor-route enumeration are sound (spec: LaneletGeom.tla)."""
import math
import signal

from crv.core import use_repo

PROPERTY = "C20"
MODULES = ["LaneletGeom", "MC_LaneletGeom", "Trace_LaneletGeom"]
TRACE = ("Trace_LaneletGeom", "Trace_LaneletGeom.cfg")
EXHAUSTIVE = True
RULE = ("TLC enumerates (a) every polyline of 1..4 segments over the steps (1,0),(2,0),(0,1),(0,2),(3,4),(4,3) with "
        "parallel offset boundaries - executed: Lanelet.distance once and interpolate_position at every arc length of "
        "the half-integer grid 0..length (incl. 0, every vertex, full length); (b) every pair of such lanes of 1..2 "
        "segments joined end to start - executed: merge_lanelets in both argument orders x parts' cached distance "
        "cold / already read, and every merged lanelet is then treated as a lanelet (distance + interpolate_position at "
        "0, every vertex, every segment midpoint, full length, judged against its own vertices); (c) every digraph without "
        "self-loops on 3 lanelets x every start (quick) / on 4 lanelets with start 1, w.l.o.g. by relabelling "
        "(thorough: 4096 graphs) x lengths in {1,2}^n x ranges {1,2,3,5,100} - executed: "
        "find_lanelet_successors_in_range and find_lanelet_predecessors_in_range under a 5 s alarm. Plus seeded random "
        "cases beyond TLC's bounds: polylines of up to 10 vertices in all directions with steps from the triples "
        "3-4-5, 5-12-13, 8-15-17 (scaled), non-parallel (wedge) boundaries, arc lengths on the 1/2, 1/4, 1/8 grid; "
        "merges of such lanes (1..6 segments per part, uneven spacing); array representations: every <= 2-segment "
        "TLC polyline (every 5th longer one in quick) x similarity units sqrt(1,2,5,10) x {float64, int64, int32, "
        "float32, Fortran-ordered, sliced, sliced int64}; half of the merge and graph cases rotate through the same "
        "units x representations (graph lanelet lengths len*sqrt(U) as range thresholds); chains of 2..4 joined lanes merged by "
        "all_lanelets_by_merging_successors/predecessors_from_lanelet, each result treated as a lanelet; digraphs on 5-6 lanelets with lengths 1..4 and ranges 1..15/100. "
        "(d) histories: TLC enumerates every sequence of <= 2 (thorough 3) tokens from {translate_rotate x2, "
        "LaneletNetwork.translate_rotate, center/left/right setter, merge with a successor (both orders), draw+render "
        "inside a network behind an active traffic light} with optional queries in between, on 2 base lanes; every "
        "prefix is a case, the full query set is asked at the end and judged against the lanelet's CURRENT public "
        "vertices (enlarged by the smallest K in 1,4,16,.. that puts them on the integer grid); plus random longer "
        "histories that re-ask everything after each step. "
        "distinct_nontrivial = distinct polylines with >= 3 vertices + distinct merge pairs + distinct chains + distinct "
        "(graph, lengths) pairs with at least one edge.")
ASSUMPTIONS = ["polylines have >= 2 vertices and consecutive vertices are distinct (statement's quantifier); segment "
               "lengths are integers so that every expected value is an exact rational",
               "returned floats are logged as integer grid indices k (value k/den) plus a flag 'within 1e-9 of the grid "
               "value'; the expected rational is computed by TLC from LaneletGeom.tla (PointAt / BoundaryAt / Merge / "
               "RoutesClause), never by the harness",
               "lanelet graphs: predecessor lists are the reverse of the successor lists, no self-loops, no duplicate "
               "links; merge: the successor starts where the predecessor ends on all three polylines",
               "a route query that does not return within 5 s is logged as 'timeout' (clause C20.Terminates)"]

ALARM_S = 5


# --------------------------------------------------------------------------------------------------------------
def model_check(ctx):
    ctx.mc("MC_LaneletGeom", "MC_LaneletGeom.cfg", coverage=True)
    if ctx.thorough:
        ctx.mc("MC_LaneletGeom", "MC_LaneletGeom4.cfg", timeout=3000)
    # non-vacuity of the route contract: without the loop guard the model must violate InvSound
    ctx.mc_expect("MC_LaneletGeom", "DEV_LaneletGeom_1.cfg", "InvSound")
    # the center_vertices setter kept the cached distance (fixed in /repo 964ea94): the model with that deviation
    # must violate the cache-coherence invariant
    ctx.mc_expect("MC_LaneletGeom", "DEV_LaneletGeom_2.cfg", "HistCoherent")


_TRIPLES = {"axis": [(1, 0, 1), (2, 0, 2), (3, 0, 3), (4, 0, 4)],
            "p5": [(3, 4, 5), (4, 3, 5), (6, 8, 10), (8, 6, 10)],
            "p13": [(5, 12, 13), (12, 5, 13)],
            "p17": [(8, 15, 17), (15, 8, 17)]}


def _lcm(a, b):
    return a * b // math.gcd(a, b)


def _orient(rng, st):
    dx, dy, h = st
    if rng.random() < 0.5:
        dx, dy = dy, dx
    return (dx * rng.choice((-1, 1)), dy * rng.choice((-1, 1)), h)


def _rand_steps(rng, nseg, fams):
    pool = [st for f in fams for st in _TRIPLES[f]]
    steps, prev = [], None
    while len(steps) < nseg:
        st = _orient(rng, rng.choice(pool))
        if prev is not None and st[0] * prev[1] == st[1] * prev[0] and st[0] * prev[0] + st[1] * prev[1] < 0:
            continue                                   # no exact U-turn (keeps the polyline a polyline)
        steps.append(st)
        prev = st
    return steps


def _poly(origin, steps):
    pts = [list(origin)]
    for dx, dy, _ in steps:
        pts.append([pts[-1][0] + dx, pts[-1][1] + dy])
    return pts


def _bounds(rng, c, wedge):
    """left / right boundaries: a parallel offset, or (wedge) per-vertex integer offsets = non-parallel boundaries."""
    ol, orr = (rng.randint(-3, 3), rng.randint(1, 3)), (rng.randint(-3, 3), -rng.randint(1, 3))
    if not wedge:
        return [[x + ol[0], y + ol[1]] for x, y in c], [[x + orr[0], y + orr[1]] for x, y in c]
    return ([[x + ol[0] + rng.randint(-2, 2), y + ol[1] + rng.randint(0, 3)] for x, y in c],
            [[x + orr[0] + rng.randint(-2, 2), y + orr[1] - rng.randint(0, 3)] for x, y in c])


def _rand_poly_case(rng):
    fams = ["axis"] + rng.sample(["p5", "p13", "p17"], rng.randint(0, 2))
    if "p13" in fams and "p17" in fams:
        fams.remove("p17")                             # keeps den small enough for 32-bit products in TLC
    steps = _rand_steps(rng, rng.randint(1, 9), fams)
    c = _poly((rng.randint(-20, 20), rng.randint(-20, 20)), steps)
    le, r = _bounds(rng, c, rng.random() < 0.5)
    sd = rng.choice((2, 4, 8))
    den = sd
    for _, _, h in steps:
        den = _lcm(den, sd * h)
    total = sum(h for _, _, h in steps)
    sns = {0, sd * total}
    acc = 0
    for _, _, h in steps:
        acc += h
        sns.add(sd * acc)
    for _ in range(12):
        sns.add(rng.randint(0, sd * total))
    return {"kind": "poly", "c": c, "l": le, "r": r, "sd": sd, "den": den, "sns": sorted(sns), "src": "random"}


def _rand_merge_case(rng):
    fams = ["axis"] + rng.sample(["p5", "p13", "p17"], rng.randint(0, 2))
    sa, sb = _rand_steps(rng, rng.randint(1, 6), fams), _rand_steps(rng, rng.randint(1, 6), fams)
    ca = _poly((rng.randint(-20, 20), rng.randint(-20, 20)), sa)
    cb = _poly(ca[-1], sb)
    ol, orr = (rng.randint(-3, 3), rng.randint(1, 3)), (rng.randint(-3, 3), -rng.randint(1, 3))
    lane = lambda c: {"l": [[x + ol[0], y + ol[1]] for x, y in c], "c": c,
                      "r": [[x + orr[0], y + orr[1]] for x, y in c]}
    return _variant({"kind": "merge", "a": lane(ca), "b": lane(cb), "src": "random"}, rng.randrange(1000))


_UNITS = {1: (1, 0), 2: (1, 1), 5: (1, 2), 10: (1, 3)}        # LaneletGeom.tla SimOf


def _variant(case, k):
    """every 2nd case stays plain (U = 1, float64); the others rotate through units x representations"""
    if k % 2 == 0:
        return case
    k //= 2
    U = (2, 5, 10, 1)[k % 4]
    case.update({"U": U, "p": _UNITS[U][0], "q": _UNITS[U][1], "dt": DTYPES[(k // 4) % len(DTYPES)]})
    return case


def _rand_chain_case(rng):
    fams = ["axis"] + rng.sample(["p5", "p13", "p17"], rng.randint(0, 1))
    ol, orr = (rng.randint(-3, 3), rng.randint(1, 3)), (rng.randint(-3, 3), -rng.randint(1, 3))
    lanes, origin = [], (rng.randint(-20, 20), rng.randint(-20, 20))
    for _ in range(rng.randint(2, 4)):
        c = _poly(origin, _rand_steps(rng, rng.randint(1, 4), fams))      # different vertex counts, uneven spacing
        origin = c[-1]
        lanes.append({"l": [[x + ol[0], y + ol[1]] for x, y in c], "c": c,
                      "r": [[x + orr[0], y + orr[1]] for x, y in c]})
    return {"kind": "chain", "lanes": lanes, "range": rng.choice((1000, 1000, rng.randint(1, 30))), "src": "random"}


def _rand_hist_case(rng):
    """longer histories on a random lane (wedge boundaries allowed); the full query set is re-asked after every
    mutation"""
    fams = ["axis"] + rng.sample(["p5", "p13"], rng.randint(0, 1))
    c = _poly((rng.randint(-5, 5), rng.randint(-5, 5)), _rand_steps(rng, rng.randint(1, 4), fams))
    le, r = _bounds(rng, c, rng.random() < 0.5)
    hist, nset, nmrg = [], 0, 0
    for _ in range(rng.randint(3, 6)):
        if rng.random() < 0.4:
            hist.append(rng.choice(_QUERIES))
        tok = rng.choice(list(_KIND))
        if tok.startswith("set") and nset >= 2 or tok.startswith("mrg") and nmrg >= 2:
            tok = rng.choice(("mv1", "mv3", "net2"))       # keeps coordinates and vertex counts small
        nset += tok.startswith("set")
        nmrg += tok.startswith("mrg")
        hist.append(tok)
    return {"kind": "hist", "base": {"l": le, "c": c, "r": r}, "hist": hist, "every": 1, "src": "random"}


def _rand_graph_case(rng):
    n = rng.choice((5, 6))
    p = rng.choice((0.15, 0.25, 0.4, 0.6))
    succ = [[j for j in range(1, n + 1) if j != i and rng.random() < p] for i in range(1, n + 1)]
    if rng.random() < 0.3:                             # force a long cycle through all lanelets
        perm = list(range(1, n + 1))
        rng.shuffle(perm)
        for a, b in zip(perm, perm[1:] + perm[:1]):
            if b not in succ[a - 1]:
                succ[a - 1] = sorted(succ[a - 1] + [b])
    lens = [rng.randint(1, 4) for _ in range(n)]
    starts = rng.sample(range(1, n + 1), 3)
    ranges = rng.sample(range(1, 16), 2) + [100]
    return _variant({"kind": "graph", "succ": succ, "len": lens, "queries": [[s, r] for s in starts for r in ranges],
                     "src": "random"}, rng.randrange(1000))


def cases(ctx):
    out = []
    nd = 0
    for c in ctx.gen("MC_LaneletGeom", "GEN_LaneletGeom_poly.cfg"):
        c["src"] = "tlc"
        if c["kind"] == "dpoly" and not ctx.thorough:  # quick: all <= 2-segment polylines, every 5th of the others
            nd += 1
            if len(c["c"]) > 3 and nd % 5:
                continue
        out.append(c)
    groups = {}
    for q in ctx.gen("MC_LaneletGeom", "GEN_LaneletGeom_graph4.cfg" if ctx.thorough else "GEN_LaneletGeom_graph.cfg",
                     timeout=3000):
        key = (tuple(tuple(s) for s in q["succ"]), tuple(q["len"]))
        g = groups.get(key)
        if g is None:
            g = groups[key] = {"kind": "graph", "succ": q["succ"], "len": q["len"], "queries": [], "src": "tlc"}
            _variant(g, len(groups))                   # units / array representations in rotation (U = 1, f64 most often)
            out.append(g)
        g["queries"].append([q["start"], q["range"]])
    for c in ctx.gen("MC_LaneletGeom", "GEN_LaneletGeom_hist3.cfg" if ctx.thorough else "GEN_LaneletGeom_hist.cfg",
                     timeout=3000):
        c["src"] = "tlc"
        out.append(c)
    rng = ctx.rng
    k = 10 if ctx.thorough else 1
    out += [_rand_hist_case(rng) for _ in range(300 * k)]
    out += [_rand_poly_case(rng) for _ in range(500 * k)]
    out += [_rand_merge_case(rng) for _ in range(200 * k)]
    out += [_rand_chain_case(rng) for _ in range(150 * k)]
    out += [_rand_graph_case(rng) for _ in range(1000 * k)]
    return out


def nontrivial(case):
    t = lambda p: tuple(tuple(v) for v in p)
    var = (case.get("U", 1), case.get("dt", "f64"))
    if case["kind"] == "dpoly":
        return ("dpoly", t(case["c"])) + var
    if case["kind"] == "poly":
        return ("poly", t(case["c"]), t(case["l"]), t(case["r"])) if len(case["c"]) >= 3 else None
    if case["kind"] == "merge":
        return ("merge", t(case["a"]["c"]), t(case["b"]["c"]), t(case["a"]["l"])) + var
    if case["kind"] == "hist":
        return ("hist", t(case["base"]["c"]), t(case["base"]["l"]), tuple(case["hist"])) if case["hist"] else None
    if case["kind"] == "chain":
        return ("chain",) + tuple(t(ln["c"]) for ln in case["lanes"]) + (t(case["lanes"][0]["l"]), case["range"])
    if any(case["succ"]):
        return ("graph", t(case["succ"]), tuple(case["len"])) + var
    return None


# --------------------------------------------------------------------------------------------------------------
class _Timeout(BaseException):
    pass


def _on_alarm(signum, frame):
    raise _Timeout()


def _call(f):
    """Run f() under a 5 s alarm; returns (status, value)."""
    old = signal.signal(signal.SIGALRM, _on_alarm)
    signal.setitimer(signal.ITIMER_REAL, ALARM_S)
    try:
        return "ok", f()
    except _Timeout:
        return "timeout", None
    except Exception as ex:
        return "exc:" + type(ex).__name__, None
    finally:
        signal.setitimer(signal.ITIMER_REAL, 0)
        signal.signal(signal.SIGALRM, old)


def _grid(x, den):
    """float -> (grid index k with value k/den, precision class: 2 = within 1e-9, 1 = within 1e-5 (relative to
    max(1,|x|)), 0 = off): a projection, not a judgement - the spec says which class an event needs."""
    try:
        x = float(x)
    except Exception:
        return 0, 0
    if not math.isfinite(x) or abs(x * den) >= 2 ** 31 - 1:
        return 0, 0
    k = int(round(x * den))
    err = abs(x - k / den)
    return k, 2 if err <= 1e-9 else (1 if err <= 1e-5 * max(1.0, abs(x)) else 0)


# ---- frames: the abstract lattice lanelet of a case vs. the arrays handed to the library ------------------------------
# F = {scale K, p, q, U = p^2 + q^2, dt}: real vertex = (p + qi) * abstract vertex / K, real length = abstract * sqrt(U) / K
# (LaneletGeom.tla (2c): similar lanelets; K: _find_scale).  dt = array representation.
_F0 = {"scale": 1, "p": 1, "q": 0, "U": 1, "dt": "f64"}
DTYPES = ("f64", "i64", "i32", "f32", "fortran", "sliced", "isliced")


def _frame(case=None, **kw):
    f = dict(_F0)
    if case:
        f.update({k: case[k] for k in ("p", "q", "U", "dt") if k in case})
    f.update(kw)
    return f


def _arr(pts, dt):
    """integer lattice points -> numpy array in the representation named dt (every one holds them exactly)"""
    import numpy as np
    if dt == "i64":
        return np.array(pts, dtype=np.int64)
    if dt == "i32":
        return np.array(pts, dtype=np.int32)
    if dt == "f32":
        return np.array(pts, dtype=np.float32)
    if dt == "fortran":
        return np.asfortranarray(np.array(pts, dtype=float))
    if dt in ("sliced", "isliced"):                    # non-contiguous view in both axes
        big = np.zeros((2 * len(pts), 3), dtype=float if dt == "sliced" else np.int64)
        big[::2, :2] = pts
        return big[::2, :2]
    return np.array(pts, dtype=float)


def _real(pts, F):
    """abstract lattice polyline -> the array handed to the library (similarity image, representation dt)"""
    p, q = F["p"], F["q"]
    assert F["scale"] == 1
    return _arr([[p * x - q * y, q * x + p * y] for x, y in pts], F["dt"])


def _abs_len(x, F):
    return float(x) / math.sqrt(F["U"]) * F["scale"]


def _abs_pt(pt, F):
    a, b = float(pt[0]), float(pt[1])
    return ((F["p"] * a + F["q"] * b) / F["U"] * F["scale"], (-F["q"] * a + F["p"] * b) / F["U"] * F["scale"])


def _real_arc(sn, sd, F):
    return sn / sd / F["scale"] * math.sqrt(F["U"])


def _dsig(F):
    """shape of the representation for sigs: dtype family x rational / irrational segment lengths"""
    fam = {"f64": "f64", "i64": "int", "i32": "int", "isliced": "int", "f32": "f32", "fortran": "layout",
           "sliced": "layout"}[F["dt"]]
    return "dtype:" + fam + ("/irrational" if F["U"] != 1 else "/rational")


def _lanelet(lid, lane_l, lane_c, lane_r, F=None, **kw):
    from commonroad.scenario.lanelet import Lanelet
    F = F or _F0
    return Lanelet(_real(lane_l, F), _real(lane_c, F), _real(lane_r, F), lid, **kw)


def _int_cum(c):
    """integer cumulative lengths of the case's polyline - used only to name the SHAPE of a query (sig)."""
    acc, out = 0, [0]
    for (x0, y0), (x1, y1) in zip(c, c[1:]):
        acc += math.isqrt((x1 - x0) ** 2 + (y1 - y0) ** 2)
        out.append(acc)
    return out


def _shape(sn, sd, cum):
    if sn == 0:
        return "at-start"
    if sn == sd * cum[-1]:
        return "at-end"
    if sn % sd == 0 and sn // sd in cum:
        return "at-vertex"
    return "interior"


def _fields(F):
    return {"scale": F["scale"], "U": F["U"], "dt": F["dt"]}


def _distance_event(la, c, den, sig, ev, F=None):
    """c: the abstract polyline (frame F); returned lengths are mapped into that frame before gridding"""
    F = F or _F0
    st, d = _call(lambda: [float(v) for v in la.distance])
    ev.append(dict({"op": "distance", "sig": sig, "st": st, "c": c, "den": den,
                    "res": [list(_grid(_abs_len(v, F), den)) for v in d] if st == "ok" else []}, **_fields(F)))


def _interp_events(pick, c, le, r, sns, sd, den, sigpref, ev, F=None):
    """interpolate_position at every (abstract) arc length sn/sd of sns on the lanelet pick(n); logs what came back,
    mapped into the abstract frame."""
    F = F or _F0
    plain = F["scale"] == 1 and F["U"] == 1
    cum = _int_cum(c)
    for n, sn in enumerate(sns):
        obj = pick(n)
        # integral arc lengths are passed alternately as int and as float (both are real numbers)
        arg = sn // sd if (sn % sd == 0 and n % 2 == 1 and plain) else _real_arc(sn, sd, F)
        if sn == sd * cum[-1]:
            # "0 <= s <= length": the full length is the lanelet's OWN length (a float sum can differ from the nominal
            # value by rounding, and interpolate_position asserts s <= distance[-1]); a length that is really off is
            # reported by the distance event
            try:
                own, nom = float(obj.distance[-1]), _real_arc(sn, sd, F)
                if own < nom and nom - own <= 1e-5 * max(1.0, nom):
                    arg = own
            except Exception:
                pass
        st, res = _call(lambda: obj.interpolate_position(arg))
        pts = [[0, 0, 0]] * 3
        if st == "ok":
            try:
                pts = []
                for pt in res[:3]:
                    ax, ay = _abs_pt(pt, F)
                    kx, ex = _grid(ax, den)
                    ky, ey = _grid(ay, den)
                    pts.append([kx, ky, min(ex, ey) if len(pt) == 2 else 0])
            except Exception as ex:
                st, pts = "exc:result:" + type(ex).__name__, [[0, 0, 0]] * 3
        ev.append(dict({"op": "interpolate", "sig": sigpref + (_shape(sn, sd, cum) if sigpref.endswith("/") else ""),
                        "st": st, "c": c, "l": le, "r": r, "sn": sn, "sd": sd, "den": den, "res": pts},
                       **_fields(F)))


def _exec_poly(case):
    c, le, r, sd, den = case["c"], case["l"], case["r"], case["sd"], case["den"]
    cum = _int_cum(c)
    sns = case.get("sns") or list(range(0, sd * cum[-1] + 1))
    ev = []
    la = _lanelet(1, le, c, r)
    _distance_event(la, c, den, "distance", ev)
    cold = _lanelet(2, le, c, r)                       # never asked for .distance before the first interpolation
    _interp_events(lambda n: cold if n == len(sns) // 2 else la, c, le, r, sns, sd, den, "interpolate/", ev)
    return ev


_SCALES = (1, 4, 16, 2, 8, 5, 20, 80, 10, 40)


def _exec_dpoly(case):
    """the same lattice polyline handed to Lanelet in the representation case["dt"], as its image under the
    similarity p + qi (segment lengths k * sqrt(U)); a fresh object per group of queries"""
    c, le, r = case["c"], case["l"], case["r"]
    F = _frame(case)
    cum = _int_cum(c)
    hs = [b - a for a, b in zip(cum, cum[1:])]
    sd, den = 2, 2
    for h in hs:
        den = _lcm(den, 2 * h)
    sns = sorted({2 * v for v in cum} | {2 * cum[k] + hs[k] for k in range(len(hs))})
    ev = []
    la = _lanelet(1, le, c, r, F)
    _distance_event(la, c, den, "distance/" + _dsig(F), ev, F=F)
    cold = _lanelet(2, le, c, r, F)
    _interp_events(lambda n: cold if n % 2 else la, c, le, r, sns, sd, den, "interpolate/" + _dsig(F), ev, F=F)
    return ev


def _find_scale(m, F=None):
    """smallest listed K such that K * (the lanelet's current vertices) are integer points with positive integer
    segment lengths.  Arc length and interpolation are homogeneous, so the spec may judge the K-fold enlarged lanelet:
    a projection that keeps the oracle exact when a vertex sits on a finer grid (e.g. moved 0.75 along a segment)."""
    import numpy as np
    try:
        arrs = [np.asarray(a, dtype=float) for a in (m.center_vertices, m.left_vertices, m.right_vertices)]
        if F is not None and F["U"] != 1:              # back into the case's abstract frame (inverse similarity)
            p, q, U = F["p"], F["q"], F["U"]
            arrs = [np.column_stack(((p * a[:, 0] + q * a[:, 1]) / U, (-q * a[:, 0] + p * a[:, 1]) / U))
                    for a in arrs]
    except Exception:
        return None
    if any(a.ndim != 2 or a.shape[1] != 2 or len(a) < 2 or len(a) != len(arrs[0]) or not np.isfinite(a).all()
           for a in arrs):
        return None
    for K in _SCALES:
        ints = [np.rint(a * K) for a in arrs]
        if any(np.abs(a * K - i).max() > 1e-9 * K or np.abs(i).max() > 10 ** 6 for a, i in zip(arrs, ints)):
            continue
        c = [[int(x), int(y)] for x, y in ints[0]]
        hs = []
        for (x0, y0), (x1, y1) in zip(c, c[1:]):
            d2 = (x1 - x0) ** 2 + (y1 - y0) ** 2
            h = math.isqrt(d2)
            if h == 0 or h * h != d2:
                hs = None
                break
            hs.append(h)
        if hs is None:
            continue
        return K, c, [[int(x), int(y)] for x, y in ints[1]], [[int(x), int(y)] for x, y in ints[2]], hs
    return None


def _as_lanelet_events(m, tag, ev, what="qall", F=None):
    """A lanelet produced or changed by the library is a lanelet: the same distance / interpolate_position events as
    for any lanelet, judged against ITS OWN current public vertices (scaled by K, see _find_scale).  Emitted only when
    an exact oracle exists (otherwise nothing is logged here; the preceding merge / mutate event carries the vertices).
    Arc lengths: 0, every vertex, every segment midpoint, full length (half-integer grid of the scaled lanelet)."""
    fs = _find_scale(m, F)
    if fs is None:
        return
    K, c, le, r, hs = fs
    F = _frame(F, scale=K)
    sd, den = 2, 2
    for h in hs:
        den = _lcm(den, 2 * h)
    maxc = max(abs(v) for p in c + le + r for v in p)
    if (maxc + max(hs)) * 2 * max(hs) * den >= 2 ** 30:
        return                                         # products would leave TLC's 32-bit integers
    cum = _int_cum(c)
    sns = sorted({2 * v for v in cum} | {2 * cum[k] + hs[k] for k in range(len(hs))})
    # history sigs and non-default array representations: no arc-length shape (keeps the number of sigs small)
    isig = "interpolate/" + tag + ("" if tag.startswith("hist/") or "@" in tag else "/")
    if what == "qi":                                   # one interior interpolation only (fills what it fills)
        _interp_events(lambda n: m, c, le, r, [2 * cum[0] + hs[0]], sd, den, isig, ev, F=F)
        return
    _distance_event(m, c, den, "distance/" + tag, ev, F=F)
    if what == "qd":
        return
    _interp_events(lambda n: m, c, le, r, sns, sd, den, isig, ev, F=F)
    if tag.startswith("hist/"):
        # inner_distance is not named by the statement: logged (and its cache exercised), never judged
        st, d = _call(lambda: [float(v) for v in m.inner_distance])
        ev.append({"op": "inner_distance", "sig": "inner_distance/" + tag, "st": st, "l": le, "r": r, "den": den,
                   "scale": K, "res": [list(_grid(_abs_len(v, F), den)) for v in d] if st == "ok" else []})


def _verts(arr, F=None):
    """vertices in the abstract frame as integers + the precision class of the worst coordinate"""
    out, cls = [], 2
    for p in arr:
        ax, ay = _abs_pt(p, F or _F0)
        kx, ex = _grid(ax, 1)
        ky, ey = _grid(ay, 1)
        cls = min(cls, ex, ey, 2 if len(p) == 2 else 0)
        out.append([kx, ky])
    return out, cls


def _exec_merge(case):
    from commonroad.scenario.lanelet import Lanelet
    a, b = case["a"], case["b"]
    F = _frame(case)
    suf = "" if F == _F0 else "@" + _dsig(F)
    ev = []
    for order in ("fwd", "swapped"):                   # the docstring / statement do not depend on the argument order
        for warm in (0, 1):                            # the parts' cached .distance: never read / read before merging
            la = _lanelet(1, a["l"], a["c"], a["r"], F, successor=[2])
            lb = _lanelet(2, b["l"], b["c"], b["r"], F, predecessor=[1])
            if warm:
                _call(lambda: (la.distance, lb.distance))
            st, m = _call(lambda: Lanelet.merge_lanelets(la, lb) if order == "fwd" else Lanelet.merge_lanelets(lb, la))
            res, rlen = {"l": [], "c": [], "r": [], "ex": 0}, [0, 0]
            if st == "ok":
                try:
                    vl, el = _verts(m.left_vertices, F)
                    vc, ec = _verts(m.center_vertices, F)
                    vr, er = _verts(m.right_vertices, F)
                    res = {"l": vl, "c": vc, "r": vr, "ex": min(el, ec, er)}
                    rlen = list(_grid(_abs_len(m.distance[-1], F), 1))
                except Exception as ex:
                    st = "exc:result:" + type(ex).__name__
            ev.append(dict({"op": "merge", "sig": "merge/" + order + suf, "st": st, "a": a, "b": b, "res": res,
                            "rlen": rlen, "warm": warm}, **_fields(F)))
            if st == "ok":
                _as_lanelet_events(m, "merged-" + order + suf, ev, F=F)
    return ev


def _exec_chain(case):
    """lanes joined end to start, ids 1..k, linked i -> i+1: route merging forwards from 1 and backwards from k;
    every merged lanelet returned is then treated as a lanelet."""
    from crv import gamma
    from commonroad.scenario.lanelet import Lanelet
    lanes = case["lanes"]
    k = len(lanes)
    ev = []
    for warm in (0, 1):
        lls = [_lanelet(i + 1, ln["l"], ln["c"], ln["r"], predecessor=[i] if i >= 1 else [],
                        successor=[i + 2] if i + 2 <= k else []) for i, ln in enumerate(lanes)]
        if warm:
            for x in lls:
                _call(lambda: x.distance)
        net = gamma.network(lls)
        for tag, f, start in (("merged-succ-route", Lanelet.all_lanelets_by_merging_successors_from_lanelet, lls[0]),
                              ("merged-pred-route", Lanelet.all_lanelets_by_merging_predecessors_from_lanelet,
                               lls[-1])):
            st, res = _call(lambda: f(start, net, case["range"]))
            if st != "ok":
                continue                               # these helpers are not named by the statement: no clause
            try:
                ms = list(res[0])
            except Exception:
                continue
            for m in ms[:4]:
                _as_lanelet_events(m, tag, ev)
    return ev


# ---- histories: tokens of LaneletGeom.tla (MoveOf / Stretch / SuccLane give them the same meaning there) ----------
_MOVES = {"mv1": ((1, 2), 1), "mv3": ((-3, 1), 3), "net2": ((2, -1), 2)}      # translation, quarter turns
_KIND = {"mv1": "move", "mv3": "move", "net2": "netmove", "setc": "set_center", "setl": "set_left",
         "setr": "set_right", "mrgf": "merge_fwd", "mrgs": "merge_swapped", "draw": "draw"}
_QUERIES = ("qd", "qi", "qall")


def _stretch(arr):
    import numpy as np
    arr = np.array(arr, dtype=float)
    return 2.0 * arr - arr[0]


def _continue(arr):
    import numpy as np
    e = np.array(arr[-1], dtype=float)
    return np.array([e, e + [3.0, 4.0], e + [3.0, 6.0]])


def _draw(cur):
    """draw + render the lanelet under test inside a small network: it is the successor of a lanelet that carries a
    traffic light with an active cycle (so its center line is coloured).  A read-only operation."""
    import numpy as np
    import matplotlib
    matplotlib.use("Agg")
    import matplotlib.pyplot as plt
    from crv import gamma
    from commonroad.scenario.lanelet import Lanelet, LaneletNetwork
    from commonroad.visualization.mp_renderer import MPRenderer

    def go():
        s = np.array(cur.center_vertices[0][:2], dtype=float)
        pc = np.array([s - [2.0, 0.0], s])
        pid = 3 if cur.lanelet_id != 3 else 4
        pre = Lanelet(pc + [0.0, 1.0], pc, pc - [0.0, 1.0], pid, successor=[cur.lanelet_id], traffic_lights={900})
        net = LaneletNetwork()
        net.add_lanelet(pre)
        net.add_lanelet(cur)
        net.add_traffic_light(gamma.light(900, pos=(float(s[0]), float(s[1])), cycle=(("green", 5), ("red", 5))),
                              {pid})
        fig = plt.figure(figsize=(2, 2), dpi=40)
        try:
            rnd = MPRenderer(ax=fig.gca())
            net.draw(rnd)
            rnd.render()
        finally:
            plt.close("all")
    st, _ = _call(go)
    return st


def _mutate(cur, net, tok):
    """apply one mutation token through the public API; returns (status, lanelet under test, network)"""
    import numpy as np
    from commonroad.scenario.lanelet import Lanelet, LaneletNetwork
    if tok in ("mv1", "mv3"):
        (tx, ty), q = _MOVES[tok]
        ang = q * math.pi / 2 if q != 3 else -math.pi / 2
        st, _ = _call(lambda: cur.translate_rotate(np.array([float(tx), float(ty)]), ang))
        return st, cur, net
    if tok == "net2":
        (tx, ty), q = _MOVES[tok]
        if net is None or net.find_lanelet_by_id(cur.lanelet_id) is not cur:
            net = LaneletNetwork()
            net.add_lanelet(cur)
        st, _ = _call(lambda: net.translate_rotate(np.array([float(tx), float(ty)]), q * math.pi / 2))
        return st, cur, net
    if tok == "draw":
        return _draw(cur), cur, net
    if tok == "setc":
        new = _stretch(cur.center_vertices)
        st, _ = _call(lambda: setattr(cur, "center_vertices", new))
        return st, cur, net
    if tok == "setl":
        new = _stretch(cur.left_vertices)
        st, _ = _call(lambda: setattr(cur, "left_vertices", new))
        return st, cur, net
    if tok == "setr":
        new = _stretch(cur.right_vertices)
        st, _ = _call(lambda: setattr(cur, "right_vertices", new))
        return st, cur, net
    # merge with a successor that starts where the lane ends (every polyline continues from its last vertex)
    b = Lanelet(_continue(cur.left_vertices), _continue(cur.center_vertices), _continue(cur.right_vertices), 2,
                predecessor=[cur.lanelet_id])
    st, m = _call(lambda: Lanelet.merge_lanelets(cur, b) if tok == "mrgf" else Lanelet.merge_lanelets(b, cur))
    return st, (m if st == "ok" else cur), net


def _snapshot(la):
    try:
        return tuple(a.tobytes() for a in (la.center_vertices, la.left_vertices, la.right_vertices))
    except Exception:
        return None


def _exec_hist(case, every=False):
    """run the history on ONE lanelet object; query tokens ask what they name, and at the end (every=True: after each
    mutation) the full query set is asked.  Queries are judged against the lanelet's CURRENT public vertices."""
    base = case["base"]
    cur = _lanelet(1, base["l"], base["c"], base["r"])
    net, ev, last, tainted = None, [], "none", False
    hist = case["hist"]

    def tag():
        return "hist/after-" + last + ("+earlier-setter" if tainted else "")

    for k, tok in enumerate(hist):
        if tok in _QUERIES:
            _as_lanelet_events(cur, tag(), ev, what=tok)
            continue
        if last.startswith("set_"):
            tainted = True
        before = _snapshot(cur)
        st, cur, net = _mutate(cur, net, tok)
        last = _KIND[tok]
        changed = int(_snapshot(cur) != before)        # informational (a `draw` must not change them: that is C18's)
        try:
            vc, ec = _verts(cur.center_vertices)
            vl, el = _verts(cur.left_vertices)
            vr, er = _verts(cur.right_vertices)
        except Exception:
            vc, vl, vr, ec, el, er = [], [], [], 0, 0, 0
        ev.append({"op": "mutate", "sig": "mutate/" + last, "st": st, "act": tok, "c": vc, "l": vl, "r": vr,
                   "ex": min(ec, el, er), "changed": changed})
        if every and k + 1 < len(hist):
            _as_lanelet_events(cur, tag(), ev, what="qall")
    _as_lanelet_events(cur, tag(), ev, what="qall")
    return ev


def _cyclic(succ):
    n = len(succ)
    color = [0] * (n + 1)

    def dfs(u):
        color[u] = 1
        for v in succ[u - 1]:
            if color[v] == 1 or (color[v] == 0 and dfs(v)):
                return True
        color[u] = 2
        return False
    return any(color[u] == 0 and dfs(u) for u in range(1, n + 1))


def _exec_graph(case):
    from crv import gamma
    succ, lens = case["succ"], case["len"]
    n = len(succ)
    pred = [[j for j in range(1, n + 1) if i in succ[j - 1]] for i in range(1, n + 1)]
    # straight lanelets of abstract integer length (real length len * sqrt(U), arrays of representation dt), placed
    # apart; links only through the constructor
    F = _frame(case)
    lls = []
    for i in range(1, n + 1):
        cc = [[0, 4 * i], [lens[i - 1], 4 * i]]
        lls.append(_lanelet(i, [[x, y + 1] for x, y in cc], cc, [[x, y - 1] for x, y in cc], F,
                            predecessor=list(pred[i - 1]), successor=list(succ[i - 1])))
    net = gamma.network(lls)
    shape = ("cyclic" if _cyclic(succ) else "acyclic") + ("" if F == _F0 else "@" + _dsig(F))
    ev = []

    def mk(i, lid=None, **kw):
        cc = [[0, 4 * i], [lens[i - 1], 4 * i]]
        return _lanelet(lid or i, [[x, y + 1] for x, y in cc], cc, [[x, y - 1] for x, y in cc], F, **kw)

    def ask(la, ck, start, rng_):
        """both range searches on the object la (caller kind ck); logs the CALLER's own current direct lists"""
        for op, f, direct in (("succ_routes", la.find_lanelet_successors_in_range, la.successor),
                              ("pred_routes", la.find_lanelet_predecessors_in_range, la.predecessor)):
            caller = [int(x) for x in direct]
            st, res = _call(lambda: f(net, rng_))
            out = []
            if st == "ok":
                try:
                    out = [[int(x) for x in p] for p in res]
                except Exception as ex:
                    st = "exc:result:" + type(ex).__name__
            # sig: graph shape + (own caller: array representation | other callers: the caller kind) - few sigs
            sig = op + "/" + (shape if ck == "own" else shape.split("@")[0] + "/caller:" + ck.split("-")[0])
            ev.append({"op": op, "sig": sig,
                       "st": st, "succ": succ, "len": lens, "start": start, "range": rng_, "res": out,
                       "U": F["U"], "dt": F["dt"], "caller": caller, "ck": ck})

    kinds = ("edited-add", "edited-remove", "edited-assign", "foreign", "merged")
    for qi, (start, rng_) in enumerate(case["queries"]):
        ask(net.find_lanelet_by_id(start), "own", start, rng_)          # (1) the network's own object
        ck = kinds[(qi + start + n) % len(kinds)]
        others = [j for j in range(1, n + 1) if j != start]
        if ck.startswith("edited"):
            # (2) the network holds deep copies (create_from_lanelet_list); the ORIGINAL's lists are edited afterwards
            from commonroad.scenario.lanelet import LaneletNetwork
            orig = [mk(i, predecessor=list(pred[i - 1]), successor=list(succ[i - 1])) for i in range(1, n + 1)]
            net2 = LaneletNetwork.create_from_lanelet_list(orig, cleanup_ids=False)
            la = orig[start - 1]
            if ck == "edited-add":
                add_s = [j for j in others if j not in la.successor][:1]
                add_p = [j for j in others if j not in la.predecessor][-1:]
                for j in add_s:
                    la.add_successor(j)
                for j in add_p:
                    la.add_predecessor(j)
            elif ck == "edited-remove":
                for j in list(la.successor)[:1]:
                    la.remove_successor(j)
                for j in list(la.predecessor)[-1:]:
                    la.remove_predecessor(j)
            else:
                la.successor = [j for j in others if (j + start) % 2 == 0]
                la.predecessor = [j for j in others if (j + start) % 3 != 0]
            net_saved, net = net, net2
            ask(la, ck, start, rng_)
            net = net_saved
        elif ck == "foreign":
            # (3) a lanelet that is not in the network; its id collides with a network lanelet, its lists differ
            la = mk(start, successor=[j for j in others if j not in succ[start - 1]],
                    predecessor=[j for j in others if j not in pred[start - 1]])
            ask(la, ck, start, rng_)
        elif succ[start - 1]:
            # (4) the lanelet merged with its first successor (id = concatenated ids, not in the network)
            from commonroad.scenario.lanelet import Lanelet
            b = net.find_lanelet_by_id(succ[start - 1][0])
            st, m = _call(lambda: Lanelet.merge_lanelets(net.find_lanelet_by_id(start), b))
            if st == "ok" and net.find_lanelet_by_id(m.lanelet_id) is None:
                ask(m, ck, int(m.lanelet_id), rng_)
    return ev


def execute(case):
    use_repo()
    kind = case["kind"]
    if kind == "poly":
        return {"ev": _exec_poly(case)}
    if kind == "dpoly":
        return {"ev": _exec_dpoly(case)}
    if kind == "merge":
        return {"ev": _exec_merge(case)}
    if kind == "chain":
        return {"ev": _exec_chain(case)}
    if kind == "hist":
        return {"ev": _exec_hist(case, every=bool(case.get("every")))}
    return {"ev": _exec_graph(case)}


def corrupt(trace, rng):
    """Corrupt ONE logged result field of one accepted event; the trace spec must reject the trace."""
    evs = [i for i, e in enumerate(trace["ev"]) if e["st"] == "ok" and e["op"] not in ("mutate", "inner_distance")]
    if not evs:
        return None
    e = trace["ev"][rng.choice(evs)]
    if e["op"] == "distance":
        e["res"][-1][0] += 1                           # the last cumulative distance is no longer the length
    elif e["op"] == "interpolate":
        e["res"][rng.randrange(3)][rng.randrange(2)] += 1
    elif e["op"] == "merge":
        if rng.random() < 0.5:
            e["rlen"][0] += 1
        else:
            e["res"]["c"] = e["res"]["c"][:-1]
    else:
        e["res"].append([e["start"]])                  # a path through the start lanelet
    return trace
