"""X01 (extended coverage) - small containers and time-indexed sequences (spec: Containers.tla, MC_Containers.tla).

PlanningProblemSet (ids unique, ValueError on a used id, rejected add leaves the set unchanged, find returns exactly
the contained problem, planning_problem_dict cannot be replaced), Trajectory (constructor checks, state_at_time_step,
final_state, append_state, states_in_time_interval) and the time indexing of SetBasedPrediction / TrajectoryPrediction
(occupancy_at_time_step for exact and interval time steps, initial_time_step, final_time_step), and
Trajectory.resample_continuous_time_state_list (number of states, time steps, linear interpolation)."""
import json
import random
import warnings

from crv import graph, tlc
from crv.core import use_repo

PROPERTY = "X01"
MODULES = ["Containers", "MC_Containers", "Trace_Containers"]
TRACE = ("Trace_Containers", "Trace_Containers.cfg")
EXHAUSTIVE = True
RULE = ("TLC explores the implementation-shaped model of the three containers exhaustively (problems <<id,tag>> over "
        "3 ids x 2 tags with constructor lists up to 2; trajectories built from lists over 0..3 (initial time steps "
        "0..1), appended up to length 4, queried at -1..5; predictions = every list of up to 3 occupancies lo<=hi in "
        "0..3 x initial time step 0..1; larger constants in the thorough tier), checks that the contract accepts every "
        "step plus the laws of the contract operators, and dumps the labelled state graph of the SHIPPED behaviour "
        "(gap appends accepted); a transition cover of that graph (every edge taken once, walks from the absent "
        "object) is executed on real PlanningProblemSet / Trajectory objects, every prediction case on real "
        "SetBasedPrediction objects (exact steps as int and as Interval) for all t in lo-2..hi+2, plus seeded random "
        "histories beyond TLC's bounds (ids / time steps up to 10^6, 40 states, 8 occupancies); resampling requests "
        "(N, dT = p/q, t_0 = a/q over time stamps 0..tmax) are enumerated by TLC and drawn at random, executed on a "
        "quadratic signal and compared on the exact 1/q grid. TLC validates every "
        "logged call against Containers.tla. distinct_nontrivial = distinct walks / prediction cases with >= 2 "
        "occupancies / resampling requests / random seeds.")
ASSUMPTIONS = ["contract read from the docstrings and the messages of the argument asserts; where they are silent both "
               "behaviours are accepted (duplicate ids / non-consecutive or negative time steps in constructor lists, "
               "states_in_time_interval(a, b) with b < a, final_time_step of an empty prediction, an occupancy before "
               "the declared initial time step, which of several occupancies defined at t is returned)",
               "resampling: N or N+1 resulting states are both accepted (the docstring says N states, its side "
               "condition t_0+N*dT suggests the N+1 samples); a request ending exactly at the last time stamp with a "
               "non-binary dT may be rejected (floating-point comparison)",
               "append_state with a larger, non-consecutive time step: accepted or rejected; if accepted the new "
               "state must be found at its time step",
               "returned objects are identified by identity (position in state_list / occupancy_set, registry of the "
               "problems handed in); the expected answer is computed by TLC from Containers.tla, never by the harness"]

_ARG_KEYS = ("op", "q", "p", "i", "a0", "t", "a", "b")


# ---- design-level half -------------------------------------------------------------------------------

def model_check(ctx):
    ctx.mc("MC_Containers", "MC_Containers_t.cfg" if ctx.thorough else "MC_Containers.cfg", coverage=True, timeout=1800)
    # deviation constants: one conceivable defect (add overwrites) and the two shipped behaviours reported as findings
    ctx.mc_expect("MC_Containers", "DEV_Containers_1.cfg", "PropPpsRefines")
    ctx.mc_expect("MC_Containers", "DEV_Containers_2.cfg", "PropTrajRefines")
    ctx.mc_expect("MC_Containers", "DEV_Containers_3.cfg", "InvFinalRefines")


def cases(ctx):
    cfg = "GEN_Containers_t.cfg" if ctx.thorough else "GEN_Containers.cfg"
    r = tlc.run_tlc("MC_Containers", cfg, "x01_gen", workers=1, timeout=1800)
    if not r["ok"]:
        raise tlc.MachineryError("GEN failed: " + r["out"][-2000:])
    g = graph.parse_edges(tlc.tla_unquote(p) for p in tlc.printed_tuples(r["out"], "EDGE"))
    cs = []
    n_edges = sum(len(v) for v in g.values())
    n_walks = 0
    for d in ("pps", "traj"):
        sub = {k: v for k, v in g.items() if json.loads(k)["d"] == d}
        init = json.dumps({"d": d, "pl": 0, "S": [], "ts": [], "w": 0}, sort_keys=True)
        if init not in sub:
            raise tlc.MachineryError("initial state of domain %s not in the dumped graph" % d)
        for w in graph.cover_walks(sub, init, max_len=25, rng=ctx.rng):
            cs.append({"src": "walk", "kind": d, "ops": [{k: a[k] for k in _ARG_KEYS if k in a} for a in w]})
            n_walks += 1
    n_pred = 0
    n_res = 0
    for p in tlc.printed_tuples(r["out"], "CASE"):
        c = json.loads(tlc.tla_unquote(p))
        if "num" in c:
            cs.append(dict(c, src="tlc", kind="res"))
            n_res += 1
            continue
        cs.append({"src": "tlc", "kind": "pred", "t0": c["t0"], "occs": [list(o) for o in c["occs"]], "kinds": None})
        n_pred += 1
    if not n_pred or not n_walks:
        raise tlc.MachineryError("GEN produced no cases:\n" + r["out"][-2000:])
    ctx.mc_runs.append({"module": "MC_Containers", "cfg": cfg, "distinct_states": r["distinct"],
                        "states_generated": r["generated"], "depth": r["depth"], "wall_s": r["wall_s"],
                        "verdict": "dumped %d labelled edges -> %d covering walks; %d prediction cases; %d resampling "
                                   "requests" % (n_edges, n_walks, n_pred, n_res)})
    ctx.extra["graph_edges"] = n_edges
    # seeded random cases beyond TLC's bounds
    rng = ctx.rng
    n = 1500 if ctx.thorough else 200
    for _ in range(n):
        cs.append({"src": "random", "kind": "pps", "seed": rng.randrange(1 << 30), "len": rng.randint(10, 60)})
        cs.append({"src": "random", "kind": "traj", "seed": rng.randrange(1 << 30), "len": rng.randint(10, 40)})
    for _ in range(2 * n):
        k = rng.randint(0, 8)
        hi_t = rng.choice([6, 12, 40])
        occs, kinds = [], []
        for _ in range(k):
            lo = rng.randint(0, hi_t)
            hi = lo if rng.random() < 0.4 else rng.randint(lo, min(hi_t, lo + rng.choice([1, 2, 5, 20])))
            occs.append([lo, hi])
            kinds.append("int" if lo == hi and rng.random() < 0.6 else "iv")
        if rng.random() < 0.5:
            order = sorted(range(k), key=lambda j: occs[j])
            occs, kinds = [occs[j] for j in order], [kinds[j] for j in order]
        t0 = min([o[0] for o in occs], default=0) if rng.random() < 0.7 else rng.randint(0, hi_t)
        base = rng.choice([0, 0, 1000, 10 ** 6])
        cs.append({"src": "random", "kind": "pred", "t0": t0 + base, "occs": [[a + base, b + base] for a, b in occs],
                   "kinds": kinds})
    for _ in range(2 * n):
        q = rng.choice([1, 2, 4, 8, 16, 3, 5, 7, 10, 20, 100])
        tmax = rng.randint(1, 12)
        pp = rng.randint(1, 2 * q)
        num = rng.randint(1, 60)
        r = rng.random()
        if r < 0.7 and num * pp <= tmax * q:
            a = rng.randint(0, tmax * q - num * pp)                     # admissible request
        elif r < 0.85 and num * pp <= tmax * q:
            a = tmax * q - num * pp                                      # ends exactly at the last time stamp
        else:
            a = rng.randint(0, tmax * q + 2)
        cs.append({"src": "random", "kind": "res", "num": num, "p": pp, "q": q, "a": a, "tmax": tmax})
    return cs


def nontrivial(case):
    if case["src"] == "walk":
        return json.dumps(case["ops"], sort_keys=True)
    if case["kind"] == "res":
        return ("res", case["num"], case["p"], case["q"], case["a"], case["tmax"])
    if case["kind"] == "pred":
        return (case["t0"], json.dumps(case["occs"]), json.dumps(case["kinds"])) if len(case["occs"]) >= 2 else None
    return (case["kind"], case["seed"])


# ---- alpha / gamma helpers ---------------------------------------------------------------------------

def _exc(ex):
    n = type(ex).__name__
    return n if n in ("ValueError", "KeyError", "AssertionError") else "exc"


def _problem(i, tag, reg):
    from crv import gamma as G
    from commonroad.planning.goal import GoalRegion
    from commonroad.planning.planning_problem import PlanningProblem
    o = PlanningProblem(int(i), G.init_state(v=float(tag)), GoalRegion([G.goal_state()]))   # tag = content marker
    reg.setdefault((int(i), int(tag)), []).append(o)
    return o


def _tag(problem):
    return int(round(float(problem.initial_state.velocity)))


def _contents(pps):
    post, bad = [], 0
    for k, v in pps.planning_problem_dict.items():
        post.append([int(v.planning_problem_id), _tag(v)])
        if k != v.planning_problem_id:
            bad += 1
    return sorted(post), bad


def _state(t):
    from crv import gamma as G
    return G.ks_state(int(t), (float(t % 1000), 0.0), 0.0)


def _snap(tr):
    return [int(s.time_step) for s in tr.state_list], int(tr.initial_time_step)


def _idx(lst, r):
    if r is None:
        return 0
    for k, o in enumerate(lst):
        if o is r:
            return k + 1
    return -1


def _shape(ts):
    return "contig" if all(b == a + 1 for a, b in zip(ts, ts[1:])) else \
        ("gapped" if all(b > a for a, b in zip(ts, ts[1:])) else "unordered")


# ---- PlanningProblemSet --------------------------------------------------------------------------------

def _pps_op(pps, a, reg):
    """Perform one operation on the PlanningProblemSet (or construct it); returns (pps, event)."""
    import numpy as np
    from commonroad.planning.planning_problem import PlanningProblemSet
    op = a["op"]
    e = {"op": op}
    if op == "p_new":
        q = [[int(x[0]), int(x[1])] for x in a["q"]]
        e["q"] = q
        e["sig"] = "pps.new[%s]" % ("dup-ids" if len({x[0] for x in q}) < len(q) else ("empty" if not q else "distinct"))
        try:
            pps = PlanningProblemSet([_problem(i, t, reg) for i, t in q]) if q or a.get("list", 1) else PlanningProblemSet()
            e["res"] = "ok"
        except Exception as ex:
            pps, e["res"] = None, _exc(ex)
    elif op == "p_add":
        i, t = int(a["p"][0]), int(a["p"][1])
        e["p"] = [i, t]
        e["sig"] = "pps.add[%s]" % ("used-id" if i in pps.planning_problem_dict else "fresh-id")
        try:
            pps.add_planning_problem(_problem(i, t, reg))
            e["res"] = "ok"
        except Exception as ex:
            e["res"] = _exc(ex)
    elif op == "p_find":
        i = int(a["i"])
        e.update(i=i, tag=-1, same=0, sig="pps.find[%s]" % ("contained" if i in pps.planning_problem_dict else "missing"))
        try:
            r = pps.find_planning_problem_by_id(i)
            e["res"] = "ok"
            if r is not None and hasattr(r, "initial_state"):
                e["tag"] = _tag(r)
                e["same"] = 1 if any(r is o for o in reg.get((i, e["tag"]), ())) else 0
        except Exception as ex:
            e["res"] = _exc(ex)
    elif op == "p_setdict":
        e["sig"] = "pps.setdict"
        with warnings.catch_warnings(record=True) as w:
            warnings.simplefilter("always")
            try:
                pps.planning_problem_dict = {}
                e["res"] = "warned" if len(w) else "silent"
            except Exception:
                e["res"] = "raised"
    elif op == "p_translate":
        e["sig"] = "pps.translate"
        try:
            pps.translate_rotate(np.array([1.0, 2.0]), 0.5)
            e["res"] = "ok"
        except Exception as ex:
            e["res"] = _exc(ex)
    else:
        raise tlc.MachineryError("unknown op " + op)
    e["post"], e["bad"] = _contents(pps) if pps is not None else ([], 0)
    return pps, e


def _pps_random_op(rng, pps):
    keys = sorted(pps.planning_problem_dict) if pps is not None else []
    big = rng.choice([5, 50, 10 ** 6])

    def pid():
        return rng.choice(keys) if keys and rng.random() < 0.5 else rng.randint(1, big)
    if pps is None:
        n = rng.randint(0, 8)
        pool = [rng.randint(1, big) for _ in range(max(1, n))]
        dup = rng.random() < 0.4
        q = [[rng.choice(pool) if dup else pool[j] + j * (big + 1), rng.randint(0, 9)] for j in range(n)]
        return {"op": "p_new", "q": q, "list": rng.randint(0, 1)}
    op = rng.choice(["p_add"] * 5 + ["p_find"] * 4 + ["p_setdict", "p_translate"])
    if op == "p_add":
        return {"op": op, "p": [pid(), rng.randint(0, 9)]}
    if op == "p_find":
        return {"op": op, "i": pid()}
    return {"op": op}


def _run_pps(case):
    reg, ev, pps = {}, [], None
    rng = random.Random(case["seed"]) if case["src"] == "random" else None
    n = case["len"] if rng else len(case["ops"])
    for k in range(n):
        a = _pps_random_op(rng, pps) if rng else case["ops"][k]
        if pps is None and a["op"] != "p_new":
            continue                        # the constructor call was rejected (reported): nothing to call
        pps, e = _pps_op(pps, a, reg)
        ev.append(e)
    return ev


# ---- Trajectory ----------------------------------------------------------------------------------------

def _traj_op(tr, a):
    from crv import gamma as G
    from commonroad.prediction.prediction import TrajectoryPrediction
    from commonroad.scenario.trajectory import Trajectory
    op = a["op"]
    e = {"op": op}
    extra = []
    before = _snap(tr)[0] if tr is not None else []
    if op == "t_new":
        q = [int(t) for t in a["q"]]
        e.update(a0=int(a["a0"]), q=q)
        kind = "empty" if not q else ("first!=t0" if q[0] != e["a0"] else ("negative" if min(q) < 0 else _shape(q)))
        e["sig"] = "traj.new[%s]" % kind
        try:
            tr = Trajectory(e["a0"], [_state(t) for t in q])
            e["res"] = "ok"
        except Exception as ex:
            tr, e["res"] = None, _exc(ex)
    elif op == "t_append":
        t = int(a["t"])
        last = before[-1]
        e.update(t=t, sig="traj.append[%s]@%s" % ("next" if t == last + 1 else ("gap" if t > last else "not-larger"),
                                                  _shape(before)))
        try:
            tr.append_state(_state(t))
            e["res"] = "ok"
        except Exception as ex:
            e["res"] = _exc(ex)
    elif op == "t_at":
        e.update(t=int(a["t"]), idx=0, sig="traj.state_at@" + _shape(before))
        try:
            e["idx"] = _idx(tr.state_list, tr.state_at_time_step(e["t"]))
            e["res"] = "ok"
        except Exception as ex:
            e["res"] = _exc(ex)
    elif op == "t_final":
        e.update(idx=0, sig="traj.final@" + _shape(before))
        try:
            e["idx"] = _idx(tr.state_list, tr.final_state)
            e["res"] = "ok"
        except Exception as ex:
            e["res"] = _exc(ex)
    elif op == "t_range":
        e.update(a=int(a["a"]), b=int(a["b"]), idxs=[],
                 sig="traj.range[%s]@%s" % ("b<a" if a["b"] < a["a"] else "a<=b", _shape(before)))
        try:
            e["idxs"] = [_idx(tr.state_list, r) for r in tr.states_in_time_interval(e["a"], e["b"])]
            e["res"] = "ok"
        except Exception as ex:
            e["res"] = _exc(ex)
    elif op == "t_pred":
        e.update(occ=[], init=0, fin=0, sig="trajpred@" + _shape(before))
        try:
            tp = TrajectoryPrediction(tr, G.rect())
            occs = tp.occupancy_set
            e["occ"] = [[int(o.time_step), int(o.time_step)] for o in occs]
            e["init"], e["fin"] = int(tp.initial_time_step), int(tp.final_time_step)
            e["res"] = "ok"
            for t in range(min(before) - 1, max(before) + 2):        # time indexing of the derived occupancies
                x = {"op": "o_at", "t0": e["init"], "occs": e["occ"], "t": t, "idx": 0, "sig": "trajpred.occ_at"}
                try:
                    x["idx"] = _idx(occs, tp.occupancy_at_time_step(t))
                    x["res"] = "ok"
                except Exception as ex:
                    x["res"] = _exc(ex)
                extra.append(x)
        except Exception as ex:
            e["res"] = _exc(ex)
    else:
        raise tlc.MachineryError("unknown op " + op)
    e["ts"], e["it0"] = _snap(tr) if tr is not None else ([], 0)
    return tr, [e] + extra


def _traj_random_op(rng, tr):
    if tr is None:
        a0 = rng.choice([0, 1, 7, rng.randint(0, 10 ** 6)])
        n = rng.randint(1, 40)
        q = list(range(a0, a0 + n))
        r = rng.random()
        if r < 0.06:
            q = []
        elif r < 0.12:
            a0 += rng.choice([-1, 1])
        elif r < 0.2 and n > 2:
            j = rng.randrange(1, n)
            q = q[:j] + [t + rng.randint(1, 3) for t in q[j:]]                  # a gap
        elif r < 0.25 and n > 2:
            j = rng.randrange(1, n)
            q[j], q[j - 1] = q[j - 1], q[j]                                     # unordered
        elif r < 0.3:
            a0 = -rng.randint(1, 5)
            q = list(range(a0, a0 + n))                                         # negative time steps
        return {"op": "t_new", "a0": a0, "q": q}
    ts = _snap(tr)[0]
    lo, hi = ts[0], ts[-1]
    op = rng.choice(["t_at"] * 5 + ["t_range"] * 3 + ["t_append"] * 3 + ["t_final", "t_pred"])

    def near():
        return rng.choice([lo - 2, lo - 1, lo, lo + 1, hi - 1, hi, hi + 1, hi + 2, rng.randint(lo, hi),
                           rng.randint(lo - 50, hi + 50)])
    if op == "t_at":
        return {"op": op, "t": near()}
    if op == "t_range":
        a = near()
        return {"op": op, "a": a, "b": a + rng.choice([-2, -1, 0, 1, 2, 5, len(ts), len(ts) + 3])}
    if op == "t_append":
        if len(ts) > 70:
            return {"op": "t_final"}
        return {"op": op, "t": hi + rng.choice([1, 1, 1, 1, 2, 3, 0, -1, -len(ts)])}
    return {"op": op}


def _run_traj(case):
    ev, tr = [], None
    rng = random.Random(case["seed"]) if case["src"] == "random" else None
    n = case["len"] if rng else len(case["ops"])
    for k in range(n):
        a = _traj_random_op(rng, tr) if rng else case["ops"][k]
        if tr is None and a["op"] != "t_new":
            continue
        if tr is not None and a["op"] == "t_new":
            tr = None                        # a walk restarted: new object
        tr, es = _traj_op(tr, a)
        ev.extend(es)
    return ev


# ---- Prediction ----------------------------------------------------------------------------------------

def _geom(occs):
    if not occs:
        return "empty"
    g = "disjoint"
    for i, (a, b) in enumerate(occs):
        for (c, d) in occs[i + 1:]:
            lo, hi = max(a, c), min(b, d)
            if lo < hi or (lo == hi and (a == b or c == d)):
                return "overlapping"
            if lo == hi:
                g = "touching"
    return g


def _run_pred(case):
    from crv import gamma as G
    from commonroad.common.util import Interval
    from commonroad.prediction.prediction import Occupancy, SetBasedPrediction
    occs, t0 = [[int(a), int(b)] for a, b in case["occs"]], int(case["t0"])
    variants = [case["kinds"]] if case["kinds"] is not None else \
        [["int" if a == b else "iv" for a, b in occs], ["iv"] * len(occs)]
    if len(variants) == 2 and variants[0] == variants[1]:
        variants.pop()                       # no exact time step in the list: both encodings coincide
    ev = []
    shape = G.rect()
    for kinds in variants:
        ks = "+".join(sorted(set(kinds))) or "none"
        lst = [Occupancy(a if k == "int" else Interval(a, b), shape) for (a, b), k in zip(occs, kinds)]
        p = SetBasedPrediction(t0, lst)
        e = {"op": "o_init", "t0": t0, "val": 0, "sig": "pred.initial"}
        try:
            e["val"] = int(p.initial_time_step)
            e["res"] = "ok"
        except Exception as ex:
            e["res"] = _exc(ex)
        ev.append(e)
        e = {"op": "o_final", "occs": occs, "fin": [0, 0], "sig": "pred.final[%s;%s]" % (ks, _geom(occs))}
        try:
            f = p.final_time_step
            e["fin"] = [int(f.start), int(f.end)] if isinstance(f, Interval) else [int(f), int(f)]
            e["res"] = "ok"
        except Exception as ex:
            e["res"] = _exc(ex)
        ev.append(e)
        lo = min([a for a, _ in occs] + [t0]) - 2
        hi = max([b for _, b in occs] + [t0]) + 2
        for t in range(lo, hi + 1):
            e = {"op": "o_at", "t0": t0, "occs": occs, "t": t, "idx": 0, "sig": "pred.occ_at[%s]" % ks}
            try:
                e["idx"] = _idx(lst, p.occupancy_at_time_step(t))
                e["res"] = "ok"
            except Exception as ex:
                e["res"] = _exc(ex)
            ev.append(e)
    return ev


# ---- resampling ------------------------------------------------------------------------------------------

def _run_resample(case):
    """States j = 0..tmax with the signal v = x = j*j at the continuous time stamps j; request dT = p/q, t_0 = a/q, N = num.
    Logged: number of states, their time steps, q * value per state (integral on the grid if the interpolation is linear)."""
    import numpy as np
    from commonroad.scenario.state import KSState
    from commonroad.scenario.trajectory import Trajectory
    num, p, q, a, tmax = (int(case[k]) for k in ("num", "p", "q", "a", "tmax"))
    inside = a <= tmax * q and a + num * p <= tmax * q
    e = {"op": "r_resample", "num": num, "p": p, "q": q, "a": a, "tmax": tmax, "cnt": 0, "steps": [], "vq": [], "xq": [],
         "exact": 1,
         "sig": "resample[dT %s;%s]" % ("binary" if q & (q - 1) == 0 else "non-binary",
                                         "outside" if not inside else
                                         ("to-the-end" if a + num * p == tmax * q else "inside"))}
    states = [KSState(time_step=j, position=np.array([float(j * j), 0.0]), velocity=float(j * j), orientation=0.0,
                      steering_angle=0.0) for j in range(tmax + 1)]
    try:
        tr = Trajectory.resample_continuous_time_state_list(states, np.array([float(j) for j in range(tmax + 1)]),
                                                            p / q, num, a / q)
        e["res"] = "ok"
        sl = tr.state_list
        e["cnt"] = len(sl)
        e["steps"] = [int(x.time_step) for x in sl]
        for x in sl:
            v, xx = float(x.velocity) * q, float(x.position[0]) * q
            e["vq"].append(int(round(v)))
            e["xq"].append(int(round(xx)))
            if abs(v - round(v)) > 1e-6 or abs(xx - round(xx)) > 1e-6:
                e["exact"] = 0
    except Exception as ex:
        e["res"] = _exc(ex)
    return [e]


def execute(case):
    use_repo()
    if case["kind"] == "res":
        return {"ev": _run_resample(case)}
    if case["kind"] == "pps":
        return {"ev": _run_pps(case)}
    if case["kind"] == "traj":
        return {"ev": _run_traj(case)}
    return {"ev": _run_pred(case)}


def summarize(cases, traces):
    by = {}
    for tr in traces:
        for e in tr["ev"]:
            by[e["op"]] = by.get(e["op"], 0) + 1
    return {"events_by_op": by}


def corrupt(trace, rng):
    """Corrupt ONE logged field so that the contract must reject exactly that event: a foreign problem in the logged
    contents, a foreign time step in the logged state list, or an impossible occupancy index / final time step."""
    elig = [i for i, e in enumerate(trace["ev"])
            if e["op"] in ("p_add", "p_find", "p_setdict", "p_translate", "t_at", "t_final", "t_range", "t_pred", "o_at")
            or (e["op"] == "o_final" and e["occs"]) or (e["op"] == "r_resample" and e["res"] == "ok")]
    if not elig:
        return None
    e = trace["ev"][rng.choice(elig)]
    if e["op"].startswith("p_"):
        e["post"].append([999999, 0])
    elif e["op"].startswith("t_"):
        e["ts"] = e["ts"] + [1999999]
    elif e["op"] == "o_at":
        e["idx"] = len(e["occs"]) + 1
    elif e["op"] == "r_resample":
        e["cnt"] += 2
    else:
        e["fin"] = [e["fin"][0], e["fin"][1] + 1]
    return trace
