"""X02 (extended coverage) - polyline utilities and lanelet topology helpers (spec: PolylineTopo.tla).

commonroad/geometry/polyline_util.py and the small topology helpers of commonroad/scenario/lanelet.py, specified from
their docstrings on exact integer / rational inputs.  Not one of the 20 listed properties: clauses are "X02.<Clause>",
rejections are printed as BEYOND-LIST-FINDING lines and never change the exit code."""
import math
from fractions import Fraction

from crv.core import use_repo

PROPERTY = "X02"
MODULES = ["PolylineTopo", "MC_PolylineTopo", "Trace_PolylineTopo"]
TRACE = ("Trace_PolylineTopo", "Trace_PolylineTopo.cfg")
EXHAUSTIVE = True
RULE = ("TLC enumerates (a) every first-quadrant polyline of 1..3 segments over the steps (1,0),(2,0),(0,1),(0,2),(3,4),"
        "(4,3) - executed: compute_polyline_lengths / total length, orientations / initial orientation, "
        "is_point_on_polyline at every vertex, segment midpoint, the two extension points and near misses, "
        "is_polyline_self_intersection, resample_polyline_with_number for 2..6 points, resample_polyline_with_distance "
        "for 7 distances (1/2 .. 40), compare_polylines_equality (same / shifted by 1/4 / threshold 1/2 / other vertex "
        "count), curvature of straight polylines; (b) every pair of polylines of 1..2 segments over 8 steps in all "
        "directions (axis +-2, the 3-4-5 steps) from 3 origins - executed: compute_polyline_intersections in both "
        "argument orders (+ symmetry of the two answers), concatenate_polylines, additivity of the total length under "
        "concatenation (joint of length 0 and 5), self-intersection of the concatenation, equalize_polyline_length; "
        "(c) every duplicate-free predecessor/successor list over ids 1..3 x add/remove of every id x both lists, plus "
        "a walk of 6 operations; (d) every id subset of {1,2,3} in the lanelet / sign / light / intersection registry x "
        "find_*_by_id(0..5); every assignment of sign / light references {11,12} to two lanelets (by constructor and by "
        "add_traffic_sign/light) x get_*_referenced_lanelets; every assignment of three lanelets to two intersections x "
        "map_inc_lanelets_to_intersections; (e) two adjacent box lanelets (length 2 / 6, 2 or 4 vertices) x every "
        "lattice point of -3..9 x -3..7 x radius 1..3 - executed: lanelets_in_proximity; (f) four center lines (straight "
        "/ L-shaped) x every half-integer position of a 9x9 grid - executed: orientation_by_position.  Plus seeded random "
        "cases beyond TLC's bounds: polylines of up to 8 segments in all directions (3-4-5, 5-12-13, 8-15-17 steps, "
        "repeated vertices), near / crossing / collinear pairs, equalize with 3..8 vertices, link walks over 6 ids, "
        "networks with up to 6 elements per registry, lanelet fields of up to 6 boxes (horizontal and vertical, 2..7 "
        "vertices), staircase center lines.  distinct_nontrivial = distinct cases with a polyline of >= 3 vertices or a "
        "non-empty registry / list.")
ASSUMPTIONS = ["polylines have integer vertices and integer segment lengths (axis-parallel or Pythagorean steps), so every "
               "expected length / resampled point / intersection point is an exact rational computed by TLC from "
               "PolylineTopo.tla, never by the harness",
               "returned floats are logged as rationals [num, den, exact] (continued-fraction projection with den <= 2000; "
               "exact = within 1e-9), angles as the primitive integer direction <<dx, dy>> whose atan2 they equal within "
               "1e-9 (k*pi/2 -> unit vectors)",
               "where a docstring is silent (repeated vertices in self-intersection / orientation, closed polylines, "
               "points exactly on the proximity circle, positions beyond a lanelet's ends, order of returned lists, "
               "threshold between absolute and relative reading) both behaviours are accepted (EITHER)"]

MAXDEN = 2000


# ---------------------------------------------------------------------------------------------------------------
def model_check(ctx):
    ctx.mc("MC_PolylineTopo", "MC_PolylineTopo_t.cfg" if ctx.thorough else "MC_PolylineTopo.cfg", coverage=True)


# ---- random case generators ------------------------------------------------------------------------------------
_TRIPLES = {"axis": [(1, 0), (2, 0), (3, 0), (4, 0)], "p5": [(3, 4), (4, 3), (6, 8)], "p13": [(5, 12), (12, 5)],
            "p17": [(8, 15), (15, 8)]}


def _orient(rng, st):
    dx, dy = st
    if rng.random() < 0.5:
        dx, dy = dy, dx
    return dx * rng.choice((-1, 1)), dy * rng.choice((-1, 1))


def _rand_poly(rng, nseg, fams, origin=None, quadrant=False, repeat=0.0, bound=40):
    pool = [st for f in fams for st in _TRIPLES[f]]
    while True:
        o = origin if origin is not None else (rng.randint(-6, 6), rng.randint(-6, 6))
        pts = [[o[0], o[1]]]
        q = (rng.choice((-1, 1)), rng.choice((-1, 1)))
        for _ in range(nseg):
            if rng.random() < repeat:
                pts.append(list(pts[-1]))
                continue
            dx, dy = _orient(rng, rng.choice(pool))
            if quadrant:
                dx, dy = abs(dx) * q[0], abs(dy) * q[1]
            pts.append([pts[-1][0] + dx, pts[-1][1] + dy])
        if all(abs(x) <= bound and abs(y) <= bound for x, y in pts):
            return pts


def _fams(rng):
    return ["axis"] + rng.sample(["p5", "p13", "p17"], rng.randint(0, 2))


def _rand_poly_case(rng):
    p = _rand_poly(rng, rng.randint(1, 8), _fams(rng), repeat=rng.choice((0.0, 0.0, 0.15)))
    ds = [[rng.randint(1, 12), rng.choice((1, 2, 4))] for _ in range(3)] + [[rng.randint(30, 200), 1]]
    return {"kind": "poly", "p": p, "ns": sorted(rng.sample(range(2, 13), 3)), "ds": ds, "src": "random"}


def _rand_pair_case(rng):
    fams = _fams(rng)
    a = _rand_poly(rng, rng.randint(1, 4), fams, bound=30)
    mode = rng.random()
    if mode < 0.5:                                   # b starts near a vertex of a: crossings are likely
        v = rng.choice(a)
        b = _rand_poly(rng, rng.randint(1, 4), fams, origin=(v[0] + rng.randint(-3, 3), v[1] + rng.randint(-3, 3)),
                       bound=40)
    elif mode < 0.75:                                # b runs along a segment of a (collinear: touch / overlap / apart)
        i = rng.randrange(len(a) - 1)
        (x0, y0), (x1, y1) = a[i], a[i + 1]
        g = math.gcd(abs(x1 - x0), abs(y1 - y0))
        ux, uy = (x1 - x0) // g, (y1 - y0) // g
        s = rng.randint(-2, g + 1)
        t = s + rng.choice((-3, -2, -1, 1, 2, 3))
        b = [[x0 + s * ux, y0 + s * uy], [x0 + t * ux, y0 + t * uy]]
        if rng.random() < 0.5:
            b.append([b[-1][0] - uy, b[-1][1] + ux])
    else:
        b = _rand_poly(rng, rng.randint(1, 4), fams, bound=30)
    return {"kind": "pair", "a": a, "b": b, "src": "random"}


def _rand_equalize_case(rng):
    fams = ["axis"] + rng.sample(["p5"], rng.randint(0, 1))
    nl = rng.randint(3, 8)
    long_ = _rand_poly(rng, nl - 1, fams, quadrant=True, bound=30)
    short = _rand_poly(rng, rng.randint(1, nl - 2), fams, quadrant=True, bound=30)
    return {"kind": "equalize", "long": long_, "short": short, "src": "random"}


def _rand_link_case(rng):
    ids = list(range(1, 7))
    start = rng.sample(ids, rng.randint(0, 4))
    walk = [[rng.choice(("add_predecessor", "remove_predecessor", "add_successor", "remove_successor")),
             rng.choice(ids)] for _ in range(12)]
    return {"kind": "link", "start": start, "ids": [], "walk": walk, "src": "random"}


def _rand_net_case(rng):
    k = rng.random()
    if k < 0.34:
        ids = sorted(rng.sample(range(1, 30), rng.randint(0, 6)))
        qs = sorted(set(rng.sample(range(0, 32), 5) + ids[:2]))
        return {"kind": "find", "ids": ids, "qs": qs, "src": "random"}
    if k < 0.67:
        n = rng.randint(1, 5)
        refs = [[i + 1, sorted(rng.sample(range(11, 17), rng.randint(0, 3)))] for i in range(n)]
        return {"kind": "refs", "refs": refs, "qs": list(range(11, 18)), "src": "random"}
    lan = list(range(1, 8))
    rng.shuffle(lan)
    inters, pos = [], 0
    for x in range(rng.randint(1, 3)):
        incs = []
        for _ in range(rng.randint(0, 3)):
            m = rng.randint(0, 2)
            incs.append(sorted(lan[pos:pos + m]))
            pos += m
        inters.append([20 + x, incs])
    return {"kind": "inc", "inters": inters, "src": "random"}


def _box_lane(lid, x0, y0, length, nv, vertical, reverse):
    """axis-parallel box lanelet of width 2 with nv vertices; integer vertices, center line on integers."""
    xs = [x0 + (i * length) // (nv - 1) for i in range(nv)]
    if reverse:
        xs = xs[::-1]
    lo, mid, hi = y0, y0 + 1, y0 + 2
    if not reverse:
        l, c, r = [[x, hi] for x in xs], [[x, mid] for x in xs], [[x, lo] for x in xs]
    else:
        l, c, r = [[x, lo] for x in xs], [[x, mid] for x in xs], [[x, hi] for x in xs]
    if vertical:                                       # rotate by +90 degrees: (x, y) -> (-y, x)
        l, c, r = ([[-y, x] for x, y in q] for q in (l, c, r))
    return {"id": lid, "l": l, "c": c, "r": r}


def _rand_prox_case(rng):
    lanes = []
    for i in range(rng.randint(1, 6)):
        length = rng.choice((2, 4, 6, 12))
        nv = rng.choice([n for n in (2, 3, 4, 7) if length % (n - 1) == 0])
        lanes.append(_box_lane(i + 1, rng.randint(-8, 8), rng.randint(-8, 8), length, nv, rng.random() < 0.3,
                               rng.random() < 0.3))
    return {"kind": "prox", "lanes": lanes, "adj": 0, "p": [rng.randint(-12, 14), rng.randint(-12, 14)],
            "r": rng.randint(1, 6), "src": "random"}


def _rand_orient_case(rng):
    """staircase / straight / L-shaped axis-parallel center lines (doubled coordinates), position near the line."""
    n = rng.randint(1, 5)
    d = rng.choice(((1, 0), (-1, 0), (0, 1), (0, -1)))
    turn = rng.choice((1, -1))
    c = [[rng.randint(-6, 6) * 2, rng.randint(-6, 6) * 2]]
    straight = rng.random() < 0.4
    for i in range(n):
        ln = 2 * rng.randint(1, 4)
        c.append([c[-1][0] + d[0] * ln, c[-1][1] + d[1] * ln])
        if not straight and rng.random() < 0.6:
            d = (-d[1] * turn, d[0] * turn)
            turn = -turn
    i = rng.randrange(len(c) - 1)
    t = rng.random()
    p = [int(round(c[i][0] + t * (c[i + 1][0] - c[i][0]))) + rng.randint(-1, 1),
         int(round(c[i][1] + t * (c[i + 1][1] - c[i][1]))) + rng.randint(-1, 1)]
    return {"kind": "orient", "c": c, "p": p, "sc": 2, "src": "random"}


_PARTS = ("basic", "on", "resample_number", "resample_distance", "compare")


def cases(ctx):
    out = ctx.gen("MC_PolylineTopo", "GEN_PolylineTopo_t.cfg" if ctx.thorough else "GEN_PolylineTopo.cfg", timeout=3000)
    for c in out:
        c["src"] = "tlc"
    rng = ctx.rng
    k = 8 if ctx.thorough else 1
    out += [_rand_poly_case(rng) for _ in range(400 * k)]
    polys = [c for c in out if c["kind"] == "poly"]
    out = [c for c in out if c["kind"] != "poly"]
    for c in polys:                                    # one case (= one trace) per group of operations
        for part in _PARTS:
            out.append(dict(c, part=part))
    out += [_rand_pair_case(rng) for _ in range(1500 * k)]
    out += [_rand_equalize_case(rng) for _ in range(600 * k)]
    out += [_rand_link_case(rng) for _ in range(100 * k)]
    out += [_rand_net_case(rng) for _ in range(300 * k)]
    out += [_rand_prox_case(rng) for _ in range(1500 * k)]
    out += [_rand_orient_case(rng) for _ in range(1500 * k)]
    return out


def nontrivial(case):
    t = lambda p: tuple(tuple(v) for v in p)
    k = case["kind"]
    if k == "poly":
        return ("poly", t(case["p"])) if len(case["p"]) >= 3 else None      # the parts of one polyline count once
    if k == "pair":
        return ("pair", t(case["a"]), t(case["b"])) if len(case["a"]) + len(case["b"]) >= 5 else None
    if k == "equalize":
        return ("equalize", t(case["long"]), t(case["short"]))
    if k == "link":
        return ("link", tuple(case["start"]), str(case.get("walk"))) if case["start"] or case.get("walk") else None
    if k == "find":
        return ("find", tuple(case["ids"])) if case["ids"] else None
    if k == "refs":
        return ("refs", str(case["refs"])) if any(r[1] for r in case["refs"]) else None
    if k == "inc":
        return ("inc", str(case["inters"])) if any(any(i) for _, i in case["inters"]) else None
    if k == "prox":
        return ("prox", str(case["lanes"]), tuple(case["p"]), case["r"])
    return ("orient", t(case["c"]), tuple(case["p"]))


# ---- projections (floats -> exact tokens); they never judge ------------------------------------------------------
def _call(f):
    try:
        return "ok", f()
    except Exception as ex:
        return "exc:" + type(ex).__name__, None


def _rat(x, maxden=MAXDEN):
    """float -> [num, den, exact]: the simplest rational within reach and whether the float is within 1e-9 of it."""
    try:
        x = float(x)
    except Exception:
        return [0, 1, 0]
    if not math.isfinite(x) or abs(x) > 10000:
        return [0, 1, 0]
    fr = Fraction(x).limit_denominator(maxden)
    return [fr.numerator, fr.denominator, int(abs(x - fr.numerator / fr.denominator) <= 1e-9)]


def _ratpt(p):
    """point -> [xn, yn, den, exact] on a common denominator <= MAXDEN (else exact = 0)."""
    try:
        if len(p) != 2:
            return [0, 0, 1, 0]
        ax, ay = _rat(p[0]), _rat(p[1])
    except Exception:
        return [0, 0, 1, 0]
    den = ax[1] * ay[1] // math.gcd(ax[1], ay[1])
    if den > MAXDEN or not (ax[2] and ay[2]):
        return [int(round(float(p[0]))) if ax[2] or ay[2] else 0, int(round(float(p[1]))) if ax[2] or ay[2] else 0, 1, 0]
    return [ax[0] * (den // ax[1]), ay[0] * (den // ay[1]), den, 1]


def _ratpts(arr):
    return [_ratpt(p) for p in arr]


_DIRS = None


def _dir(angle):
    """angle -> the primitive integer direction [dx, dy] with atan2(dy, dx) = angle (mod 2 pi) within 1e-9, else [0, 0]."""
    global _DIRS
    if _DIRS is None:
        _DIRS = [(math.atan2(dy, dx), dx, dy) for dx in range(-20, 21) for dy in range(-20, 21)
                 if math.gcd(abs(dx), abs(dy)) == 1]
    try:
        a = float(angle)
    except Exception:
        return [0, 0]
    if not math.isfinite(a):
        return [0, 0]
    best = None
    for (b, dx, dy) in _DIRS:
        d = abs((a - b + math.pi) % (2 * math.pi) - math.pi)
        if best is None or d < best[0]:
            best = (d, dx, dy)
    return [best[1], best[2]] if best[0] <= 1e-9 else [0, 0]


def _ints(arr):
    """array of points -> (integer points, 1 if every coordinate is an integer within 1e-9 and every row has 2 entries)."""
    out, exact = [], 1
    try:
        for p in arr:
            if len(p) != 2:
                return [], 0
            x, y = float(p[0]), float(p[1])
            kx, ky = int(round(x)), int(round(y))
            exact &= int(abs(x - kx) <= 1e-9 and abs(y - ky) <= 1e-9)
            out.append([kx, ky])
    except Exception:
        return [], 0
    return out, exact


def _A(pts, sc=1):
    import numpy as np
    return np.array([[x / sc, y / sc] for x, y in pts], dtype=float)


def _int_len(p, q):
    d2 = (q[0] - p[0]) ** 2 + (q[1] - p[1]) ** 2
    h = math.isqrt(d2)
    return h if h * h == d2 else None


def _proper(p):
    return all(_int_len(a, b) for a, b in zip(p, p[1:]))


# ---- polyline events ----------------------------------------------------------------------------------------------
def _ev_lengths(p, tag, ev):
    from commonroad.geometry import polyline_util as pu
    st, r = _call(lambda: ([float(v) for v in pu.compute_polyline_lengths(_A(p))],
                           float(pu.compute_total_polyline_length(_A(p)))))
    ev.append({"op": "lengths", "sig": "lengths/" + tag, "st": st, "p": p,
               "res": [_rat(v) for v in r[0]] if st == "ok" else [], "total": _rat(r[1]) if st == "ok" else [0, 1, 0]})


def _ev_orientations(p, tag, ev):
    from commonroad.geometry import polyline_util as pu
    st, r = _call(lambda: ([float(v) for v in pu.compute_polyline_orientations(_A(p))],
                           float(pu.compute_polyline_initial_orientation(_A(p)))))
    ev.append({"op": "orientations", "sig": "orientations/" + tag, "st": st, "p": p,
               "res": [_dir(v) for v in r[0]] if st == "ok" else [], "init": _dir(r[1]) if st == "ok" else [0, 0]})


def _ev_on_polyline(p, tag, ev):
    """query points in DOUBLED coordinates: vertices, segment midpoints, the extension of the first / last segment,
    near misses; the polyline is logged in doubled coordinates too."""
    import numpy as np
    from commonroad.geometry import polyline_util as pu
    p2 = [[2 * x, 2 * y] for x, y in p]
    qs = []
    for i, v in enumerate(p2):
        qs.append(("vertex", v))
        qs.append(("near", [v[0] + 1, v[1]]))
        if i + 1 < len(p2):
            w = p2[i + 1]
            qs.append(("interior", [(v[0] + w[0]) // 2, (v[1] + w[1]) // 2]))
            qs.append(("near", [(v[0] + w[0]) // 2 + (1 if w[0] == v[0] else 0), (v[1] + w[1]) // 2 + (1 if w[0] != v[0] else 0)]))
    qs.append(("extension", [2 * p2[0][0] - p2[1][0], 2 * p2[0][1] - p2[1][1]]))
    qs.append(("extension", [2 * p2[-1][0] - p2[-2][0], 2 * p2[-1][1] - p2[-2][1]]))
    qs.append(("far", [p2[0][0] + 101, p2[0][1] - 57]))
    arr = _A(p)
    for shape, q in qs:
        st, r = _call(lambda: bool(pu.is_point_on_polyline(arr, np.array([q[0] / 2.0, q[1] / 2.0]))))
        ev.append({"op": "on_polyline", "sig": "on_polyline/" + tag + "/" + shape, "st": st, "p": p2, "pt": q,
                   "res": int(bool(r)) if st == "ok" else 0})


def _ev_self(p, tag, ev):
    from commonroad.geometry import polyline_util as pu
    st, r = _call(lambda: bool(pu.is_polyline_self_intersection(_A(p))))
    ev.append({"op": "self_intersection", "sig": "self_intersection/" + tag, "st": st, "p": p,
               "res": int(bool(r)) if st == "ok" else 0})


def _ev_resample(p, ns, ds, ev):
    from commonroad.geometry import polyline_util as pu
    total = sum(_int_len(a, b) for a, b in zip(p, p[1:]))
    for n in ns:
        st, r = _call(lambda: pu.resample_polyline_with_number(_A(p), n))
        ev.append({"op": "resample_number", "sig": "resample_number", "st": st, "p": p, "n": n,
                   "res": _ratpts(r) if st == "ok" else []})
    for dn, dd in ds:
        st, r = _call(lambda: pu.resample_polyline_with_distance(_A(p), dn / dd))
        shape = "longer" if dn > dd * total else ("divides" if (total * dd) % dn == 0 else "general")
        ev.append({"op": "resample_distance", "sig": "resample_distance/" + shape + ("/2-vertices" if len(p) == 2 else ""),
                   "st": st, "p": p, "dn": dn, "dd": dd, "res": _ratpts(r) if st == "ok" else []})


def _ev_compare(p, ev):
    """coordinates on the quarter grid (sc = 4): identical copy, one coordinate shifted by 1/4, thresholds 1/2, 1/8,
    another vertex count."""
    from commonroad.geometry import polyline_util as pu
    a = [[4 * x, 4 * y] for x, y in p]
    b = [list(v) for v in a]
    b[len(b) // 2][1] += 1
    trials = [("same", a, [list(v) for v in a], 0, 1), ("shifted", a, b, 0, 1), ("shifted/threshold-above", a, b, 1, 2),
              ("shifted/threshold-below", a, b, 1, 8), ("shifted/threshold-equal", a, b, 1, 4)]
    trials.append(("vertex-count", a, a + [[a[-1][0] + 4, a[-1][1]]], 0, 1))
    if len(a) >= 3:
        trials.append(("vertex-count", a, a[:-1], 0, 1))
    for tag, u, v, thn, thd in trials:
        if thn:
            st, r = _call(lambda: bool(pu.compare_polylines_equality(_A(u, 4), _A(v, 4), thn / thd)))
        else:
            st, r = _call(lambda: bool(pu.compare_polylines_equality(_A(u, 4), _A(v, 4))))
        ev.append({"op": "compare_eq", "sig": "compare_eq/" + tag, "st": st, "a": u, "b": v, "sc": 4, "thn": thn,
                   "thd": thd, "res": ("T" if r else "F") if st == "ok" else "exc"})


def _collinear(p):
    """straight: collinear and every step in the direction of the first one (case selection; the spec re-checks)."""
    (x0, y0), (x1, y1) = p[0], p[1]
    return all((x1 - x0) * (y - y0) - (y1 - y0) * (x - x0) == 0 for x, y in p) and \
        all((b[0] - a[0]) * (x1 - x0) + (b[1] - a[1]) * (y1 - y0) > 0 for a, b in zip(p, p[1:]))


def _ev_curvature(p, ev):
    from commonroad.geometry import polyline_util as pu
    st, r = _call(lambda: [float(v) for v in pu.compute_polyline_curvatures(_A(p))])
    ev.append({"op": "curvature_straight", "sig": "curvature_straight", "st": st, "p": p,
               "res": [int(math.isfinite(v) and abs(v) <= 1e-9) for v in r] if st == "ok" else []})


def _exec_poly(case):
    """one polyline; `part` selects the group of operations (one trace per group keeps unrelated verdicts apart)."""
    p = case["p"]
    ev = []
    proper = _proper(p)
    tag = "proper" if proper else "repeated-vertex"
    part = case.get("part", "basic")
    if part == "basic":
        _ev_lengths(p, tag, ev)
        _ev_orientations(p, tag, ev)
        _ev_self(p, tag, ev)
        if len(p) >= 3 and proper and _collinear(p):
            _ev_curvature(p, ev)
    elif part == "on":
        _ev_on_polyline(p, tag, ev)
    elif part == "resample_number" and proper:
        _ev_resample(p, case["ns"], [], ev)
    elif part == "resample_distance" and proper:
        _ev_resample(p, [], case["ds"], ev)
    elif part == "compare":
        _ev_compare(p, ev)
    return ev


def _ev_equalize(long_, short, ev):
    from commonroad.geometry import polyline_util as pu
    st, r = _call(lambda: pu.equalize_polyline_length(_A(long_), _A(short)))
    ev.append({"op": "equalize", "sig": "equalize/short-%s" % ("2" if len(short) == 2 else "n"), "st": st, "long": long_,
               "short": short, "res": _ratpts(r) if st == "ok" else []})


def _exec_pair(case):
    from commonroad.geometry import polyline_util as pu
    a, b = case["a"], case["b"]
    ev = []
    r1 = r2 = None
    for (u, v, tag) in ((a, b, "ab"), (b, a, "ba")):
        st, r = _call(lambda: pu.compute_polyline_intersections(_A(u), _A(v)))
        pts = _ratpts(r) if st == "ok" else []
        ev.append({"op": "intersections", "sig": "intersections", "st": st, "a": u, "b": v, "res": pts})
        if tag == "ab":
            r1 = pts if st == "ok" else None
        else:
            r2 = pts if st == "ok" else None
    if r1 is not None and r2 is not None and all(q[3] for q in r1 + r2):
        ev.append({"op": "intersections_sym", "sig": "intersections_sym", "st": "ok", "res": r1, "res2": r2})
    st, r = _call(lambda: pu.concatenate_polylines(_A(a), _A(b)))
    pts, ex = _ints(r) if st == "ok" else ([], 0)
    ev.append({"op": "concatenate", "sig": "concatenate", "st": st, "a": a, "b": b, "res": pts, "ex": ex})
    # additivity of the path length under concatenation: b moved to the end of a (joint 0) and 5 further (joint 3-4-5)
    for v, tag in (((0, 0), "joint-0"), ((3, 4), "joint-5")):
        sh = [a[-1][0] - b[0][0] + v[0], a[-1][1] - b[0][1] + v[1]]
        bs = [[x + sh[0], y + sh[1]] for x, y in b]
        st, r = _call(lambda: (float(pu.compute_total_polyline_length(_A(a))), float(pu.compute_total_polyline_length(_A(bs))),
                               float(pu.compute_total_polyline_length(pu.concatenate_polylines(_A(a), _A(bs))))))
        z = [0, 1, 0]
        ev.append({"op": "concat_total", "sig": "concat_total/" + tag, "st": st, "a": a, "b": bs,
                   "ta": _rat(r[0]) if st == "ok" else z, "tb": _rat(r[1]) if st == "ok" else z,
                   "tc": _rat(r[2]) if st == "ok" else z})
        if tag == "joint-5":
            _ev_self(a + bs, "concatenation", ev)
    if len(a) != len(b) and _proper(a) and _proper(b):
        lo, sh = (a, b) if len(a) > len(b) else (b, a)
        _ev_equalize(lo, sh, ev)
    return ev


def _exec_equalize(case):
    ev = []
    _ev_equalize(case["long"], case["short"], ev)
    return ev


# ---- lanelet / network events ---------------------------------------------------------------------------------------
def _exec_link(case):
    from crv import gamma
    ev = []
    start = list(case["start"])
    other = start[1:] + start[:1]                      # the other list: same ids, rotated

    def one(la, which, x, sig):
        pre_p, pre_s = [int(v) for v in la.predecessor], [int(v) for v in la.successor]
        st, _ = _call(lambda: getattr(la, which)(x))
        ev.append({"op": "link", "sig": sig, "st": st, "which": which, "x": x, "pre_p": pre_p, "pre_s": pre_s,
                   "post_p": [int(v) for v in la.predecessor], "post_s": [int(v) for v in la.successor]})
    for which in ("add_predecessor", "remove_predecessor", "add_successor", "remove_successor"):
        for x in case["ids"]:
            la = gamma.lanelet(9, predecessor=list(start), successor=list(other))
            one(la, which, x, "link/" + which)
            one(la, which, x, "link/" + which + "/again")          # the same call once more
    walk = case.get("walk")
    if walk is None:                                   # a fixed walk touching both lists
        ids = case["ids"]
        walk = [["add_successor", ids[0]], ["add_predecessor", ids[-1]], ["add_predecessor", ids[0]],
                ["remove_successor", ids[0]], ["remove_predecessor", ids[-1]], ["add_successor", ids[-1]]]
    la = gamma.lanelet(9, predecessor=list(start), successor=list(other))
    for which, x in walk:
        one(la, which, x, "link/walk")
    return ev


def _exec_find(case):
    from crv import gamma
    ids = case["ids"]
    lls = [gamma.lanelet(i, y0=3.0 * i) for i in ids]
    signs = [gamma.sign(i) for i in ids]
    lights = [gamma.light(i) for i in ids]
    inters = [gamma.intersection(i, [(1000 + i, [i])]) for i in ids]
    net = gamma.network(lls, signs, lights, inters)
    table = (("lanelet", net.find_lanelet_by_id, lls, "lanelet_id"), ("sign", net.find_traffic_sign_by_id, signs, "traffic_sign_id"),
             ("light", net.find_traffic_light_by_id, lights, "traffic_light_id"),
             ("intersection", net.find_intersection_by_id, inters, "intersection_id"))
    ev = []
    for q in case["qs"]:
        for kind, f, objs, attr in table:
            st, r = _call(lambda: f(q))
            res = [0, 0, 0]
            if st == "ok" and r is not None:
                rid = getattr(r, attr, -1)
                res = [1, int(rid) if isinstance(rid, int) else -1, int(any(r is o for o in objs))]
            ev.append({"op": "find", "sig": "find/" + kind, "st": st, "kind": kind, "ids": ids, "q": q, "res": res})
    return ev


def _exec_refs(case):
    from crv import gamma
    refs = case["refs"]
    ev = []
    for how in ("constructor", "add"):
        allids = sorted({i for _, r in refs for i in r})
        if how == "constructor":
            lls = [gamma.lanelet(lid, y0=3.0 * lid, traffic_signs=set(r), traffic_lights=set(r)) for lid, r in refs]
            net = gamma.network(lls, [gamma.sign(i) for i in allids], [gamma.light(i) for i in allids])
        else:
            lls = [gamma.lanelet(lid, y0=3.0 * lid) for lid, _ in refs]
            net = gamma.network(lls)
            for i in allids:
                net.add_traffic_sign(gamma.sign(i), {lid for lid, r in refs if i in r})
                net.add_traffic_light(gamma.light(i), {lid for lid, r in refs if i in r})
        for q in case["qs"]:
            for kind, f in (("sign", net.get_traffic_sign_referenced_lanelets), ("light", net.get_traffic_lights_referenced_lanelets)):
                st, r = _call(lambda: list(f(q)))
                res, same = [], 0
                if st == "ok":
                    try:
                        res = [int(x.lanelet_id) for x in r]
                        same = int(all(any(x is o for o in lls) for x in r))
                    except Exception as ex:
                        st = "exc:result:" + type(ex).__name__
                ev.append({"op": "refs", "sig": "refs/" + kind + "/" + how, "st": st, "kind": kind, "refs": refs, "q": q,
                           "res": res, "same": same})
    return ev


def _exec_inc(case):
    from crv import gamma
    inters = case["inters"]
    lids = sorted({i for _, incs in inters for inc in incs for i in inc} | {1})
    lls = [gamma.lanelet(i, y0=3.0 * i) for i in lids]
    xs = [gamma.intersection(xid, [(1000 + 10 * xid + k, inc) for k, inc in enumerate(incs)]) for xid, incs in inters]
    st, net = _call(lambda: gamma.network(lls, intersections=xs))
    if st != "ok":
        return []                                      # the network could not be built: nothing to ask
    st, r = _call(lambda: dict(net.map_inc_lanelets_to_intersections))
    res = []
    if st == "ok":
        try:
            res = sorted([int(k), int(v.intersection_id)] for k, v in r.items())
        except Exception as ex:
            st = "exc:result:" + type(ex).__name__
    return [{"op": "inc_map", "sig": "inc_map", "st": st, "inters": inters, "res": res}]


def _exec_prox(case):
    import numpy as np
    from crv import gamma
    lanes = case["lanes"]
    lls = []
    for ln in lanes:
        kw = {}
        if case.get("adj") and ln["id"] == 1:
            kw = {"adjacent_left": 2, "adjacent_left_same_direction": True}
        if case.get("adj") and ln["id"] == 2:
            kw = {"adjacent_right": 1, "adjacent_right_same_direction": True}
        lls.append(gamma.lanelet_from_arrays(ln["id"], _A(ln["l"]), _A(ln["c"]), _A(ln["r"]), **kw))
    net = gamma.network(lls)
    p, r = case["p"], case["r"]
    ev = []
    for rad, tag in ((float(r), "float"), (int(r), "int")):
        st, res = _call(lambda: [int(x.lanelet_id) for x in net.lanelets_in_proximity(np.array([float(p[0]), float(p[1])]), rad)])
        ev.append({"op": "proximity", "sig": "proximity/radius-" + tag, "st": st, "lanes": lanes, "p": p, "r": r,
                   "res": res if st == "ok" else []})
    return ev


def _exec_orient(case):
    import numpy as np
    from crv import gamma
    c, p, sc = case["c"], case["p"], case["sc"]
    cen = _A(c, sc)
    la = gamma.lanelet_from_arrays(1, cen + np.array([-0.25, 0.25]), cen, cen + np.array([0.25, -0.25]))
    st, r = _call(lambda: float(la.orientation_by_position(np.array([p[0] / sc, p[1] / sc]))))
    turns = sum(1 for i in range(1, len(c) - 1)
                if (c[i][0] - c[i - 1][0]) * (c[i + 1][1] - c[i][1]) != (c[i][1] - c[i - 1][1]) * (c[i + 1][0] - c[i][0]))
    return [{"op": "orientation_at", "sig": "orientation_at/" + ("straight" if turns == 0 else "bent"), "st": st, "c": c,
             "p": p, "res": _dir(r) if st == "ok" else [0, 0],
             "inr": int(-math.pi <= r <= math.pi) if st == "ok" else 0}]


def execute(case):
    use_repo()
    f = {"poly": _exec_poly, "pair": _exec_pair, "equalize": _exec_equalize, "link": _exec_link, "find": _exec_find,
         "refs": _exec_refs, "inc": _exec_inc, "prox": _exec_prox, "orient": _exec_orient}[case["kind"]]
    return {"ev": f(case)}


def summarize(cases, traces):
    """events per operation and per outcome status (evidence only)."""
    per_op, raised = {}, {}
    for tr in traces:
        for e in tr["ev"]:
            per_op[e["op"]] = per_op.get(e["op"], 0) + 1
            if e["st"] != "ok":
                raised[e["op"] + ":" + e["st"]] = raised.get(e["op"] + ":" + e["st"], 0) + 1
    kinds = {}
    for c in cases:
        k = c["kind"] + "/" + c.get("src", "?")
        kinds[k] = kinds.get(k, 0) + 1
    return {"events_per_operation": per_op, "raised": raised, "cases_per_kind": kinds}


def corrupt(trace, rng):
    """Corrupt ONE logged result field of one accepted event; the trace spec must reject the trace."""
    evs = [i for i, e in enumerate(trace["ev"]) if e["st"] == "ok" and e["op"] != "intersections_sym"]
    if not evs:
        return None
    e = trace["ev"][rng.choice(evs)]
    op = e["op"]
    if op == "lengths":
        e["total"][0] += e["total"][1]                 # total length one too long
    elif op == "orientations":
        e["res"][0] = [-e["res"][0][0], -e["res"][0][1]] if e["res"][0] != [0, 0] else [1, 1]
        e["init"] = e["res"][0]
        if e["p"][0] == e["p"][1]:
            return None
    elif op in ("on_polyline", "self_intersection"):
        if op == "self_intersection" and len(e["p"]) >= 4 and e["p"][0] == e["p"][-1]:
            return None
        if op == "self_intersection" and any(a == b for a, b in zip(e["p"], e["p"][1:])):
            return None
        e["res"] = 1 - e["res"]
    elif op == "intersections":
        e["res"].append([1000, 1000, 1, 1])            # a point far away from both polylines
        if _may_overlap(e["a"], e["b"]):
            return None
    elif op == "compare_eq":
        if "threshold-equal" in e["sig"] or "threshold-below" in e["sig"]:
            return None                                # may sit in the band the docstring does not decide
        e["res"] = "F" if e["res"] == "T" else "T"
    elif op == "concatenate":
        e["res"] = e["res"][:-1]
    elif op == "concat_total":
        e["tc"][0] += e["tc"][1]
    elif op in ("resample_number", "resample_distance", "equalize"):
        e["res"] = e["res"][:-1]
    elif op == "curvature_straight":
        e["res"][0] = 0
    elif op == "link":
        k = "post_p" if "predecessor" in e["which"] else "post_s"
        e[k] = e[k] + [e["x"]]                         # x once more: twice after add, still there after remove
    elif op == "find":
        e["res"] = [1 - e["res"][0], e["q"], 1] if e["res"][0] == 0 else [0, 0, 0]
    elif op == "refs":
        e["res"] = e["res"] + [77]
    elif op == "inc_map":
        e["res"] = e["res"] + [[77, 20]]
    elif op == "proximity":
        e["res"] = e["res"] + [777]
    elif op == "orientation_at":
        e["res"] = [7, 1]                              # not the direction of any axis-parallel segment
        if not _in_extent(e["c"], e["p"]):
            return None
    return trace


def _may_overlap(a, b):
    """collinear segment pair present (then extra reported points are not judged): case selection for `corrupt` only."""
    for (p, q) in zip(a, a[1:]):
        for (r, s) in zip(b, b[1:]):
            if (q[0] - p[0]) * (s[1] - r[1]) - (q[1] - p[1]) * (s[0] - r[0]) == 0:
                return True
    return False


def _in_extent(c, p):
    d0 = (p[0] - c[0][0]) * (c[1][0] - c[0][0]) + (p[1] - c[0][1]) * (c[1][1] - c[0][1])
    d1 = (p[0] - c[-1][0]) * (c[-2][0] - c[-1][0]) + (p[1] - c[-1][1]) * (c[-2][1] - c[-1][1])
    return d0 >= 0 and d1 >= 0
