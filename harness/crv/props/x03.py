"""X03 (extended coverage) - traffic rules, sign / intersection objects, ground truth predictor
(spec: TrafficRules.tla, MC_TrafficRules.tla).

TrafficSignInterpreter.speed_limit / required_speed over sets of lanelets for every SupportedTrafficSignCountry (signs
with several elements, missing / unparsable additional values, unknown lanelets, a network edited after the interpreter
was created), TrafficSignElement / TrafficSign (additional values, ids, first_occurrence, virtual, == / hash of lists
with repeated keys), IntersectionIncomingElement / Intersection (validated id setters, set-valued setters,
map_incoming_lanelets, LaneletNetwork.map_inc_lanelets_to_intersections after edits) and GroundTruthPredictor.predict
(cut at initial_time_step, obstacles without / with set-based prediction, nothing left beyond the horizon).
Not one of the 20 listed properties: clauses are "X03.<Clause>", rejections are BEYOND-LIST-FINDING lines."""
import json
import random
import warnings

from crv import graph, tlc
from crv.core import use_repo

PROPERTY = "X03"
MODULES = ["TrafficRules", "MC_TrafficRules", "Trace_TrafficRules"]
TRACE = ("Trace_TrafficRules", "Trace_TrafficRules.cfg")
EXHAUSTIVE = True
RULE = ("TLC explores the implementation-shaped model of seven domains exhaustively: (tsi) a network of 2 lanelets and "
        "2 sign slots under add_traffic_sign / remove_traffic_sign / traffic_sign_elements setter with speed_limit / "
        "required_speed asked on the interpreter created at the start and on a fresh one for 5 lanelet sets (one with "
        "an unknown lanelet); (tsv) every (country, sign 1 with <= 2 elements, sign 2 with <= 1 element, sign 2 also "
        "referenced by lanelet 1 or not) over the element universe family x {max, min, other} x values (incl. "
        "unparsable); (el) two TrafficSignElement objects under default / explicit construction, append to and "
        "assignment of additional_values; (sg) TrafficSign constructor defaults and setters; (eq) every pair of "
        "element / value / incoming lists up to length 2; (x) one Intersection with <= 2 incomings under every public "
        "setter, map_incoming_lanelets and the network's map_inc_lanelets_to_intersections; (p) scenarios of <= 2 "
        "dynamic obstacles (trajectory a..b in 1..4, set-based, none) under predict(0..5 / default) and occupancy "
        "reads. It checks that the contract accepts every step plus the laws of the contract operators and dumps the "
        "labelled state graphs; a transition cover of each graph (every edge once, walks from the absent object) is "
        "executed on real objects, every tsv / eq case on real objects, plus seeded random histories and cases beyond "
        "TLC's bounds (all 14 countries and enums, 5 lanelets, 6 signs of <= 4 elements, speeds on a 0.01 grid; "
        "intersections with 4 incomings, ids as int / numpy / float / bool; scenarios of 5 obstacles, horizons to 40). "
        "TLC validates every logged call against TrafficRules.tla. distinct_nontrivial = distinct walks / tsv cases "
        "with a sign element / eq pairs with a # b / random seeds.")
ASSUMPTIONS = ["contract read from the docstrings, default arguments and assert messages; speed_limit = minimum over the "
               "MAX_SPEED elements (of the country's own enum) of all signs referenced by any of the lanelets, "
               "required_speed = maximum over the MIN_SPEED elements, None if there is none",
               "silent, both accepted: elements of the default (Zamunda) enum in a country with an enum of its own; an "
               "element without / with an unparsable additional value (raise or skip it); a lanelet id the network "
               "does not have or a dangling sign reference (raise or ignore); None for first_occurrence / crossings / "
               "incoming_lanelets (stays None or becomes an empty set); True / 1.0 as ids; an Intersection without "
               "incomings; which incoming a lanelet listed by several incomings maps to; == of lists that are "
               "permutations / repetitions of the same set of parts; whether predict returns the same scenario; an "
               "obstacle with nothing to apply (no / set-based prediction, horizon ends before initial_time_step) is "
               "left unchanged or loses its prediction, or the call is rejected (ValueError / AssertionError) before "
               "anything was changed",
               "speeds are strings of integers (TLC cases) or of k/100 (random cases); a returned float is projected to "
               "the grid index within 1e-6; returned objects are identified by identity",
               "cases are independent: the list object of TrafficSignElement's default argument is emptied before each "
               "element history (the sharing WITHIN a history is what is checked)",
               "the expected answer is computed by TLC from TrafficRules.tla, never by the harness"]

QUERIES = [[1], [2], [1, 2], [], [1, 3]]
OTHER_XID, OTHER_LL = 9, [8, 9]


# ---- design-level half -------------------------------------------------------------------------------

def model_check(ctx):
    ctx.mc("MC_TrafficRules", "MC_TrafficRules_t.cfg" if ctx.thorough else "MC_TrafficRules.cfg", coverage=True,
           timeout=3000)
    for n, name in enumerate(["InvTsvRefines", "PropTsiRefines", "PropElRefines", "InvEqRefines", "PropXRefines",
                              "PropPRefines", "PropXRefines", "PropPRefines"], 1):
        ctx.mc_expect("MC_TrafficRules", "DEV_TrafficRules_%d.cfg" % n, name)


def cases(ctx):
    cfg = "GEN_TrafficRules_t.cfg" if ctx.thorough else "GEN_TrafficRules.cfg"
    r = tlc.run_tlc("MC_TrafficRules", cfg, "x03_gen", workers=1, timeout=3000)
    if not r["ok"]:
        raise tlc.MachineryError("GEN failed: " + r["out"][-2000:])
    g = graph.parse_edges(tlc.tla_unquote(p) for p in tlc.printed_tuples(r["out"], "EDGE"))
    cs = []
    n_edges = sum(len(v) for v in g.values())
    n_walks = {}
    for d in ("tsi", "el", "sg", "x", "p"):
        sub = {k: v for k, v in g.items() if json.loads(k)["d"] == d}
        inits = [k for k in sub if json.loads(k)["live"] == 0]
        if len(inits) != 1:
            raise tlc.MachineryError("initial state of domain %s not unique in the dumped graph: %r" % (d, inits))
        for w in graph.cover_walks(sub, inits[0], max_len=30, rng=ctx.rng):
            cs.append({"src": "walk", "kind": d, "scale": 1, "ops": w})
            n_walks[d] = n_walks.get(d, 0) + 1
    n_case = {}
    for p in tlc.printed_tuples(r["out"], "CASE"):
        c = json.loads(tlc.tla_unquote(p))
        if c["kind"] == "tsv":
            cs.append({"src": "tlc", "kind": "tsv", "c": c["c"], "lls": [1, 2], "scale": 1, "queries": QUERIES,
                       "signs": [[1, c["e1"], [1]], [2, c["e2"], [1, 2] if c["both"] else [2]]]})
        else:
            cs.append({"src": "tlc", "kind": "eq", "k": c["k"], "a": c["a"], "b": c["b"]})
        n_case[c["kind"]] = n_case.get(c["kind"], 0) + 1
    if len(n_walks) != 5 or len(n_case) != 2:
        raise tlc.MachineryError("GEN produced no cases for some domain: %r %r\n%s" % (n_walks, n_case, r["out"][-2000:]))
    ctx.mc_runs.append({"module": "MC_TrafficRules", "cfg": cfg, "distinct_states": r["distinct"],
                        "states_generated": r["generated"], "depth": r["depth"], "wall_s": r["wall_s"],
                        "verdict": "dumped %d labelled edges -> covering walks %s; cases %s" % (n_edges, n_walks, n_case)})
    ctx.extra["graph_edges"] = n_edges
    rng = ctx.rng
    n = 1500 if ctx.thorough else 150
    for _ in range(n):
        for kind in ("tsi", "el", "sg", "x", "p"):
            cs.append({"src": "random", "kind": kind, "seed": rng.randrange(1 << 30), "len": rng.randint(8, 40)})
    for _ in range(4 * n):
        cs.append(_random_tsv(rng))
    for _ in range(2 * n):
        cs.append(_random_eq(rng))
    return cs


def nontrivial(case):
    if case["src"] == "walk":
        return json.dumps(case["ops"], sort_keys=True)
    if case["kind"] == "tsv":
        return json.dumps([case["c"], case["signs"]]) if any(s[1] for s in case["signs"]) else None
    if case["kind"] == "eq":
        return json.dumps([case["k"], case["a"], case["b"]]) if case["a"] != case["b"] else None
    return (case["kind"], case["seed"])


# ---- alpha / gamma helpers ---------------------------------------------------------------------------

_FAMS = None
COUNTRIES = ["GERMANY", "USA", "CHINA", "SPAIN", "RUSSIA", "ARGENTINA", "BELGIUM", "FRANCE", "GREECE", "CROATIA", "ITALY",
             "PUERTO_RICO", "AUSTRALIA", "ZAMUNDA"]
FAMILIES = [c for c in COUNTRIES if c != "ZAMUNDA"]
_MEMBER = {"max": "MAX_SPEED", "min": "MIN_SPEED", "other": "UNKNOWN"}
_BAD = ["abc", "", "fast", "5o"]


def _fams():
    """family name <-> enum class (the family of an enum class is the country it is registered for; Zamunda = Germany)."""
    global _FAMS
    if _FAMS is None:
        use_repo()
        from commonroad.scenario.traffic_sign import SupportedTrafficSignCountry, TrafficSignIDCountries
        by_name = {c.name: TrafficSignIDCountries[c.value] for c in SupportedTrafficSignCountry if c.name != "ZAMUNDA"}
        _FAMS = (by_name, {v: k for k, v in by_name.items()})
    return _FAMS


def _exc(ex):
    return type(ex).__name__


def _valid_el(fam, kind):
    """Does the enum of this family have the member (TrafficRules!HasKind; only used to GENERATE inputs and labels - the
    library is never imported while cases are generated, a drifted enum shows as a crash of the driver)."""
    return {"max": fam != "AUSTRALIA", "min": fam == "GERMANY"}.get(kind, True)


def _val_str(v, scale, rng=None):
    if scale == 1:
        return str(int(v))
    return "%.2f" % (v / scale)


def _element(el, scale, k=0):
    from commonroad.scenario.traffic_sign import TrafficSignElement
    fam, kind, val = el[0], el[1], int(el[2])
    member = getattr(_fams()[0][fam], _MEMBER[kind])
    if kind == "other":
        return TrafficSignElement(member, [])
    vals = [] if val == 0 else ([_BAD[k % len(_BAD)]] if val < 0 else [_val_str(val, scale)])
    return TrafficSignElement(member, vals)


def _project_el(e, scale):
    member = e.traffic_sign_element_id
    fam = _fams()[1].get(type(member), "?")
    kind = {"MAX_SPEED": "max", "MIN_SPEED": "min"}.get(member.name, "other")
    if kind == "other":
        return [fam, kind, 1]
    vals = e.additional_values
    if not vals:
        return [fam, kind, 0]
    try:
        x = float(vals[0]) * scale
        k = int(round(x))
        return [fam, kind, k if abs(x - k) < 1e-6 and k >= 1 else -1]
    except (TypeError, ValueError):
        return [fam, kind, -1]


def _net_snapshot(net, scale):
    signs = sorted([int(s.traffic_sign_id), [_project_el(e, scale) for e in s.traffic_sign_elements]]
                   for s in net.traffic_signs)
    refs = sorted([int(la.lanelet_id), int(sid)] for la in net.lanelets for sid in la.traffic_signs)
    return {"lls": sorted(int(la.lanelet_id) for la in net.lanelets), "signs": signs, "refs": refs}


def _answer(f, scale):
    """(grid answer, exception name): k >= 1 speed, 0 None, -1 raised, -2 a value off the grid / not positive."""
    try:
        r = f()
    except Exception as ex:
        return -1, _exc(ex)
    if r is None:
        return 0, ""
    try:
        x = float(r) * scale
        k = int(round(x))
        return (k if abs(x - k) < 1e-6 and k >= 1 else -2), ""
    except (TypeError, ValueError, OverflowError):
        return -2, ""


def _cclass(c, kind):
    if c in ("GERMANY", "ZAMUNDA"):
        return "default-enum"
    return "own-enum" if _valid_el(c, kind) else "own-enum-without-member"


def _sign(sid, els, at, scale):
    import numpy as np
    from commonroad.scenario.traffic_sign import TrafficSign
    return TrafficSign(int(sid), [_element(e, scale, k) for k, e in enumerate(els)], set(int(x) for x in at),
                       np.array([0.0, float(sid)]))


def _network(lls):
    from crv import gamma as G
    from commonroad.scenario.lanelet import LaneletNetwork
    net = LaneletNetwork()
    for i in lls:
        net.add_lanelet(G.lanelet(int(i), y0=3.0 * int(i)))
    return net


def _query(op, interp, fresh, S, scale):
    name = "speed_limit" if op.endswith("speed") else "required_speed"
    fs = frozenset(int(x) for x in S)
    res, _ = _answer(lambda: getattr(interp, name)(fs), scale)
    fres, fexc = _answer(lambda: getattr(fresh, name)(fs), scale)
    return name, res, fres, fexc


# ---- tsi: network under edit + long-lived interpreter -----------------------------------------------------

def _run_tsi(case):
    from commonroad.scenario.traffic_sign import SupportedTrafficSignCountry
    from commonroad.scenario.traffic_sign_interpreter import TrafficSignInterpreter
    rng = random.Random(case["seed"]) if case["src"] == "random" else None
    scale = 100 if rng else case["scale"]
    ev, net, interp, country, edited = [], None, None, None, "unedited"
    n = case["len"] if rng else len(case["ops"])
    for k in range(n):
        step = _tsi_random_op(rng, net, country) if rng else case["ops"][k]
        op, a = step["op"], step["a"]
        if net is None and op != "i_new":
            continue
        e = {"op": op, "a": a, "res": "ok"}
        with warnings.catch_warnings():
            warnings.simplefilter("ignore")
            if op == "i_new":
                country = a["c"]
                net = _network(a["lls"])
                interp = TrafficSignInterpreter(SupportedTrafficSignCountry[country], net)
                edited = "unedited"
                e["sig"] = "tsi.new"
            elif op == "i_add":
                e["sig"] = "tsi.add_traffic_sign"
                try:
                    ret = net.add_traffic_sign(_sign(a["sid"], a["els"], a["at"], scale), set(a["at"]))
                    e["ret"] = 1 if ret is True else (0 if ret is False else -1)
                except Exception as ex:
                    e["res"], e["ret"] = _exc(ex), -1
                edited = "edited"
            elif op == "i_rm":
                e["sig"] = "tsi.remove_traffic_sign"
                try:
                    net.remove_traffic_sign(a["sid"])
                except Exception as ex:
                    e["res"] = _exc(ex)
                edited = "edited"
            elif op == "i_setels":
                e["sig"] = "tsi.set_elements"
                s = net.find_traffic_sign_by_id(a["sid"])
                if s is None:
                    continue
                try:
                    s.traffic_sign_elements = [_element(x, scale, j) for j, x in enumerate(a["els"])]
                except Exception as ex:
                    e["res"] = _exc(ex)
                edited = "edited"
            elif op in ("i_speed", "i_req"):
                fresh = TrafficSignInterpreter(SupportedTrafficSignCountry[country], net)
                name, res, fres, fexc = _query(op, interp, fresh, a["S"], scale)
                e.pop("res")
                e.update(res=res, fres=fres, exc=fexc,
                         sig="%s[%s;%s-network]" % (name, _cclass(country, "max" if op == "i_speed" else "min"), edited))
            else:
                raise tlc.MachineryError("unknown op " + op)
            e.update(_net_snapshot(net, scale))
        ev.append(e)
    return ev


def _random_els(rng, fams, maxn=4, vmax=5000):
    els = []
    for _ in range(rng.randint(0, maxn)):
        fam = rng.choice(fams)
        kind = rng.choice(["max", "max", "max", "min", "min", "other"])
        if not _valid_el(fam, kind):
            kind = "max" if _valid_el(fam, "max") else "other"
        r = rng.random()
        val = 1 if kind == "other" else (0 if r < 0.06 else (-1 if r < 0.12 else rng.randint(1, vmax)))
        els.append([fam, kind, val])
    return els


def _fam_pool(rng, country):
    own = "GERMANY" if country == "ZAMUNDA" else country
    pool = [own, own, own, "GERMANY", rng.choice(FAMILIES)]
    return pool


def _tsi_random_op(rng, net, country):
    if net is None:
        c = rng.choice(COUNTRIES)
        return {"op": "i_new", "a": {"c": c, "lls": list(range(1, rng.randint(2, 5) + 1))}}
    lls = sorted(la.lanelet_id for la in net.lanelets)
    sids = sorted(s.traffic_sign_id for s in net.traffic_signs)
    op = rng.choice(["i_add"] * 4 + ["i_rm"] + ["i_setels"] * 2 + ["i_speed"] * 5 + ["i_req"] * 3)
    if op == "i_add":
        sid = rng.choice(sids) if sids and rng.random() < 0.15 else rng.randint(100, 106)
        at = sorted(rng.sample(lls + [77], rng.randint(0, min(3, len(lls)))))
        return {"op": op, "a": {"sid": sid, "els": _random_els(rng, _fam_pool(rng, country)), "at": at}}
    if op == "i_rm":
        return {"op": op, "a": {"sid": rng.choice(sids) if sids and rng.random() < 0.8 else 199}}
    if op == "i_setels":
        if not sids:
            return {"op": "i_speed", "a": {"S": [lls[0]]}}
        return {"op": op, "a": {"sid": rng.choice(sids), "els": _random_els(rng, _fam_pool(rng, country))}}
    S = sorted(rng.sample(lls, rng.randint(0, len(lls))))
    if rng.random() < 0.05:
        S.append(99)
    return {"op": op, "a": {"S": S}}


# ---- tsv: value-like -----------------------------------------------------------------------------------------

def _random_tsv(rng):
    c = rng.choice(COUNTRIES)
    nl = rng.randint(1, 5)
    lls = list(range(1, nl + 1))
    signs = []
    for j in range(rng.randint(0, 6)):
        signs.append([20 + j, _random_els(rng, _fam_pool(rng, c)), sorted(rng.sample(lls, rng.randint(0, min(3, nl))))])
    qs = [sorted(rng.sample(lls, rng.randint(0, nl))) for _ in range(4)] + [lls, [lls[0], 99]]
    return {"src": "random", "kind": "tsv", "c": c, "lls": lls, "scale": 100, "queries": qs, "signs": signs,
            "seed": rng.randrange(1 << 30)}


def _run_tsv(case):
    from commonroad.scenario.traffic_sign import SupportedTrafficSignCountry
    from commonroad.scenario.traffic_sign_interpreter import TrafficSignInterpreter
    scale, c = case["scale"], case["c"]
    ev = []
    with warnings.catch_warnings():
        warnings.simplefilter("ignore")
        net = _network(case["lls"])
        for sid, els, at in case["signs"]:
            net.add_traffic_sign(_sign(sid, els, at, scale), set(at))
        snap = _net_snapshot(net, scale)
        interp = TrafficSignInterpreter(SupportedTrafficSignCountry[c], net)
        for S in case["queries"]:
            for op in ("v_speed", "v_req"):
                name, res, fres, fexc = _query(op, interp, interp, S, scale)
                e = {"op": op, "a": {"c": c, "S": list(S)}, "res": res, "fres": fres, "exc": fexc,
                     "sig": "%s[%s;fresh]" % (name, _cclass(c, "max" if op == "v_speed" else "min"))}
                e.update(snap)
                ev.append(e)
    return ev


# ---- el: two TrafficSignElement objects ------------------------------------------------------------------------

def _ints(vals):
    out = []
    for s in vals:
        try:
            out.append(int(s))
        except (TypeError, ValueError):
            out.append(-99)
    return out


def _run_el(case):
    from commonroad.scenario.traffic_sign import TrafficSignElement, TrafficSignIDZamunda
    rng = random.Random(case["seed"]) if case["src"] == "random" else None
    slots = {1: None, 2: None}
    ev = []
    dflt = (TrafficSignElement.__init__.__defaults__ or (None,))[-1]
    if isinstance(dflt, list):
        del dflt[:]          # case isolation only: what earlier cases of this worker process left in the default argument
    n = case["len"] if rng else len(case["ops"])
    for j in range(n):
        if rng:
            k = rng.randint(1, 2)
            if slots[k] is None or rng.random() < 0.2:
                how = rng.choice(["default", "default", "explicit"])
                step = {"op": "e_new", "a": {"k": k, "how": how,
                                             "vals": [] if how == "default" else [rng.randint(1, 900) for _ in range(rng.randint(0, 3))]}}
            elif rng.random() < 0.7:
                step = {"op": "e_append", "a": {"k": k, "v": rng.randint(1, 900)}}
            else:
                step = {"op": "e_setvals", "a": {"k": k, "vals": [rng.randint(1, 900) for _ in range(rng.randint(0, 3))]}}
        else:
            step = case["ops"][j]
        op, a = step["op"], step["a"]
        k = a["k"]
        if op != "e_new" and slots[k] is None:
            continue
        e = {"op": op, "a": a, "res": "ok"}
        try:
            if op == "e_new":
                member = TrafficSignIDZamunda.MAX_SPEED if k == 1 else TrafficSignIDZamunda.MIN_SPEED
                slots[k] = TrafficSignElement(member) if a["how"] == "default" else \
                    TrafficSignElement(member, [str(v) for v in a["vals"]])
                e["sig"] = "element.new[%s]" % a["how"]
            elif op == "e_append":
                slots[k].additional_values.append(str(a["v"]))
                e["sig"] = "element.additional_values.append"
            elif op == "e_setvals":
                slots[k].additional_values = [str(v) for v in a["vals"]]
                e["sig"] = "element.additional_values="
            else:
                raise tlc.MachineryError("unknown op " + op)
        except tlc.MachineryError:
            raise
        except Exception as ex:
            e["res"] = _exc(ex)
        e["post"] = [_ints(slots[i].additional_values) if slots[i] is not None else [] for i in (1, 2)]
        ev.append(e)
    return ev


# ---- sg: TrafficSign attributes ------------------------------------------------------------------------------------

def _sg_snapshot(s):
    fo = s.first_occurrence
    return {"pid": int(s.traffic_sign_id), "pfo": sorted(int(x) for x in fo) if fo is not None else [],
            "pfon": 1 if fo is None else 0, "pvirt": int(bool(s.virtual)), "pnel": len(s.traffic_sign_elements)}


def _run_sg(case):
    import numpy as np
    from commonroad.scenario.traffic_sign import TrafficSign
    rng = random.Random(case["seed"]) if case["src"] == "random" else None
    s, ev = None, []
    n = case["len"] if rng else len(case["ops"])
    for j in range(n):
        if rng:
            fo = sorted(rng.sample(range(1, 9), rng.randint(0, 3)))
            fon = 1 if rng.random() < 0.2 else 0
            if fon:
                fo = []
            if s is None:
                step = {"op": "g_new", "a": {"id": rng.randint(0, 10 ** 6), "fo": fo, "fon": fon, "virt": rng.choice([-1, 0, 1]),
                                             "nel": rng.randint(0, 3)}}
            else:
                r = rng.choice(["id", "virt", "fo", "g_move", "g_2d"])
                if r in ("g_move", "g_2d"):
                    step = {"op": r, "a": {"z": 0}}
                else:
                    step = {"op": "g_set", "a": {"field": r, "v": rng.randint(0, 10 ** 6) if r == "id" else rng.randint(0, 1),
                                                 "fo": fo if r == "fo" else [], "fon": fon if r == "fo" else 0}}
        else:
            step = case["ops"][j]
        op, a = step["op"], step["a"]
        if s is None and op != "g_new":
            continue
        e = {"op": op, "a": a, "res": "ok", "sig": "sign." + op[2:] + ("." + a["field"] if op == "g_set" else "")}
        try:
            if op == "g_new":
                els = [_element(["GERMANY", "max", 5 + i], 1) for i in range(a["nel"])]
                fo = None if a["fon"] else set(a["fo"])
                pos = np.array([1.0, 2.0])
                s = TrafficSign(a["id"], els, fo, pos) if a["virt"] == -1 else TrafficSign(a["id"], els, fo, pos, bool(a["virt"]))
            elif op == "g_set":
                if a["field"] == "id":
                    s.traffic_sign_id = a["v"]
                elif a["field"] == "virt":
                    s.virtual = bool(a["v"])
                else:
                    s.first_occurrence = None if a["fon"] else set(a["fo"])
            elif op == "g_move":
                s.translate_rotate(np.array([1.0, 2.0]), 0.5)
            elif op == "g_2d":
                s.convert_to_2d()
            else:
                raise tlc.MachineryError("unknown op " + op)
        except tlc.MachineryError:
            raise
        except Exception as ex:
            e["res"] = _exc(ex)
        if s is None:
            continue
        e.update(_sg_snapshot(s))
        ev.append(e)
    return ev


# ---- eq ------------------------------------------------------------------------------------------------------------------

def _random_eq(rng):
    k = rng.choice(["sign", "sign", "element", "inter", "inter"])

    def part():
        if k == "sign":
            fam = rng.choice(["GERMANY", "GERMANY", "USA", "FRANCE"])
            kind = rng.choice(["max", "min"]) if fam == "GERMANY" else "max"
            return [fam, kind, rng.randint(1, 3)]
        if k == "element":
            return rng.randint(1, 4)
        return [rng.randint(1, 3), sorted(rng.sample([1, 2, 3], rng.randint(0, 2)))]
    a = [part() for _ in range(rng.randint(0, 4))]
    r = rng.random()
    if r < 0.25:
        b = list(a)
    elif r < 0.5:
        b = list(a)
        rng.shuffle(b)
    elif r < 0.75 and a:
        b = a + [rng.choice(a)]
        if rng.random() < 0.5 and len(b) > 1:
            b.pop(rng.randrange(len(b)))
    else:
        b = [part() for _ in range(rng.randint(0, 4))]
    return {"src": "random", "kind": "eq", "k": k, "a": a, "b": b, "seed": rng.randrange(1 << 30)}


def _eq_object(k, parts):
    import numpy as np
    from commonroad.scenario.intersection import Intersection, IntersectionIncomingElement
    from commonroad.scenario.traffic_sign import TrafficSign, TrafficSignElement, TrafficSignIDZamunda
    if k == "sign":
        return TrafficSign(1, [_element(p, 1) for p in parts], {1}, np.array([0.0, 0.0]))
    if k == "element":
        return TrafficSignElement(TrafficSignIDZamunda.MAX_SPEED, [str(v) for v in parts])
    return Intersection(1, [IntersectionIncomingElement(int(p[0]), set(int(x) for x in p[1])) for p in parts], set())


def _b3(f):
    try:
        return 1 if f() else 0
    except Exception:
        return -1


def _shape(a, b):
    if a == b:
        return "same-list"
    sa, sb = {json.dumps(x) for x in a}, {json.dumps(x) for x in b}
    return "same-set" if sa == sb else "different-sets"


def _run_eq(case):
    k, a, b = case["k"], case["a"], case["b"]
    with warnings.catch_warnings():
        warnings.simplefilter("ignore")
        x, y = _eq_object(k, a), _eq_object(k, b)
        e = {"op": "q_eq", "a": {"kind": k, "a": a, "b": b}, "eqab": _b3(lambda: x == y), "eqba": _b3(lambda: y == x),
             "neab": _b3(lambda: x != y), "hsame": _b3(lambda: hash(x) == hash(y)),
             "sig": "eq[%s;%s]" % ({"sign": "TrafficSign.elements", "element": "TrafficSignElement.values",
                                    "inter": "Intersection.incomings"}[k], _shape(a, b))}
    return [e]


# ---- x: Intersection ---------------------------------------------------------------------------------------------------

def _idv(v, kind):
    import numpy as np
    return {"int": int, "np": np.int64, "float": float, "bool": bool}[kind](v)


def _as_int(v):
    try:
        return int(v)
    except (TypeError, ValueError):
        return -99


def _setlist(s):
    return sorted(_as_int(x) for x in s) if s is not None else []


def _x_snapshot(X):
    incs = []
    for inc in (X.incomings or []):
        incs.append({"iid": _as_int(inc.incoming_id), "ll": _setlist(inc.incoming_lanelets),
                     "lln": 1 if inc.incoming_lanelets is None else 0, "sr": _setlist(inc.successors_right),
                     "ss": _setlist(inc.successors_straight), "sl": _setlist(inc.successors_left),
                     "lo": 0 if inc.left_of is None else _as_int(inc.left_of)})
    return {"pid": _as_int(X.intersection_id), "pincs": incs, "pcr": _setlist(X.crossings),
            "pcrn": 1 if X.crossings is None else 0}


def _incoming(a):
    from commonroad.scenario.intersection import IntersectionIncomingElement
    if a["lln"]:
        return IntersectionIncomingElement(a["iid"])              # incoming_lanelets: Set[int] = None
    return IntersectionIncomingElement(a["iid"], set(a["ll"]))


def _x_random_op(rng, X):
    def lset():
        return sorted(rng.sample([1, 2, 3], rng.randint(0, 3)))

    def incarg():
        lln = 1 if rng.random() < 0.15 else 0
        return {"iid": rng.choice([1, 2, 3, 50, -4]) if rng.random() < 0.9 else 10 ** 6, "ll": [] if lln else lset(), "lln": lln}

    def idarg():
        kind = rng.choice(["int", "int", "int", "np", "float", "bool"])
        v = rng.choice([0, 1]) if kind == "bool" else rng.choice([-3, -1, 0, 1, 2, 5, 77, 10 ** 6])
        return v, kind
    if X is None:
        v, kind = idarg()
        crn = 1 if rng.random() < 0.3 else 0
        return {"op": "x_new", "a": {"id": v, "idk": kind, "incs": [incarg() for _ in range(rng.randint(0, 4))],
                                     "cr": [] if crn else sorted(rng.sample([4, 5, 6], rng.randint(0, 2))), "crn": crn}}
    n = len(X.incomings or [])
    ops = ["x_setid", "x_setcr", "x_setincs", "x_map", "x_map", "x_netmap", "x_netmap"]
    if n:
        ops += ["n_setid", "n_setll", "n_setll", "n_setsucc", "n_setsucc", "n_setlo"]
    op = rng.choice(ops)
    k = rng.randint(1, n) if n else 0
    if op == "x_setid":
        v, kind = idarg()
        return {"op": op, "a": {"v": v, "idk": kind}}
    if op == "x_setcr":
        crn = 1 if rng.random() < 0.3 else 0
        return {"op": op, "a": {"cr": [] if crn else sorted(rng.sample([4, 5, 6], rng.randint(0, 3))), "crn": crn}}
    if op == "x_setincs":
        return {"op": op, "a": {"incs": [dict(incarg(), iid=rng.randint(1, 4)) for _ in range(rng.randint(0, 3))]}}
    if op == "n_setid":
        v, kind = idarg()
        return {"op": op, "a": {"k": k, "v": v, "idk": kind}}
    if op == "n_setll":
        lln = 1 if rng.random() < 0.2 else 0
        return {"op": op, "a": {"k": k, "ll": [] if lln else lset(), "lln": lln}}
    if op == "n_setsucc":
        sn = 1 if rng.random() < 0.2 else 0
        return {"op": op, "a": {"k": k, "dir": rng.choice(["r", "s", "l"]), "s": [] if sn else sorted(rng.sample([3, 4, 5], rng.randint(0, 2))),
                                "sn": sn}}
    if op == "n_setlo":
        return {"op": op, "a": {"k": k, "v": rng.choice([0, 1, 2, 3])}}
    if op == "x_netmap":
        return {"op": op, "a": {"oid": OTHER_XID, "oll": OTHER_LL}}
    return {"op": op, "a": {"z": 0}}


def _run_x(case):
    from crv import gamma as G
    from commonroad.scenario.intersection import Intersection
    rng = random.Random(case["seed"]) if case["src"] == "random" else None
    X, net, ev = None, None, []
    n = case["len"] if rng else len(case["ops"])
    for j in range(n):
        step = _x_random_op(rng, X) if rng else case["ops"][j]
        op, a = step["op"], step["a"]
        if X is None and op != "x_new":
            continue
        if op.startswith("n_") and not (1 <= a["k"] <= len(X.incomings or [])):
            continue
        e = {"op": op, "a": a, "res": "ok"}
        with warnings.catch_warnings():
            warnings.simplefilter("ignore")
            try:
                if op == "x_new":
                    X = None
                    e["sig"] = "intersection.new[id:%s%s]" % (a["idk"], ";negative" if a["id"] < 0 or any(i["iid"] < 0 for i in a["incs"]) else "")
                    incs = [_incoming(i) for i in a["incs"]]
                    X = Intersection(_idv(a["id"], a["idk"]), incs, None if a["crn"] else set(a["cr"]))
                    net = G.network([G.lanelet(i, y0=3.0 * i) for i in (1, 2, 3, 8, 9)],
                                    intersections=[G.intersection(OTHER_XID, [(91, OTHER_LL)])])
                    if X.intersection_id != OTHER_XID:
                        net.add_intersection(X)
                elif op == "x_setid":
                    e["sig"] = "intersection.id=[%s%s]" % (a["idk"], ";negative" if a["v"] < 0 else "")
                    X.intersection_id = _idv(a["v"], a["idk"])
                elif op == "x_setcr":
                    e["sig"] = "intersection.crossings="
                    X.crossings = None if a["crn"] else set(a["cr"])
                elif op == "x_setincs":
                    e["sig"] = "intersection.incomings="
                    X.incomings = [_incoming(i) for i in a["incs"]]
                elif op == "n_setid":
                    e["sig"] = "incoming.id=[%s%s]" % (a["idk"], ";negative" if a["v"] < 0 else "")
                    X.incomings[a["k"] - 1].incoming_id = _idv(a["v"], a["idk"])
                elif op == "n_setll":
                    e["sig"] = "incoming.incoming_lanelets="
                    X.incomings[a["k"] - 1].incoming_lanelets = None if a["lln"] else set(a["ll"])
                elif op == "n_setsucc":
                    e["sig"] = "incoming.successors="
                    s = None if a.get("sn") else set(a["s"])
                    setattr(X.incomings[a["k"] - 1], {"r": "successors_right", "s": "successors_straight",
                                                      "l": "successors_left"}[a["dir"]], s)
                elif op == "n_setlo":
                    e["sig"] = "incoming.left_of="
                    X.incomings[a["k"] - 1].left_of = None if a["v"] == 0 else a["v"]
                elif op == "x_map":
                    none_ll = any(i.incoming_lanelets is None for i in X.incomings)
                    e.update(m=[], ident=1, sig="intersection.map_incoming_lanelets[%s]" %
                             ("incoming-without-lanelets" if none_ll else "sets"))
                    m = X.map_incoming_lanelets
                    e["m"] = sorted([int(lid), _as_int(v.incoming_id)] for lid, v in m.items())
                    e["ident"] = int(all(any(v is o for o in X.incomings) for v in m.values()))
                elif op == "x_netmap":
                    none_ll = any(i.incoming_lanelets is None for i in X.incomings)
                    e.update(m=[], sig="network.map_inc_lanelets_to_intersections[%s]" %
                             ("incoming-without-lanelets" if none_ll else "sets"))
                    if X.intersection_id == OTHER_XID or not any(x is X for x in net.intersections):
                        continue                              # X could not be put into the network (id clash): nothing to ask
                    m = net.map_inc_lanelets_to_intersections
                    e["m"] = sorted([int(lid), _as_int(v.intersection_id)] for lid, v in m.items())
                else:
                    raise tlc.MachineryError("unknown op " + op)
            except tlc.MachineryError:
                raise
            except Exception as ex:
                e["res"] = _exc(ex)
        if X is None:
            e.update({"pid": 0, "pincs": [], "pcr": [], "pcrn": 0})
        else:
            e.update(_x_snapshot(X))
        ev.append(e)
    return ev


# ---- p: GroundTruthPredictor ------------------------------------------------------------------------------------------

def _p_obstacle(o):
    import numpy as np
    from crv import gamma as G
    from commonroad.prediction.prediction import Occupancy, SetBasedPrediction, TrajectoryPrediction
    from commonroad.scenario.obstacle import DynamicObstacle, ObstacleType
    from commonroad.scenario.state import KSState
    from commonroad.scenario.trajectory import Trajectory
    ts = [int(t) for t in o["ts"]]
    shape = G.rect()
    if o["kind"] == "none":
        pred, t_init = None, 0
    elif o["kind"] == "set":
        pred, t_init = SetBasedPrediction(ts[0], [Occupancy(t, G.rect(center=(float(t), 0.0))) for t in ts]), ts[0] - 1
    else:
        sts = [KSState(position=np.array([float(t), 0.0]), orientation=0.0, time_step=t, velocity=1.0, steering_angle=0.0)
               for t in ts]
        pred, t_init = TrajectoryPrediction(Trajectory(ts[0], sts), shape), ts[0] - 1
    return DynamicObstacle(int(o["oid"]), ObstacleType.CAR, shape, G.init_state(t=max(t_init, 0)), pred)


def _p_snapshot(sc, touch=True):
    from commonroad.common.util import Interval
    from commonroad.prediction.prediction import SetBasedPrediction, TrajectoryPrediction

    def step(t):
        return int(t.start) if isinstance(t, Interval) else int(t)
    out = []
    for o in sc.dynamic_obstacles:
        p = o.prediction
        q = {"oid": int(o.obstacle_id), "kind": "none", "ts": [], "it0": -1, "fin": -1, "occ": []}
        try:
            if isinstance(p, TrajectoryPrediction):
                q["kind"] = "traj"
                q["ts"] = [int(s.time_step) for s in p.trajectory.state_list]
                q["occ"] = [step(x.time_step) for x in p.occupancy_set]
                q["it0"], q["fin"] = int(p.initial_time_step), step(p.final_time_step)
            elif isinstance(p, SetBasedPrediction):
                q["kind"] = "set"
                q["ts"] = [step(x.time_step) for x in p.occupancy_set]
                q["occ"] = list(q["ts"])
                q["it0"], q["fin"] = int(p.initial_time_step), step(p.final_time_step)
            elif p is not None:
                q["kind"] = "other"
        except Exception:
            q["it0"] = -2                       # the prediction object cannot report about itself
        out.append(q)
    return out


def _p_class(pre, t0):
    for q in pre:
        if q["kind"] == "none":
            return "obstacle-without-prediction"
        if q["kind"] == "set":
            return "set-based-prediction"
        if not any(t >= t0 for t in q["ts"]):
            return "nothing-left-beyond-horizon"
    return "all-trajectories-reach" if pre else "no-dynamic-obstacle"


def _p_random_op(rng, sc):
    if sc is None:
        obs = []
        for i in range(rng.randint(0, 5)):
            r = rng.random()
            if r < 0.1:
                obs.append({"oid": 100 + i, "kind": "none", "ts": []})
            elif r < 0.2:
                a = rng.randint(1, 10)
                obs.append({"oid": 100 + i, "kind": "set", "ts": list(range(a, a + rng.randint(1, 5)))})
            else:
                a = rng.choice([1, 1, 2, 5, rng.randint(1, 30)])
                obs.append({"oid": 100 + i, "kind": "traj", "ts": list(range(a, a + rng.randint(1, 40)))})
        return {"op": "p_new", "a": {"obs": obs}}
    r = rng.random()
    if r < 0.3:
        return {"op": "p_touch", "a": {"z": 0}}
    if r < 0.4:
        return {"op": "p_predict", "a": {"t0": 0, "dflt": 1}}
    return {"op": "p_predict", "a": {"t0": rng.choice([0, 1, 2, 3, 5, 8, 13, 21, 34, 60]), "dflt": 0}}


def _run_p(case):
    from crv import gamma as G
    from commonroad.prediction.ground_truth_predictor import GroundTruthPredictor
    from commonroad.scenario.scenario import Scenario
    rng = random.Random(case["seed"]) if case["src"] == "random" else None
    sc, ev = None, []
    n = case["len"] if rng else len(case["ops"])
    for j in range(n):
        step = _p_random_op(rng, sc) if rng else case["ops"][j]
        op, a = step["op"], step["a"]
        if sc is None and op != "p_new":
            continue
        e = {"op": op, "a": a, "res": "ok"}
        with warnings.catch_warnings():
            warnings.simplefilter("ignore")
            if op == "p_new":
                e["sig"] = "predictor.scenario"
                sc = G.scenario()
                for o in a["obs"]:
                    sc.add_objects(_p_obstacle(o))
            elif op == "p_touch":
                e["sig"] = "prediction.occupancy_set"
            elif op == "p_predict":
                pre = _p_snapshot(sc)
                t0 = 0 if a["dflt"] else a["t0"]
                e.update(same=1, exc="", sig="predict[%s]" % _p_class(pre, t0))
                try:
                    r = GroundTruthPredictor().predict(sc) if a["dflt"] else GroundTruthPredictor().predict(sc, a["t0"])
                    e["same"] = 1 if r is sc else (0 if isinstance(r, Scenario) else -1)
                    if isinstance(r, Scenario):
                        sc = r
                except Exception as ex:
                    e["exc"] = _exc(ex)
                    e["res"] = "reject" if isinstance(ex, (ValueError, AssertionError)) else "crash"
            else:
                raise tlc.MachineryError("unknown op " + op)
            e["post"] = _p_snapshot(sc)
        ev.append(e)
    return ev


_RUN = {"tsi": _run_tsi, "tsv": _run_tsv, "el": _run_el, "sg": _run_sg, "eq": _run_eq, "x": _run_x, "p": _run_p}


def execute(case):
    use_repo()
    return {"ev": _RUN[case["kind"]](case)}


def summarize(cases, traces):
    by = {}
    for tr in traces:
        for e in tr["ev"]:
            by[e["op"]] = by.get(e["op"], 0) + 1
    return {"events_by_op": by}


def corrupt(trace, rng):
    """Corrupt ONE logged field so that the contract must reject exactly that event: an answer no sign posts, a foreign
    reference in the logged network, a foreign value / id / time step in the logged contents, an asymmetric ==."""
    elig = [i for i, e in enumerate(trace["ev"])
            if e["op"][0] in "iveg" or e["op"] == "q_eq"
            or (e["op"][0] in "xn" and e["res"] == "ok")
            or (e["op"] in ("p_touch", "p_predict") and e["post"] and e["res"] == "ok")]
    if not elig:
        return None
    e = trace["ev"][rng.choice(elig)]
    op = e["op"]
    if op in ("i_speed", "i_req", "v_speed", "v_req"):
        e["res"] = e["fres"] = 7777777
    elif op.startswith("i_"):
        e["refs"] = e["refs"] + [[4242, 4242]]
    elif op.startswith("e_"):
        e["post"][e["a"]["k"] - 1] = e["post"][e["a"]["k"] - 1] + [424242]
    elif op.startswith("g_"):
        e["pid"] += 1000
    elif op == "q_eq":
        if e["eqab"] not in (0, 1):
            return None
        e["eqba"] = 1 - e["eqab"]
    elif op[0] in "xn":
        e["pid"] += 1000
    else:
        e["post"][0]["ts"] = e["post"][0]["ts"] + [1999999]
    return trace
