"""X04 (extended coverage) - draw-parameter objects and the MPRenderer object's life cycle
(spec: DrawParamTree.tla, MC_DrawParamTree.tla, Trace_DrawParamTree.tla; class table: RenderTree.tla).

Part 1 (commonroad/visualization/draw_params.py): histories over up to three live parameter trees - construction with
nested explicitly constructed groups (base parameters of the outermost group win), attribute / item assignment, item
read (KeyError for a non-parameter), save + load round trip, copy.deepcopy, ==, and after EVERY call the values of ALL
live trees (independence: a call on one tree never changes another).
Part 2 (commonroad/visualization/mp_renderer.py): one MPRenderer driven through draw / render / render_static /
render_dynamic / remove_dynamic / clear / plot_limits / focus_obstacle_id / draw_params.time_begin; after every call
the buffers, the visible artists attached to the axes, the plot limits and the plot centre are recorded; per draw call
which parameter source was used (colour token) and whether any parameter object was changed by the draw.
What one draw call produces for which time window is C19's business and is not repeated here."""
import ast
import copy
import dataclasses
import json
import math
import os
import random
from concurrent.futures import ThreadPoolExecutor

from crv import graph, tlc
from crv.core import use_repo

PROPERTY = "X04"
MODULES = ["RenderTree", "DrawParamTree", "MC_DrawParamTree", "Trace_DrawParamTree"]
TRACE = ("Trace_DrawParamTree", "Trace_DrawParamTree.cfg")
EXHAUSTIVE = True
RULE = ("TLC explores the implementation-shaped model exhaustively: parameter objects on a heap (excerpt MPDrawParams > "
        "InitialStateParams > StateParams > ArrowParams of the generated class table, two live trees, constructor menus "
        "with explicitly built nested groups, set via attribute / item at every node for time_begin, facecolor and an "
        "unknown name, item reads, load(save()) with and without validation, deepcopy, ==) and one renderer in three "
        "sub-domains (life: lanelet network / static obstacle / trajectories / sign x parameter source x render, clear "
        "(keep_static_artists), render_static, render_dynamic, remove_dynamic; sign: two signs x parameter sources; "
        "focus: plot_limits kinds x focus obstacle x renderer / per-call time_begin around the obstacle's initial time "
        "step x render / clear), checks that the contract accepts every step, the laws, and 12 deviation constants. The "
        "labelled state graph of the SHIPPED behaviour is dumped; a transition cover (every edge once; quick tier: a "
        "seeded sample of the renderer edges) is executed on real objects, plus seeded random histories beyond TLC's "
        "bounds (all 21 parameter classes incl. the full MPDrawParams tree, three names, every scalar field; renderers "
        "with several lanelet networks / obstacles / dynamic obstacles with t0 in 0..3 / signs, random half-integer "
        "limits and centres). TLC validates every logged call against DrawParamTree.tla with the generated class "
        "table. distinct_nontrivial = distinct walks + random seeds.")
ASSUMPTIONS = ["contract read from the comments / error messages of draw_params.py (`Make sure that the base parameters "
               "are propagated to all sub-parameters`, `<key> is not a parameter of <Class>`), the docstrings of "
               "MPRenderer (`optional parameters for plotting, overriding the parameters of the renderer`, `Render all "
               "objects from buffer`, `Clears the internal drawing buffer`, `Remove the dynamic objects from their current "
               "axis`, plot_limits / focus_obstacle of __init__) and doc/source/user/visualization.rst (per-object "
               "parameters override the renderer's); save/load and copies by their obvious meaning (identity round trip)",
               "silent (both accepted): attribute assignment of a name no field declares; what buffers hold after "
               "render_static / render_dynamic / remove_dynamic; remove_dynamic after a full render(); plot limits with "
               "autoscale / 'auto' / a focus obstacle that was not drawn or has no state at time_begin; invalid "
               "plot_limits values (raise or ignore); labels and centre of a dynamic obstacle outside its horizon",
               "a tree is observed as the set of (node, field, repr(value)) that differ from a default object of the same "
               "class (==-comparison); tokens are repr strings; `D` = the default of a base parameter",
               "artists are attributed to drawables by the region of the plane they lie in (40 m per id) and classified "
               "static / dynamic / sign by the kind of that drawable; only visible artists attached to the axes count",
               "plot limits and positions live on the half-integer grid and are logged doubled; a value off the grid "
               "(1e-9) is logged as inexact",
               "create_video is not exercised (needs ffmpeg)"]

_TMP = os.path.join(tlc.OUT, "x04", "tmp")
BASE = ("time_begin", "time_end", "antialiased")
COL = {"d": "#010000", "m": "#000100", "s": "#000001"}
CELL = 40.0


# =====================================================================================================================
# design-level half
# =====================================================================================================================

def model_check(ctx):
    ctx.mc("MC_DrawParamTree", "MC_DrawParamTree_t.cfg" if ctx.thorough else "MC_DrawParamTree.cfg", coverage=True, timeout=3000)
    devs = [(1, "PropIndependent"), (2, "PropCtorUniform"), (3, "PropTreeRefines"), (4, "PropRoundTrip"),
            (5, "PropTreeRefines"), (6, "PropRndRefines"), (7, "PropRndRefines"), (8, "PropRndRefines"),
            (9, "PropRndRefines"), (10, "PropRndRefines"), (11, "PropRndRefines"), (12, "PropFlush")]
    with ThreadPoolExecutor(max_workers=6) as ex:         # every deviation constant must make TLC report a violation
        list(ex.map(lambda d: ctx.mc_expect("MC_DrawParamTree", "DEV_DrawParamTree_%d.cfg" % d[0], d[1], workers=2), devs))


_TREE_KEYS = ("op", "name", "cls", "kw", "path", "field", "tok", "via", "key", "src", "dst", "validate", "a", "b")
_RND_KEYS = ("op", "limk", "lim", "focus", "b", "id", "kind", "psrc", "ptb", "uniq", "keep", "t0", "n", "x2", "y2")


def cases(ctx):
    cfg = "GEN_DrawParamTree.cfg" if ctx.thorough else "GEN_DrawParamTree_q.cfg"
    r = tlc.run_tlc("MC_DrawParamTree", cfg, "x04_gen", workers=1, timeout=3000)
    if not r["ok"]:
        raise tlc.MachineryError("GEN failed: " + r["out"][-2000:])
    g = graph.parse_edges(tlc.tla_unquote(p) for p in tlc.printed_tuples(r["out"], "EDGE"))
    cs, n_edges, taken = [], sum(len(v) for v in g.values()), {}
    for d in ("tree", "life", "sign", "focus"):
        sub = {k: v for k, v in g.items() if json.loads(k)["d"] == d}
        inits = [k for k in sub if (d == "tree" and all(t["cls"] == "" for t in json.loads(k)["t"].values()))
                 or (d != "tree" and json.loads(k)["r"]["live"] == 0)]
        if len(inits) != 1:
            raise tlc.MachineryError("initial state of domain %s not found in the dumped graph (%d)" % (d, len(inits)))
        limit = ({"focus": 40000}.get(d) if ctx.thorough else {"tree": 6000, "life": 2500, "sign": 1200, "focus": 3000}[d])
        ws = graph.cover_walks(sub, inits[0], max_len=30 if d == "tree" else 20, rng=ctx.rng, limit_edges=limit)
        taken[d] = sum(len(w) for w in ws)
        keys = _TREE_KEYS if d == "tree" else _RND_KEYS
        for w in ws:
            cs.append({"src": "walk", "kind": "tree" if d == "tree" else "rnd", "dom": d,
                       "ops": [{k: a[k] for k in keys if k in a} for a in w]})
    if not cs:
        raise tlc.MachineryError("GEN produced no walks:\n" + r["out"][-2000:])
    ctx.mc_runs.append({"module": "MC_DrawParamTree", "cfg": cfg, "distinct_states": r["distinct"],
                        "states_generated": r["generated"], "depth": r["depth"], "wall_s": r["wall_s"],
                        "verdict": "dumped %d labelled edges -> %d covering walks (%s steps)" %
                                   (n_edges, len(cs), ", ".join("%s %d" % kv for kv in sorted(taken.items())))})
    ctx.extra["graph_edges"] = n_edges
    rng = ctx.rng
    n = 1200 if ctx.thorough else 150
    for _ in range(n):
        cs.append({"src": "random", "kind": "tree", "seed": rng.randrange(1 << 30), "len": rng.randint(8, 30)})
    for _ in range(n):
        cs.append({"src": "random", "kind": "rnd", "seed": rng.randrange(1 << 30), "len": rng.randint(10, 40)})
    return cs


def nontrivial(case):
    if case["src"] == "walk":
        return json.dumps(case["ops"], sort_keys=True)
    return (case["kind"], case["seed"])


# =====================================================================================================================
# part 1: parameter trees
# =====================================================================================================================

def _dp():
    from commonroad.visualization import draw_params
    return draw_params


def _public_fields(obj):
    return [f for f in dataclasses.fields(obj) if not f.name.startswith("_")]


def _same(v, d):
    try:
        return bool(v == d) and (type(v) is type(d) or (isinstance(v, (int, float)) and isinstance(d, (int, float))
                                                         and not isinstance(v, bool) and not isinstance(d, bool)))
    except Exception:
        return False


_DEFAULTS = {}


def _default(cls):
    """A default object of cls (never handed to the library, only read)."""
    if cls not in _DEFAULTS:
        _DEFAULTS[cls] = cls()
    return _DEFAULTS[cls]


def _walk(obj, ref, path, out):
    """Compare obj with the default object ref of the same class, node by node (structure of ref)."""
    BaseParam = _dp().BaseParam
    for f in _public_fields(ref):
        d = getattr(ref, f.name)
        v = getattr(obj, f.name, "<missing>")
        if isinstance(d, BaseParam):
            if isinstance(v, BaseParam) and type(v) is type(d):
                _walk(v, d, path + [f.name], out)
            else:
                out.append([path, f.name, "<group:%s>" % type(v).__name__])
        else:
            if not _same(v, d):
                out.append([path, f.name, repr(v)])


def _val(obj):
    out = []
    _walk(obj, _default(type(obj)), [], out)
    return sorted(out)


def _post(trees):
    return [{"name": n, "cls": type(o).__name__, "val": _val(o)} for n, o in sorted(trees.items())]


def _node(obj, path):
    for k in path:
        obj = getattr(obj, k)
    return obj


def _value(tok, node, field):
    """gamma: token -> value (D = the default of that field at that kind of node)."""
    if tok == "D":
        return getattr(_default(type(node)), field)
    return ast.literal_eval(tok)


def _build(cls, kw, path, proto=None):
    """Construct cls with the arguments given for `path`; nested groups that have arguments are constructed explicitly
    (dataclasses.replace of the slot's default group = a constructor call with that group's values plus the arguments)
    and handed to the constructor of their parent."""
    BaseParam = _dp().BaseParam
    args = {f: ast.literal_eval(t) for p, f, t in kw if p == path}
    ref = proto if proto is not None else cls()              # fresh objects only: their nested groups are handed on
    for p, _, _ in kw:
        if len(p) > len(path) and p[:len(path)] == path:
            slot = p[len(path)]
            if slot not in args:
                kid = getattr(ref, slot)
                assert isinstance(kid, BaseParam)
                args[slot] = _build(type(kid), kw, path + [slot], kid)
    return cls(**args) if proto is None else dataclasses.replace(proto, **args)


def _exc(ex):
    n = type(ex).__name__
    return n if n in ("KeyError", "AttributeError", "ValueError", "TypeError", "AssertionError") else "exc:" + n


def _kwkind(kw):
    root = any(not p and f in BASE for p, f, _ in kw)
    nested = any(p and f in BASE for p, f, _ in kw)
    other = any(f not in BASE for _, f, _ in kw)
    return "+".join(x for x, b in (("root-base", root), ("nested-base", nested), ("other", other)) if b) or "defaults"


def _uniform(obj):
    """Do all nested groups hold the root's base parameters?"""
    BaseParam = _dp().BaseParam
    todo = [obj]
    while todo:
        o = todo.pop()
        if any(getattr(o, b) != getattr(obj, b) for b in BASE):
            return False
        todo.extend(v for v in vars(o).values() if isinstance(v, BaseParam))
    return True


def _tree_op(trees, a, ctr):
    dp = _dp()
    op = a["op"]
    e = {"op": op}
    if op == "d_new":
        kw = [[list(p), f, t] for p, f, t in a["kw"]]
        e.update(name=a["name"], cls=a["cls"], kw=kw, sig="new[%s]" % _kwkind(kw))
        try:
            trees[a["name"]] = _build(getattr(dp, a["cls"]), kw, [])
            e["res"] = "ok"
        except Exception as ex:
            e["res"] = _exc(ex)
    elif op == "d_set":
        path = list(a["path"])
        root = trees[a["name"]]
        node = _node(root, path)
        declared = a["field"] in {f.name for f in _public_fields(node)}
        below = declared or any(a["field"] in {f.name for f in _public_fields(x)} for x in _descendants(node))
        e.update(name=a["name"], path=path, field=a["field"], tok=a["tok"], via=a["via"],
                 sig="set[%s;%s;%s]" % (a["via"], "declared" if declared else ("declared-below" if below else "unknown"),
                                        "base" if a["field"] in BASE else "other"))
        try:
            v = _value(a["tok"], node, a["field"]) if declared else ast.literal_eval(a["tok"])
            if a["via"] == "attr":
                setattr(node, a["field"], v)
            else:
                node[a["field"]] = v
            e["res"] = "ok"
        except Exception as ex:
            e["res"] = _exc(ex)
    elif op == "d_get":
        path = list(a["path"])
        node = _node(trees[a["name"]], path)
        e.update(name=a["name"], path=path, key=a["key"], kind="", tok="", same=0)
        try:
            r = node[a["key"]]
            e["res"] = "ok"
            if isinstance(r, dp.BaseParam):
                e["kind"], e["same"] = "group", 1 if r is getattr(node, a["key"], None) else 0
            else:
                e["kind"] = "scalar"
                d = getattr(_node(_default(type(trees[a["name"]])), path), a["key"], "<missing>")
                e["tok"] = "D" if _same(r, d) else repr(r)
        except Exception as ex:
            e["res"] = _exc(ex)
        e["sig"] = "get[%s]" % (e["kind"] or "unknown")
    elif op == "d_round":
        src = trees[a["src"]]
        e.update(src=a["src"], dst=a["dst"], validate=int(a["validate"]),
                 sig="load[%s;%s;%s]" % ("validate" if a["validate"] else "novalidate",
                                         "root" if type(src).__name__ == "MPDrawParams" else "non-root",
                                         "uniform" if _uniform(src) else "nested-base-differs"))
        os.makedirs(_TMP, exist_ok=True)
        ctr[0] += 1
        fn = os.path.join(_TMP, "p%d_%d.yaml" % (os.getpid(), ctr[0]))
        try:
            src.save(fn)
            trees[a["dst"]] = type(src).load(fn, validate_types=bool(a["validate"]))
            e["res"] = "ok"
        except Exception as ex:
            e["res"] = _exc(ex)
        finally:
            if os.path.exists(fn):
                os.remove(fn)
    elif op == "d_copy":
        e.update(src=a["src"], dst=a["dst"], sig="deepcopy")
        try:
            trees[a["dst"]] = copy.deepcopy(trees[a["src"]])
            e["res"] = "ok"
        except Exception as ex:
            e["res"] = _exc(ex)
    elif op == "d_eq":
        e.update(a=a["a"], b=a["b"], sig="eq")
        try:
            e["res"] = "T" if trees[a["a"]] == trees[a["b"]] else "F"
        except Exception as ex:
            e["res"] = _exc(ex)
    else:
        raise tlc.MachineryError("unknown op " + op)
    e["post"] = _post(trees)
    return e


def _descendants(node):
    BaseParam = _dp().BaseParam
    out, todo = [], [node]
    while todo:
        o = todo.pop()
        for v in vars(o).values():
            if isinstance(v, BaseParam):
                out.append(v)
                todo.append(v)
    return out


def _applicable(trees, a):
    op = a["op"]
    if op == "d_new":
        return True
    if op in ("d_set", "d_get"):
        if a["name"] not in trees:
            return False
        try:
            _node(trees[a["name"]], a["path"])
            return True
        except AttributeError:
            return False
    if op in ("d_round", "d_copy"):
        return a["src"] in trees
    return a["a"] in trees and a["b"] in trees


def _nodes_of(obj):
    BaseParam = _dp().BaseParam
    out, todo = [], [([], obj)]
    while todo:
        p, o = todo.pop()
        out.append((p, o))
        for f in _public_fields(o):
            v = getattr(o, f.name)
            if isinstance(v, BaseParam):
                todo.append((p + [f.name], v))
    return sorted(out, key=lambda x: x[0])


def _bool_tok(dnode, fname):
    """The negation of the default of a bool field, if the node and every nested group declaring it share that default."""
    ds = [getattr(x, fname) for x in [dnode] + _descendants(dnode) if fname in {g.name for g in _public_fields(x)}]
    return repr(not ds[0]) if ds and all(isinstance(x, bool) and x == ds[0] for x in ds) else None


def _rand_tok(rng, dnode, f):
    """A value token of the declared type of field f that differs from the default dnode holds (dnode = the node of the
    default object of the root class); None if the field is not one we set."""
    BaseParam = _dp().BaseParam
    if f.name == "antialiased":
        return rng.choice(["False", "D"])
    if f.name in ("time_begin", "time_end"):
        return rng.choice(["D", str(rng.randint(1, 190)), str(rng.randint(1, 9))])
    t = f.type
    if t is bool:
        return _bool_tok(dnode, f.name)
    if t is int:
        return str(1000 + rng.randint(1, 50))
    if t is float:
        return repr(1000.25 + rng.randint(1, 50))
    if t is str or str(t) == "typing.Optional[str]":
        if f.name == "speed_limit_unit":
            return None
        return repr("#%02x%02x%02x" % (rng.randint(1, 250), rng.randint(1, 250), rng.randint(1, 250))) \
            if "color" in f.name or f.name == "basecolor" else repr("x%d" % rng.randint(1, 99))
    return None


def _tree_random_op(rng, trees):
    dp = _dp()
    classes = sorted(c.__name__ for c in vars(dp).values()
                     if isinstance(c, type) and issubclass(c, dp.BaseParam) and c is not dp.BaseParam)
    names = ["A", "B", "C"]
    live = sorted(trees)
    r = rng.random()
    if not live or r < 0.15:
        cls = rng.choice(["MPDrawParams"] * 3 + classes)
        ref = _default(getattr(dp, cls))
        nodes = _nodes_of(ref)
        kw = []
        for _ in range(rng.choice([0, 1, 1, 2, 3])):
            p, o = rng.choice(nodes[:1] * 3 + nodes)
            f = rng.choice(_public_fields(o))
            if isinstance(getattr(o, f.name), dp.BaseParam):
                continue
            t = _rand_tok(rng, o, f)             # o is a node of the default object of cls
            if t is not None and t != "D" and not any(x[0] == p and x[1] == f.name for x in kw):
                kw.append([p, f.name, t])
        return {"op": "d_new", "name": rng.choice(names), "cls": cls, "kw": kw}
    name = rng.choice(live)
    nodes = _nodes_of(trees[name])
    dflt = _default(type(trees[name]))
    if r < 0.6:
        p, o = rng.choice(nodes[:1] * 4 + nodes)
        o = _node(dflt, p)                        # the corresponding node of the default object (same classes)
        fs = [f for f in _public_fields(o) if not isinstance(getattr(o, f.name), dp.BaseParam)]
        q = rng.random()
        if q < 0.12:
            return {"op": "d_set", "name": name, "path": p, "field": "no_such_parameter", "tok": "'x1'",
                    "via": rng.choice(["attr", "item"])}
        if q < 0.24:        # a name declared somewhere below but not here
            here = {f.name for f in fs}
            cand = sorted({f.name for x in _descendants(o) for f in _public_fields(x)
                           if not isinstance(getattr(x, f.name), dp.BaseParam)} - here)
            if cand:
                fname = rng.choice(cand)
                owner = next(x for x in _descendants(o) if fname in {f.name for f in _public_fields(x)})
                fo = next(f for f in _public_fields(owner) if f.name == fname)
                t = _bool_tok(o, fname) if fo.type is bool else _rand_tok(rng, owner, fo)
                if t is not None and t != "D":
                    return {"op": "d_set", "name": name, "path": p, "field": fname, "tok": t, "via": rng.choice(["attr", "item"])}
        f = rng.choice(fs[:3] * 3 + fs)
        t = _rand_tok(rng, o, f)
        if t is None:
            f, t = fs[0], str(rng.randint(1, 190))
        return {"op": "d_set", "name": name, "path": p, "field": f.name, "tok": t, "via": rng.choice(["attr", "item"])}
    if r < 0.72:
        p, o = rng.choice(nodes)
        keys = [f.name for f in _public_fields(o)] + ["no_such_parameter", "__initialized"]
        return {"op": "d_get", "name": name, "path": p, "key": rng.choice(keys)}
    if r < 0.84:
        return {"op": "d_round", "src": name, "dst": rng.choice([n for n in names if n != name]), "validate": rng.randint(0, 1)}
    if r < 0.92:
        return {"op": "d_copy", "src": name, "dst": rng.choice([n for n in names if n != name])}
    return {"op": "d_eq", "a": name, "b": rng.choice(live)}


def _run_tree(case):
    trees, ev, ctr = {}, [], [0]
    rng = random.Random(case["seed"]) if case["src"] == "random" else None
    n = case["len"] if rng else len(case["ops"])
    for k in range(n):
        a = _tree_random_op(rng, trees) if rng else case["ops"][k]
        if not _applicable(trees, a):
            continue                        # an earlier call was rejected (reported there): nothing to call it on
        ev.append(_tree_op(trees, a, ctr))
    return ev


# =====================================================================================================================
# part 2: the renderer
# =====================================================================================================================

class _World:
    """gamma for the drawables of a renderer case: id -> real object, built on demand; kind by id."""

    def __init__(self):
        self.kind, self.obj, self.desc = {}, {}, {}

    def get(self, a):
        from crv import gamma as G
        i, kind = int(a["id"]), a["kind"]
        if i in self.obj:
            return self.obj[i]
        x0 = CELL * i
        if kind == "lane":
            o = G.network([G.lanelet(1000 + i, x0 + 1.0, 1.0, 10.0, 2.0)])
        elif kind == "obs":
            o = G.static_obstacle(i, x0 + 5.0, 5.0, shape=G.rect(2.0, 1.0))
        elif kind == "dyn":
            x, y, t0, n = a["x2"] / 2.0, a["y2"] / 2.0, int(a["t0"]), int(a["n"])
            o = G.dynamic_obstacle(i, x, y, shape=G.rect(0.8, 0.4), poses=[(x + k, y, 0.0) for k in range(1, n + 1)], t0=t0)
            self.desc[i] = (int(a["x2"]), int(a["y2"]), t0, n)
        elif kind == "sign":
            o = G.sign(i, (x0 + 8.0, 9.0))
        elif kind == "trajs":
            o = [G.trajectory_prediction(G.rect(), [(x0 + 12.0 + k, 12.0 + j, 0.0) for k in range(3)], 0).trajectory
                 for j in range(2)]
        else:
            raise tlc.MachineryError("unknown kind " + kind)
        self.kind[i], self.obj[i] = kind, o
        return o


def _centres(art):
    """Representative data-space points of an artist (one per path / patch)."""
    import matplotlib.collections as mc
    import matplotlib.lines as ml
    import matplotlib.patches as mpa
    import matplotlib.text as mt
    from matplotlib.offsetbox import AnnotationBbox
    import numpy as np
    pts = []

    def bbox(v):
        v = np.asarray(v, dtype=float)
        if v.size:
            pts.append((float((v[:, 0].min() + v[:, 0].max()) / 2), float((v[:, 1].min() + v[:, 1].max()) / 2)))
    if isinstance(art, mc.EllipseCollection):
        for o in np.asarray(art.get_offsets(), dtype=float).reshape(-1, 2):
            pts.append((float(o[0]), float(o[1])))
    elif isinstance(art, mc.Collection):
        for p in art.get_paths():
            bbox(p.vertices)
    elif isinstance(art, (mpa.Ellipse, mpa.Circle)):
        pts.append((float(art.center[0]), float(art.center[1])))
    elif isinstance(art, mpa.Polygon):
        bbox(art.get_xy())
    elif isinstance(art, mpa.Patch):
        bbox(art.get_path().vertices)
    elif isinstance(art, ml.Line2D):
        bbox(art.get_xydata())
    elif isinstance(art, AnnotationBbox):
        pts.append((float(art.xy[0]), float(art.xy[1])))
    elif isinstance(art, mt.Text):
        pts.append((float(art.get_position()[0]), float(art.get_position()[1])))
    return pts


def _ids(arts):
    out = set()
    for a in arts:
        for x, y in _centres(a):
            i = int(math.floor(x / CELL))
            out.add(i if i >= 1 and -5.0 <= y <= 35.0 else 0)
    return out


def _labelled(ab):
    from matplotlib.offsetbox import TextArea
    todo, n = [ab.offsetbox], 0
    while todo:
        b = todo.pop()
        if isinstance(b, TextArea):
            n += 1
        todo.extend(getattr(b, "_children", None) or [])
    return 1 if n else 0


def _g2(v):
    r = round(2.0 * float(v))
    return int(r), abs(2.0 * float(v) - r) <= 1e-9


def _observe(rnd, ax, world):
    import matplotlib.text as mt
    from matplotlib.axis import Axis
    from matplotlib.offsetbox import AnnotationBbox
    from matplotlib.spines import Spine
    kinds = world.kind
    bufd = {i for i in _ids(list(rnd.obstacle_patches) + list(rnd.dynamic_collections) + list(rnd.dynamic_artists))
            if kinds.get(i) != "sign"}            # rendered sign boxes are kept in dynamic_artists: they belong to the sign list
    o = {"bs": sorted(_ids(list(rnd.static_collections) + list(rnd.static_artists))),
         "bd": sorted(bufd),
         "bl": sorted({int(t.get_text()) if t.get_text().isdigit() else 0 for t in rnd.dynamic_labels}),
         "bg": sorted({int(s.traffic_sign_id) for s in rnd.traffic_signs})}
    xs, xd, xl, xg = set(), set(), set(), {}
    skip = {id(ax.patch), id(ax.title), id(getattr(ax, "_left_title", None)), id(getattr(ax, "_right_title", None))}
    for ch in ax.get_children():
        if id(ch) in skip or isinstance(ch, (Spine, Axis)) or not ch.get_visible():
            continue
        if isinstance(ch, AnnotationBbox):
            for i in _ids([ch]):
                xg[i] = max(xg.get(i, 0), _labelled(ch))
        elif isinstance(ch, mt.Text):
            if ch.get_text() == "":
                continue
            xl.add(int(ch.get_text()) if ch.get_text().isdigit() else 0)
        else:
            for i in _ids([ch]):
                (xs if kinds.get(i) == "lane" else xd).add(i)
    o.update(xs=sorted(xs), xd=sorted(xd), xl=sorted(xl), xg=[[i, f] for i, f in sorted(xg.items())])
    lim = rnd.plot_limits
    if lim is None:
        o["lk"], o["lv"] = "none", []
    elif isinstance(lim, str):
        o["lk"], o["lv"] = lim, []
    else:
        try:
            g = [_g2(v) for v in lim]
            o["lk"], o["lv"] = ("list", [a for a, _ in g]) if len(g) == 4 and all(b for _, b in g) else ("offgrid", [])
        except Exception:
            o["lk"], o["lv"] = "other", []
    pc = rnd.plot_center
    if pc is None:
        o["pc"] = []
    else:
        g = [_g2(pc[0]), _g2(pc[1])]
        o["pc"] = [g[0][0], g[1][0]] if all(b for _, b in g) else [999999, 999999]
    return o


def _default_params():
    dp = _dp()
    p = dp.MPDrawParams()
    _style(p, "d", 0, False)
    return p


def _style(mp, tok, tb, label):
    """One MPDrawParams styled as parameter source `tok`."""
    mp.time_begin = tb
    mp.static_obstacle.occupancy.shape.facecolor = COL[tok]
    mp.dynamic_obstacle.vehicle_shape.occupancy.shape.facecolor = COL[tok]
    mp.dynamic_obstacle.show_label = True
    mp.dynamic_obstacle.trajectory.draw_trajectory = False
    mp.traffic_sign.show_label = label
    mp.lanelet_network.traffic_sign.show_label = label


def _params_for(kind, psrc, ptb, uniq):
    """The per-call parameter object (None for psrc none)."""
    dp = _dp()
    if psrc == "none":
        return None
    mp = dp.MPDrawParams()
    _style(mp, "m" if psrc == "mp" else "s", ptb, True)
    mp.trajectory.unique_colors = bool(uniq)
    if psrc == "mp":
        return mp
    return {"lane": mp.lanelet_network, "obs": mp.static_obstacle, "dyn": mp.dynamic_obstacle, "sign": mp.traffic_sign,
            "trajs": mp.trajectory}[kind]


def _diff(before, obj):
    after = _val(obj)
    b = {(tuple(p), f): t for p, f, t in before}
    a = {(tuple(p), f): t for p, f, t in after}
    return [[list(k[0]), k[1]] for k in sorted(set(a) | set(b)) if a.get(k) != b.get(k)]


def _colour_of(patches):
    import matplotlib.colors as mcol
    import matplotlib.patches as mpa
    rev = {v: k for k, v in COL.items()}
    for pa in patches:
        if isinstance(pa, mpa.Polygon):
            return rev.get(mcol.to_hex(pa.get_facecolor()), "?")
    return ""


class _Rnd:
    def __init__(self):
        self.rnd = self.fig = self.ax = None
        self.world = _World()
        self.frame_signs = set()                    # parameter sources of the signs drawn since the last flush (for sig only)

    def close(self):
        import matplotlib.pyplot as plt
        if self.fig is not None:
            plt.close(self.fig)
        self.rnd = self.fig = self.ax = None

    def op(self, a):
        import matplotlib.pyplot as plt
        from commonroad.visualization.mp_renderer import MPRenderer
        op = a["op"]
        e = {"op": op, "res": "ok"}
        if op == "r_new":
            self.close()
            self.fig, self.ax = plt.subplots(figsize=(2, 2), dpi=40)
            limk, focus = a["limk"], int(a["focus"])
            lim2 = [int(v) for v in a.get("lim", [])]
            e.update(limk=limk, lim=lim2 if limk in ("list", "nested") else [], focus=focus,
                     sig="rnd.new[%s;%s]" % (limk, "focus" if focus else "no-focus"))
            fo = self.world.get(dict(a["fdesc"], id=focus, kind="dyn")) if focus else None
            try:
                self.rnd = MPRenderer(draw_params=_default_params(), ax=self.ax, plot_limits=_limval(limk, lim2),
                                      focus_obstacle=fo)
            except Exception as ex:
                e["res"] = _exc(ex)
                self.rnd = None
                e.update(bs=[], bd=[], bl=[], bg=[], xs=[], xd=[], xl=[], xg=[], lk="none", lv=[], pc=[])
                return e
        elif op == "r_settb":
            e.update(b=int(a["b"]), sig="settb")
            self.rnd.draw_params.time_begin = int(a["b"])
        elif op == "r_setfocus":
            e.update(id=int(a["id"]), sig="setfocus[%s]" % ("on" if a["id"] else "off"))
            self.rnd.focus_obstacle_id = int(a["id"]) if a["id"] else None
        elif op == "r_setlim":
            limk = a["limk"]
            lim2 = [int(v) for v in a.get("lim", [])]
            e.update(limk=limk, lim=lim2 if limk in ("list", "nested") else [],
                     sig="setlim[%s;%s]" % (limk, "focus" if self.rnd.focus_obstacle_id is not None else "no-focus"))
            try:
                self.rnd.plot_limits = _limval(limk, lim2)
            except Exception as ex:
                e["res"] = _exc(ex)
        elif op == "r_draw":
            kind, psrc = a["kind"], a["psrc"]
            obj = self.world.get(a)
            ptb, uniq = int(a.get("ptb", 0)), int(a.get("uniq", 0))
            e.update(kind=kind, id=int(a["id"]), psrc=psrc, ptb=ptb, uniq=uniq, col="", t0=0, n=0, x2=0, y2=0, dirty=[], pdirty=[])
            if kind == "dyn":
                x2, y2, t0, n = self.world.desc[int(a["id"])]
                e.update(t0=t0, n=n, x2=x2, y2=y2)
                b = self.rnd.draw_params.time_begin if psrc == "none" else ptb
                where = "before" if b < t0 else ("at-initial-step-0" if b == t0 == 0 else
                                                 ("at-initial-step>0" if b == t0 else ("inside" if b <= t0 + n else "after")))
                e["sig"] = "draw[dyn;%s;%s;%s]" % (psrc, where, "focused" if self.rnd.focus_obstacle_id == int(a["id"]) else "unfocused")
            elif kind == "trajs":
                e["sig"] = "draw[trajs;%s;%s]" % (psrc, "unique_colors" if uniq else "one-colour")
            else:
                e["sig"] = "draw[%s;%s]" % (kind, psrc)
                if kind == "sign":
                    self.frame_signs.add(psrc)
            if kind == "trajs" and psrc == "none":
                self.rnd.draw_params.trajectory.unique_colors = bool(uniq)
            params = _params_for(kind, psrc, ptb, uniq)
            holder = params                                   # the object handed to the call (an MPDrawParams or the typed group)
            before_def = _val(self.rnd.draw_params)
            before_par = _val(holder) if holder is not None else []
            n_pat = len(self.rnd.obstacle_patches)
            try:
                if kind == "trajs":
                    self.rnd.draw_trajectories(obj, params)
                else:
                    obj.draw(self.rnd, params)
            except Exception as ex:
                e["res"] = _exc(ex)
            e["dirty"] = _diff(before_def, self.rnd.draw_params)
            e["pdirty"] = _diff(before_par, holder) if holder is not None else []
            if kind in ("obs", "dyn"):
                e["col"] = _colour_of(self.rnd.obstacle_patches[n_pat:])
        elif op in ("r_render", "r_clear"):
            keep = int(a["keep"])
            e.update(keep=keep)
            try:
                if op == "r_render":
                    pc = self.rnd.plot_center
                    lims = _limsig(self.rnd)
                    half = pc is not None and lims != "limits-auto" and \
                        (lims == "limits-half" or not all(float(v) == int(v) for v in pc))
                    fs = self.frame_signs
                    e["sig"] = "render[%s;signs:%s]" % (
                        "no-centre" if pc is None else ("centre+limits-int" if not half else "centre-or-limits-half"),
                        "-" if not fs else ("with-mp" if "mp" in fs else ("default+typed" if len(fs) > 1 else
                                                                         ("default-only" if "none" in fs else "typed-only"))))
                    self.frame_signs = set()
                    self.rnd.render(keep_static_artists=bool(keep))
                    g = [_g2(v) for v in list(self.ax.get_xlim()) + list(self.ax.get_ylim())]
                    e["lim2"], e["exact"] = [x for x, _ in g], 1 if all(b for _, b in g) else 0
                else:
                    e["sig"] = "clear[%s]" % ("keep" if keep else "all")
                    self.frame_signs = set()
                    self.rnd.clear(keep_static_artists=bool(keep))
            except Exception as ex:
                e["res"] = _exc(ex)
            if op == "r_render" and "lim2" not in e:
                e["lim2"], e["exact"] = [0, 0, 0, 0], 0
        elif op in ("r_render_static", "r_render_dynamic", "r_remove_dynamic"):
            e["sig"] = op[2:]
            try:
                getattr(self.rnd, op[2:])()
            except Exception as ex:
                e["res"] = _exc(ex)
        else:
            raise tlc.MachineryError("unknown op " + op)
        e.update(_observe(self.rnd, self.ax, self.world))
        return e


def _limsig(rnd):
    v = rnd._plot_limits if hasattr(rnd, "_plot_limits") else rnd.plot_limits
    if v is None:
        return "limits-none"
    if isinstance(v, str):
        return "limits-auto"
    return "limits-int" if all(float(x) == int(x) for x in v) else "limits-half"


def _limval(limk, lim2):
    if limk == "none":
        return None
    if limk == "auto":
        return "auto"
    if limk == "bad":
        return (1.0, 2.0, 3.0, 4.0)
    v = [x / 2.0 for x in lim2]
    return [v[:2], v[2:]] if limk == "nested" else v


_FDESC = {"x2": 247, "y2": 13, "t0": 1, "n": 1}        # the dynamic obstacle of the model (MC_DrawParamTree: DynId = 3)


def _rnd_random_ops(rng, n):
    """A random renderer history beyond TLC's bounds (ids 1..12, several drawables per kind)."""
    lanes, obss, signs, trajs = [1, 2], [3, 4, 5], [6, 7, 8], [9]
    dyns = {}
    for i in (10, 11, 12):
        dyns[i] = {"x2": int(2 * CELL * i) + rng.randint(2, 20), "y2": rng.randint(2, 40), "t0": rng.randint(0, 3), "n": rng.randint(1, 3)}

    def lim():
        a, b = rng.randint(-60, -1), rng.randint(1, 60)
        c, d = rng.randint(-40, -1), rng.randint(1, 40)
        return [a, b, c, d]
    focus = rng.choice([0, 0, 10, 11, 12])
    limk = rng.choice(["none", "list", "list", "nested", "auto"]) if not focus else rng.choice(["none", "list", "list", "nested"])
    ops = [{"op": "r_new", "limk": limk, "lim": lim() if limk in ("list", "nested") else [], "focus": focus,
            "fdesc": dyns.get(focus, {})}]
    for _ in range(n):
        r = rng.random()
        if r < 0.5:
            kind = rng.choice(["lane", "obs", "obs", "dyn", "dyn", "dyn", "sign", "sign", "trajs"])
            psrc = rng.choice(["none", "none", "mp", "spec"])
            if kind == "dyn":
                i = rng.choice(sorted(dyns)) if not focus or rng.random() < 0.5 else focus
                ops.append(dict(dyns[i], op="r_draw", kind="dyn", id=i, psrc=psrc, ptb=rng.randint(0, 6)))
            else:
                i = rng.choice({"lane": lanes, "obs": obss, "sign": signs, "trajs": trajs}[kind])
                ops.append({"op": "r_draw", "kind": kind, "id": i, "psrc": psrc, "uniq": rng.randint(0, 1), "ptb": 0})
        elif r < 0.62:
            ops.append({"op": "r_render", "keep": rng.randint(0, 1)})
        elif r < 0.68:
            ops.append({"op": "r_clear", "keep": rng.randint(0, 1)})
        elif r < 0.76:
            ops.append({"op": "r_settb", "b": rng.randint(0, 6)})
        elif r < 0.80:
            ops.append({"op": "r_setfocus", "id": rng.choice([0] + sorted(dyns))})
        elif r < 0.86:
            k = rng.choice(["none", "list", "nested", "auto", "bad"])
            ops.append({"op": "r_setlim", "limk": k, "lim": lim() if k in ("list", "nested") else []})
        elif r < 0.90:
            ops.append({"op": "r_render_static"})
        elif r < 0.95:
            ops.append({"op": "r_render_dynamic"})
        else:
            ops.append({"op": "r_remove_dynamic"})
    return ops, dyns


def _run_rnd(case):
    import matplotlib
    matplotlib.use("Agg")
    r = _Rnd()
    ev = []
    if case["src"] == "random":
        ops, dyns = _rnd_random_ops(random.Random(case["seed"]), case["len"])
    else:
        ops, dyns = case["ops"], {}
    try:
        for a in ops:
            a = dict(a)
            if a["op"] == "r_new":
                a.setdefault("fdesc", dyns.get(int(a["focus"]), _FDESC))
            elif r.rnd is None:
                continue
            if a["op"] == "r_setfocus" and a["id"] and int(a["id"]) not in r.world.obj:
                r.world.get(dict(dyns.get(int(a["id"]), _FDESC), id=int(a["id"]), kind="dyn"))
            ev.append(r.op(a))
    finally:
        r.close()
    return ev


def execute(case):
    use_repo()
    return {"ev": _run_tree(case) if case["kind"] == "tree" else _run_rnd(case)}


def summarize(cases, traces):
    by = {}
    for tr in traces:
        for e in tr["ev"]:
            by[e["op"]] = by.get(e["op"], 0) + 1
    return {"events_by_op": by}


def corrupt(trace, rng):
    """Corrupt ONE logged field so that the contract must reject that event: a foreign entry in the logged values of a
    tree, a foreign id in the logged static buffer / static artists on the axes."""
    elig = [i for i, e in enumerate(trace["ev"])
            if (e["op"].startswith("d_") and e["post"]) or
            (e["op"] in ("r_draw", "r_render", "r_clear", "r_settb", "r_setfocus", "r_render_static", "r_render_dynamic",
                         "r_remove_dynamic") and e["res"] == "ok")]
    if not elig:
        return None
    e = trace["ev"][rng.choice(elig)]
    if e["op"].startswith("d_"):
        rng.choice(e["post"])["val"].append([[], "no_such_parameter", "'corrupted'"])
    elif e["op"] in ("r_render_static", "r_render_dynamic", "r_remove_dynamic"):
        e["xs"] = e["xs"] + [77]
    else:
        e["bs"] = e["bs"] + [77]
    return trace
