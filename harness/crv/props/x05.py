"""X05 (extended coverage) - validity rule table and object state machines of commonroad/common/solution.py
(spec: SolutionRules.tla, MC_SolutionRules.tla), beyond the id grammar (C13) and the xml round trip (C14).

Enumerations and the state-field table; StateType.get_state_type / TrajectoryType.get_trajectory_type (with and without
a desired vehicle model), valid_vehicle_model, SupportedCostFunctions; PlanningProblemSolution constructor and every
setter as a state machine (which combinations raise, rejected calls are atomic, trajectory_type / vehicle_id / cost_id
consistent after ANY sequence of calls); Solution (constructor, planning_problem_solutions setter, scenario_id,
computation_time, the derived views over LIVE objects); CommonRoadSolutionWriter.dump / write_to_file against a sandbox
file system; CommonRoadSolutionReader.open vs fromstring and the reader's error table."""
import json
import os
import random
import shutil

from crv import graph, tlc
from crv.core import use_repo

PROPERTY = "X05"
MODULES = ["SolutionRules", "MC_SolutionRules", "Trace_SolutionRules"]
TRACE = ("Trace_SolutionRules", "Trace_SolutionRules.cfg")
EXHAUSTIVE = True
RULE = ("TLC checks the implementation-shaped model of solution.py against the contract of SolutionRules.tla in four "
        "domains and emits the cases: (tab) every (state class, desired model) pair of 13 state classes x {None, 5 "
        "models} for get_state_type / get_trajectory_type, every constructor call 13 state classes x 5 models x 8 cost "
        "functions, valid_vehicle_model 7 x 5, 24 reader defects, 13 computation-time classes, the enum / field tables; "
        "(pps) the labelled state graph of one PlanningProblemSolution under constructor + the five setters (5 models, "
        "2 cost functions, 2 vehicle types, 13 state classes, 2 ids); (sol) a Solution over a pool of three live "
        "objects (lists up to length 2 incl. repeated ids, planning_problem_solutions setter, scenario_id, "
        "computation_time, setters of the contained objects); (fs) writer / reader against a sandbox (9 output_path "
        "forms x 4 filename forms x overwrite x pretty, dump, open vs fromstring of every file, a cost change between "
        "writer creation and writing).  A transition cover of each graph (every edge once, walks from the initial "
        "state) is executed on the real classes, every table case on the real functions, plus seeded random histories "
        "mixing all operations beyond TLC's bounds (6 objects, all enum members, lists up to 4, 20-60 calls).  Every "
        "event logs the observable state of the object / solution / sandbox after the call; TLC validates it against "
        "SolutionRules.tla.  distinct_nontrivial = distinct walks / table cases / random seeds.")
ASSUMPTIONS = ["contract read from the docstrings, the exception / assert messages and the enum definitions of "
               "solution.py; where they are silent both behaviours are accepted (bands declared in SolutionRules.tla: "
               "states with extra attributes and no exact type, vehicle_model setter when only a re-reading of the "
               "states admits the model, repeated planning problem ids in a list, benchmark id of an empty solution, "
               "nan / inf / True as computation time, snapshot vs current solution in dump / default file name, "
               "missing output directory created or refused, output_path '', reader defects without a message)",
               "the trajectory setter is held to the constructor's rule for the object's vehicle model; "
               "trajectory_type may only change with the trajectory (its docstring)",
               "states of one trajectory have the same attributes (Trajectory asserts it); state values are arbitrary "
               "finite floats", "files are compared by name, kind (xml / foreign / empty) and the benchmark id, "
               "trajectory tags and planning problem ids parsed with ElementTree; value round trip is C14's subject",
               "the expected answer is computed by TLC from SolutionRules.tla, never by the harness"]

_ARG_KEYS = ("op", "h", "ppid", "m", "vt", "c", "shape", "q", "scen", "ct", "pretty", "dir", "fname", "ow", "file")
_MODELS = ["PM", "ST", "KS", "MB", "KST"]
_VTYPES = ["FORD_ESCORT", "BMW_320i", "VW_VANAGON", "TRUCK"]
_COSTS = ["JB1", "SA1", "WX1", "SM1", "SM2", "SM3", "MW1", "TR1"]
_KINDS = ["PM", "ST", "KS", "KST", "MB", "Input", "PMInput"]
_KS = ["position", "steering_angle", "velocity", "orientation"]
# gamma: shape token -> (state class, attribute names for CustomState)
_SHAPES = {"PM": ("PMState", None), "ST": ("STState", None), "KS": ("KSState", None), "KST": ("KSTState", None),
           "MB": ("MBState", None), "Input": ("InputState", None), "PMInput": ("PMInputState", None),
           "STD": ("STDState", None), "KSpart": ("KSState", ["position"]), "EPM": ("ExtendedPMState", None), "INIT": ("InitialState", None),
           "KSA": ("CustomState", _KS + ["acceleration"]),
           "PMA": ("CustomState", ["position", "velocity", "velocity_y", "acceleration", "acceleration_y"]),
           "KSI": ("CustomState", _KS + ["steering_angle_speed", "acceleration"])}
_SHAPE_NAMES = sorted(k for k in _SHAPES if k != "KSpart")      # random histories: states with unset fields stay out
# cooperative, country, map name, map id, configuration id, obstacle behavior, prediction id, version
_SCEN = {"T": (False, "USA", "US101", 1, 1, "T", 1, "2020a"), "coop": (True, "USA", "Lanker", 1, 2, "T", 1, "2020a"),
         "bare": (False, "ZAM", "Tjunction", 1, None, None, None, "2018b")}
_CT_TOKENS = ["None", "posint", "posfloat", "npfloat", "npint", "zero", "zerof", "neg", "negf", "text", "nan", "inf", "bool"]
_DIRS = ["root", "rootsl", "sub", "default", "dot", "emptystr", "missing", "nested", "file"]
_FILES = {"None": None, "a": "a.xml", "old": "old.xml", "subdir": "sub/b.xml"}
_FOREIGN = "FOREIGN\n"
_SANDBOX = os.path.join(tlc.OUT, "x05_sandbox")


# ---- design-level half -------------------------------------------------------------------------------

def model_check(ctx):
    ctx.mc("MC_SolutionRules", "MC_SolutionRules_t.cfg" if ctx.thorough else "MC_SolutionRules.cfg", coverage=True,
           timeout=1800)
    # deviation constants: the four shipped behaviours reported as findings and one conceivable defect
    ctx.mc_expect("MC_SolutionRules", "DEV_SolutionRules_1.cfg", "InvStateTypeRefines")
    ctx.mc_expect("MC_SolutionRules", "DEV_SolutionRules_2.cfg", "PropRefines")
    ctx.mc_expect("MC_SolutionRules", "DEV_SolutionRules_3.cfg", "InvObjects")
    ctx.mc_expect("MC_SolutionRules", "DEV_SolutionRules_4.cfg", "PropFailedWriteKeepsFiles")
    ctx.mc_expect("MC_SolutionRules", "DEV_SolutionRules_5.cfg", "InvReaderTable")


def cases(ctx):
    cfg = "GEN_SolutionRules_t.cfg" if ctx.thorough else "GEN_SolutionRules.cfg"
    r = tlc.run_tlc("MC_SolutionRules", cfg, "x05_gen", workers=1, timeout=3600)
    if not r["ok"]:
        raise tlc.MachineryError("GEN failed: " + r["out"][-2000:])
    g = graph.parse_edges(tlc.tla_unquote(p) for p in tlc.printed_tuples(r["out"], "EDGE"))
    cs = [{"src": "tlc", "kind": "tables"}, {"src": "tlc", "kind": "date"}]
    n_edges = sum(len(v) for v in g.values())
    n_walks = 0
    for d in ("pps", "sol", "fs"):
        sub = {k: v for k, v in g.items() if json.loads(k)["d"] == d}
        inits = [k for k in sub if _is_init(json.loads(k))]
        if len(inits) != 1:
            raise tlc.MachineryError("initial state of domain %s not found in the dumped graph (%d)" % (d, len(inits)))
        pool = [{k: o[k] for k in ("ppid", "m", "vt", "c", "shape")} for o in json.loads(inits[0])["objs"]]
        for w in graph.cover_walks(sub, inits[0], max_len=25, rng=ctx.rng):
            cs.append({"src": "walk", "kind": d, "pool": pool,
                       "ops": [{k: a[k] for k in _ARG_KEYS if k in a} for a in w]})
            n_walks += 1
    n_tab = 0
    for p in tlc.printed_tuples(r["out"], "CASE"):
        c = json.loads(tlc.tla_unquote(p))
        cs.append(dict(c, src="tlc"))
        n_tab += 1
    if not n_tab or not n_walks:
        raise tlc.MachineryError("GEN produced no cases:\n" + r["out"][-2000:])
    ctx.mc_runs.append({"module": "MC_SolutionRules", "cfg": cfg, "distinct_states": r["distinct"],
                        "states_generated": r["generated"], "depth": r["depth"], "wall_s": r["wall_s"],
                        "verdict": "dumped %d labelled edges -> %d covering walks; %d table cases" %
                                   (n_edges, n_walks, n_tab)})
    ctx.extra["graph_edges"] = n_edges
    rng = ctx.rng
    for _ in range(3000 if ctx.thorough else 400):
        cs.append({"src": "random", "kind": "random", "seed": rng.randrange(1 << 30), "len": rng.randint(20, 60)})
    return cs


def _is_init(k):
    return k["nw"] == 0 and k["W"]["l"] == 0 and \
        ((k["d"] == "pps" and not k["objs"]) or (k["d"] == "sol" and k["S"]["l"] == 0 and _pool_fresh(k, "sol"))
         or (k["d"] == "fs" and _pool_fresh(k, "fs") and len(k["FS"]) == 4))


def _pool_fresh(k, d):
    o = k["objs"]
    if d == "fs":
        return len(o) == 1 and o[0]["c"] == "JB1"
    return len(o) == 3 and o[0]["c"] == "JB1" and o[1]["vt"] == "FORD_ESCORT" and o[2]["ppid"] == 1 \
        and o[2]["shape"] == "Input"


def nontrivial(case):
    if case["src"] == "walk":
        return json.dumps([case["kind"], case["ops"]], sort_keys=True)
    if case["src"] == "random":
        return ("random", case["seed"])
    return json.dumps({k: v for k, v in case.items() if k != "src"}, sort_keys=True)


# ---- alpha / gamma helpers ---------------------------------------------------------------------------

def _exc(ex):
    return "exc:" + type(ex).__name__


def _trajectory(shape, n=2):
    import dataclasses
    import numpy as np
    import commonroad.scenario.state as cst
    from commonroad.scenario.trajectory import Trajectory
    cname, names = _SHAPES[shape]
    cls = getattr(cst, cname)
    states = []
    for t in range(n):
        if names is None:
            names_ = [f.name for f in dataclasses.fields(cls) if f.name != "time_step"]
        else:
            names_ = names
        kw = {a: (np.array([1.5 * t, 0.25]) if a == "position" else 0.125 * (j + 1) + t)
              for j, a in enumerate(names_)}
        states.append(cls(time_step=t, **kw))
    return Trajectory(0, states)


def _attrs(traj):
    return [str(a) for a in traj.state_list[0].attributes]


def _unset(traj):
    st = traj.state_list[0]
    return sum(1 for a in st.attributes if getattr(st, a) is None)


_DUMMY_OBS = {"ppid": 0, "m": "", "vt": "", "c": "", "attrs": [], "tt": "", "vid": "", "cid": ""}
_DUMMY_VIEW = {"items": [], "ppids": [], "vids": [], "cids": [], "tts": [], "bid": "", "sid": "", "ver": ""}


def _guard(f):
    try:
        return f()
    except Exception as ex:
        return _exc(ex)


def _obs(o):
    return {"ppid": int(o.planning_problem_id), "m": _guard(lambda: str(o.vehicle_model.name)),
            "vt": _guard(lambda: str(o.vehicle_type.name)), "c": _guard(lambda: str(o.cost_function.name)),
            "attrs": _guard(lambda: _attrs(o.trajectory)), "tt": _guard(lambda: str(o.trajectory_type.name)),
            "vid": _guard(lambda: str(o.vehicle_id)), "cid": _guard(lambda: str(o.cost_id))}


def _shape_class(attrs):
    """label only: how the attribute set relates to the field table of the library"""
    from commonroad.common.solution import StateFields
    a = set(attrs)
    if any(set(sf.value) == a for sf in StateFields):
        return "documented-class"
    return "extra-attributes" if any(set(sf.value) <= a for sf in StateFields) else "no-type"


def _desired_class(attrs, d):
    from commonroad.common.solution import StateFields
    if d == "None":
        return "none"
    return "supported" if set(StateFields[d].value) <= set(attrs) else "unsupported"


class _World:
    def __init__(self):
        self.objs, self.sol, self.writer, self.root, self.ev = [], None, None, None, []

    # -- objects ------------------------------------------------------------------------------------
    def handle(self, o):
        for i, x in enumerate(self.objs):
            if x is o:
                return i + 1
        return -1

    def view(self):
        s = self.sol
        items = s.planning_problem_solutions
        return {"items": [self.handle(o) for o in items], "ppids": [int(i) for i in s.planning_problem_ids],
                "vids": [str(v) for v in s.vehicle_ids], "cids": [str(c) for c in s.cost_ids],
                "tts": [str(t.name) for t in s.trajectory_types], "bid": str(s.benchmark_id),
                "sid": str(s.scenario_id), "ver": str(s.scenario_id.scenario_version)}

    def p_op(self, a):
        from commonroad.common.solution import CostFunction, PlanningProblemSolution, VehicleModel, VehicleType
        op = a["op"]
        e = {"op": op}
        if op == "p_new":
            tr = _trajectory(a["shape"])
            attrs = _attrs(tr)
            e.update(h=len(self.objs) + 1, ppid=int(a["ppid"]), m=a["m"], vt=a["vt"], c=a["c"], shape=a["shape"],
                     attrs=attrs, unset=_unset(tr),
                     sig="pps.new[%s]" % ("unset-fields" if _unset(tr) else _shape_class(attrs)))
            try:
                o = PlanningProblemSolution(e["ppid"], VehicleModel[a["m"]], VehicleType[a["vt"]], CostFunction[a["c"]], tr)
                self.objs.append(o)
                e.update(res="ok", obs=_obs(o))
            except Exception as ex:
                e.update(res=_exc(ex), obs=dict(_DUMMY_OBS))
            self.ev.append(e)
            return
        h = int(a["h"])
        if h > len(self.objs):
            return                              # the constructor call was rejected (reported): nothing to call
        o = self.objs[h - 1]
        e["h"] = h
        try:
            if op == "p_model":
                e.update(m=a["m"], sig="pps.set_vehicle_model")
                o.vehicle_model = VehicleModel[a["m"]]
            elif op == "p_cost":
                e.update(c=a["c"], sig="pps.set_cost_function")
                o.cost_function = CostFunction[a["c"]]
            elif op == "p_vtype":
                e.update(vt=a["vt"], sig="pps.set_vehicle_type")
                o.vehicle_type = VehicleType[a["vt"]]
            elif op == "p_ppid":
                e.update(ppid=int(a["ppid"]), sig="pps.set_planning_problem_id")
                o.planning_problem_id = int(a["ppid"])
            elif op == "p_traj":
                tr = _trajectory(a["shape"])
                attrs = _attrs(tr)
                same = "same-class" if set(attrs) == set(_attrs(o.trajectory)) else "other-class"
                e.update(shape=a["shape"], attrs=attrs, unset=_unset(tr),
                         sig="pps.set_trajectory[%s;%s;model-fields-%s]" % (
                             same, _shape_class(attrs), _desired_class(attrs, str(o.vehicle_model.name))))
                o.trajectory = tr
            elif op == "p_get":
                e["sig"] = "pps.observe"
            else:
                raise tlc.MachineryError("unknown op " + op)
            e["res"] = "ok"
        except tlc.MachineryError:
            raise
        except Exception as ex:
            e["res"] = _exc(ex)
        e["obs"] = _obs(o)
        self.ev.append(e)
        if self.sol is not None and op != "p_get":
            self.ev.append({"op": "s_obs", "sig": "solution.views-after-" + op, "view": self.view()})

    # -- solution -----------------------------------------------------------------------------------
    def s_op(self, a):
        import numpy as np
        from commonroad.common.solution import Solution
        from commonroad.scenario.scenario import ScenarioID
        op = a["op"]
        e = {"op": op}
        if op in ("s_new", "s_set"):
            q = [int(h) for h in a["q"] if int(h) <= len(self.objs)]
            ids = [self.objs[h - 1].planning_problem_id for h in q]
            e.update(q=q, sig="solution.%s[%s]" % ("new" if op == "s_new" else "set_solutions",
                                                   "empty" if not q else ("distinct-ids" if len(set(ids)) == len(ids)
                                                                          else "repeated-ids")))
        if op == "s_new":
            e["scen"] = a["scen"]
            try:
                self.sol = Solution(ScenarioID(*_SCEN[a["scen"]]), [self.objs[h - 1] for h in q])
                self.writer = None              # a writer belongs to the solution it was made for
                e.update(res="ok", view=self.view())
            except Exception as ex:
                e.update(res=_exc(ex), view=dict(_DUMMY_VIEW))
            self.ev.append(e)
            return
        if self.sol is None:
            return
        s = self.sol
        try:
            if op == "s_set":
                s.planning_problem_solutions = [self.objs[h - 1] for h in q]
            elif op == "s_scen":
                e.update(scen=a["scen"], sig="solution.set_scenario_id")
                s.scenario_id = ScenarioID(*_SCEN[a["scen"]])
            elif op == "s_ct":
                val = {"None": None, "posint": 3, "posfloat": 1.5, "npfloat": np.float64(2.5), "npint": np.int64(4),
                       "zero": 0, "zerof": 0.0, "neg": -2, "negf": -0.5, "text": "1.5", "nan": float("nan"),
                       "inf": float("inf"), "bool": True}[a["ct"]]
                prev = s.computation_time
                e.update(ct=a["ct"], sig="solution.set_computation_time[%s]" % a["ct"])
                try:
                    s.computation_time = val
                    e["res"] = "ok"
                    e["ctobs"] = "set" if s.computation_time is val else "other"
                except Exception as ex:
                    e["res"] = _exc(ex)
                    e["ctobs"] = "kept" if s.computation_time is prev else "other"
            else:
                raise tlc.MachineryError("unknown op " + op)
            e.setdefault("res", "ok")
        except tlc.MachineryError:
            raise
        except Exception as ex:
            e["res"] = _exc(ex)
        e["view"] = self.view()
        self.ev.append(e)

    # -- sandbox ------------------------------------------------------------------------------------
    def sandbox(self):
        if self.root is None:
            os.makedirs(_SANDBOX, exist_ok=True)
            import tempfile
            self.root = tempfile.mkdtemp(prefix="w", dir=_SANDBOX)
            for d in ("sub", "cwd"):
                os.makedirs(os.path.join(self.root, d))
            for f in ("old.xml", "sub/old.xml", "cwd/old.xml", "plain"):
                with open(os.path.join(self.root, f), "w") as fh:
                    fh.write(_FOREIGN)
            self.ev.append({"op": "fs_init", "sig": "sandbox", "files": self.files()})
        return self.root

    def files(self):
        import xml.etree.ElementTree as ET
        out = []
        for dp, _, fns in os.walk(self.root):
            for fn in fns:
                p = os.path.join(dp, fn)
                rec = {"n": os.path.relpath(p, self.root).replace(os.sep, "/"), "k": "garbage", "bid": "", "tr": []}
                with open(p, "rb") as fh:
                    data = fh.read()
                if not data:
                    rec["k"] = "empty"
                elif data == _FOREIGN.encode():
                    rec["k"] = "foreign"
                else:
                    try:
                        doc = _doc(ET.fromstring(data))
                        if doc["root"] == "CommonRoadSolution":
                            rec.update(k="xml", bid=doc["bid"], tr=doc["tr"])
                    except ET.ParseError:
                        pass
                out.append(rec)
        return sorted(out, key=lambda r: r["n"])

    def w_op(self, a):
        from commonroad.common.solution import CommonRoadSolutionReader, CommonRoadSolutionWriter
        import xml.etree.ElementTree as ET
        op = a["op"]
        e = {"op": op}
        if op == "w_new":
            if self.sol is None:
                return
            e["sig"] = "writer.new"
            try:
                self.writer = CommonRoadSolutionWriter(self.sol)
                e["res"] = "ok"
            except Exception as ex:
                e["res"] = _exc(ex)
            self.ev.append(e)
            return
        if op == "r_both":
            root = self.sandbox()
            p = os.path.join(root, a["file"])
            if not os.path.isfile(p):
                return                          # the model expected a file the real code did not write (reported there)
            kind = [r["k"] for r in self.files() if r["n"] == a["file"]][0]
            e.update(file=a["file"], sig="reader.open-vs-fromstring[%s file]" % kind)
            e["a"] = _read(lambda: CommonRoadSolutionReader.open(p))
            with open(p, "rb") as fh:
                data = fh.read()
            e["b"] = _read(lambda: CommonRoadSolutionReader.fromstring(data.decode("utf-8")))
            e["files"] = self.files()
            self.ev.append(e)
            return
        if self.writer is None:
            return
        if op == "w_dump":
            pretty = int(a["pretty"])
            e.update(pretty=pretty, type="", doc={"root": "", "bid": "", "tr": []}, sig="writer.dump[pretty=%d]" % pretty)
            try:
                text = self.writer.dump(bool(pretty))
                e["type"] = type(text).__name__
                e["doc"] = _doc(ET.fromstring(text))
                e["res"] = "ok"
            except Exception as ex:
                e["res"] = _exc(ex)
            self.ev.append(e)
            return
        if op != "w_write":
            raise tlc.MachineryError("unknown op " + op)
        root = self.sandbox()
        d, f, ow, pretty = a["dir"], a["fname"], int(a["ow"]), int(a["pretty"])
        kw = {"overwrite": bool(ow), "pretty": bool(pretty)}
        path = {"root": root, "rootsl": root + "/", "sub": os.path.join(root, "sub"), "dot": ".", "emptystr": "",
                "missing": os.path.join(root, "missing"), "nested": os.path.join(root, "n1", "n2"),
                "file": os.path.join(root, "plain")}
        if d != "default":
            kw["output_path"] = path[d]
        if _FILES[f] is not None:
            kw["filename"] = _FILES[f]
        pclass = {"missing": "missing-dir", "nested": "missing-dir", "file": "through-a-file", "emptystr": "empty-string"}
        e.update(dir=d, fname=f, ow=ow, pretty=pretty,
                 sig="writer.write_to_file[pretty=%d;%s;%s]" % (
                     pretty, pclass.get(d, "existing-dir"),
                     "default-name" if f == "None" else ("existing-file,overwrite=%d" % ow if f == "old" else "new-name")))
        cwd = os.getcwd()
        try:
            os.chdir(os.path.join(root, "cwd"))
            self.writer.write_to_file(**kw)
            e["res"] = "ok"
        except Exception as ex:
            e["res"] = _exc(ex)
        finally:
            os.chdir(cwd)
        e["files"] = self.files()
        self.ev.append(e)

    def run(self, a):
        op = a["op"]
        if op.startswith("p_"):
            self.p_op(a)
        elif op.startswith("s_"):
            self.s_op(a)
        else:
            self.w_op(a)

    def close(self):
        if self.root is not None:
            shutil.rmtree(self.root, ignore_errors=True)


def _doc(root):
    tr = []
    for t in root:
        pp = t.get("planningProblem")
        tr.append([str(t.tag), int(pp) if pp is not None and pp.lstrip("-").isdigit() else -1])
    return {"root": str(root.tag), "bid": str(root.get("benchmark_id", "")), "tr": tr}


def _read(f):
    """Projection of a parsed solution (or the exception class)."""
    none = {"res": "", "bid": "", "sid": "", "ver": "", "ppids": [], "vids": [], "cids": [], "tts": [], "deep": []}
    try:
        s = f()
    except Exception as ex:
        return dict(none, res=_exc(ex))
    deep = ["ct:" + repr(s.computation_time), "date:" + (s.date.isoformat() if s.date is not None else "None"),
            "proc:" + repr(s.processor_name)]
    for p in s.planning_problem_solutions:
        for st in p.trajectory.state_list:
            row = [type(st).__name__]
            for a in st.attributes:
                v = getattr(st, a)
                row.append("%s=%s" % (a, ",".join(float(x).hex() for x in v) if a == "position" else
                                      (str(int(v)) if a == "time_step" else float(v).hex())))
            deep.append(" ".join(row))
    return {"res": "ok", "bid": str(s.benchmark_id), "sid": str(s.scenario_id),
            "ver": str(s.scenario_id.scenario_version), "ppids": [int(i) for i in s.planning_problem_ids],
            "vids": [str(v) for v in s.vehicle_ids], "cids": [str(c) for c in s.cost_ids],
            "tts": [str(t.name) for t in s.trajectory_types], "deep": deep}


# ---- value-like tables ---------------------------------------------------------------------------------

def _run_tables():
    import commonroad.common.solution as sol
    ev = []
    for name in ("VehicleType", "VehicleModel", "CostFunction", "TrajectoryType", "StateType"):
        ev.append({"op": "enum", "name": name, "sig": "enum " + name,
                   "members": [[str(m.name), str(m.value)] for m in getattr(sol, name)]})
    for k in _KINDS:
        stt = sol.StateType[k]
        ev.append({"op": "fields", "k": k, "fields": [str(f) for f in stt.fields], "nxml": len(stt.xml_fields),
                   "ttstate": str(sol.TrajectoryType[k].state_type.name), "sig": "StateType.fields"})
    for m in _MODELS:
        ev.append({"op": "sup_costs", "m": m, "costs": [str(c.name) for c in sol.SupportedCostFunctions[m].value],
                   "sig": "SupportedCostFunctions"})
    return ev


def _run_st_type(case):
    from commonroad.common.solution import StateType, TrajectoryType, VehicleModel
    tr = _trajectory(case["shape"])
    attrs = _attrs(tr)
    d = case["desired"]
    dm = None if d == "None" else VehicleModel[d]
    ev = []
    for via in ("state", "trajectory"):
        e = {"op": "st_type", "shape": case["shape"], "attrs": attrs, "desired": d,
             "sig": "get_%s_type[desired %s;%s]" % (via, _desired_class(attrs, d), _shape_class(attrs))}
        try:
            r = StateType.get_state_type(tr.state_list[0], dm) if via == "state" else \
                TrajectoryType.get_trajectory_type(tr, dm)
            e["res"] = str(r.name)
        except Exception as ex:
            e["res"] = _exc(ex)
        ev.append(e)
    return ev


def _run_valid_vm(case):
    from commonroad.common.solution import TrajectoryType, VehicleModel
    e = {"op": "valid_vm", "k": case["k"], "m": case["m"], "sig": "valid_vehicle_model"}
    e["res"] = 1 if TrajectoryType[case["k"]].valid_vehicle_model(VehicleModel[case["m"]]) else 0
    return [e]


def _base_doc(model):
    """A valid single-trajectory document written by the real writer."""
    w = _World()
    w.p_op({"op": "p_new", "ppid": 1, "m": model, "vt": "BMW_320i", "c": "JB1", "shape": model})
    w.s_op({"op": "s_new", "scen": "T", "q": [1]})
    from commonroad.common.solution import CommonRoadSolutionWriter
    return CommonRoadSolutionWriter(w.sol).dump()


def _run_r_bad(case):
    import copy
    import tempfile
    import xml.etree.ElementTree as ET
    from commonroad.common.solution import CommonRoadSolutionReader
    d = case["defect"]
    root = ET.fromstring(_base_doc("PM" if d == "cost-unsupported" else "KS"))
    tail = ":USA_US101-1_1_T-1:2020a"
    veh = {"vehicle-unknown-model": "XX2", "vehicle-type-0": "KS0", "vehicle-type-7": "KS7", "vehicle-type-letter": "KSx",
           "vehicle-too-short": "K2", "vehicle-too-long": "KSTT2", "vehicle-lowercase": "ks2", "vehicle-no-type": "KS"}
    if d == "none":
        pass
    elif d == "no-benchmark-id":
        root.attrib.pop("benchmark_id")
    elif d == "empty-benchmark-id":
        root.set("benchmark_id", "")
    elif d == "segments-3":
        root.set("benchmark_id", "KS2:JB1:USA_US101-1_1_T-1")
    elif d == "segments-5":
        root.set("benchmark_id", "KS2:JB1" + tail + ":x")
    elif d in veh:
        root.set("benchmark_id", veh[d] + ":JB1" + tail)
    elif d == "cost-unknown":
        root.set("benchmark_id", "KS2:XX1" + tail)
    elif d == "trajectory-tag-unknown":
        root[0].tag = "fooTrajectory"
    elif d == "state-tag-wrong":
        root[0][0].tag = "pmState"
    elif d == "leaf-missing":
        root[0][0].remove(root[0][0].find("velocity"))
    elif d == "model-trajectory-mismatch":
        root.set("benchmark_id", "PM2:JB1" + tail)
    elif d == "cost-unsupported":
        root.set("benchmark_id", "PM2:SA1" + tail)
    elif d == "more-ids-than-trajectories":
        root.set("benchmark_id", "[KS2,KS1]:[JB1,SA1]" + tail)
    elif d == "fewer-ids-than-trajectories":
        extra = copy.deepcopy(root[0])
        extra.set("planningProblem", "2")
        root.append(extra)
    elif d == "no-planning-problem-id":
        root[0].attrib.pop("planningProblem")
    elif d == "empty-trajectory":
        for s in list(root[0]):
            root[0].remove(s)
    elif d == "time-not-integer":
        root[0][0].find("time").text = "1.0"
    else:
        raise tlc.MachineryError("unknown defect " + d)
    text = ET.tostring(root, encoding="unicode")
    os.makedirs(_SANDBOX, exist_ok=True)
    fd, p = tempfile.mkstemp(prefix="bad", suffix=".xml", dir=_SANDBOX)
    try:
        with os.fdopen(fd, "w") as fh:
            fh.write(text)
        a = _read(lambda: CommonRoadSolutionReader.open(p))["res"]
        b = _read(lambda: CommonRoadSolutionReader.fromstring(text))["res"]
    finally:
        os.remove(p)
    return [{"op": "r_bad", "defect": d, "a": a, "b": b, "sig": "reader[%s]" % d}]


def _run_date():
    import time
    from datetime import datetime, timedelta
    w = _World()
    w.p_op({"op": "p_new", "ppid": 1, "m": "KS", "vt": "BMW_320i", "c": "JB1", "shape": "KS"})
    from commonroad.common.solution import Solution
    from commonroad.scenario.scenario import ScenarioID
    time.sleep(1.5)                                 # the library has been imported for at least 1.5 s now
    before = datetime.today()
    s = Solution(ScenarioID(*_SCEN["T"]), [w.objs[0]])
    fresh = 1 if (s.date is not None and s.date >= before - timedelta(seconds=1)) else 0
    return [{"op": "s_date", "fresh": fresh, "sig": "solution.new[date not given]"}]


# ---- random histories ------------------------------------------------------------------------------------

_VALID = [("PM", "PM"), ("ST", "ST"), ("KS", "KS"), ("KST", "KST"), ("MB", "MB"), ("KS", "Input"), ("ST", "Input"),
          ("MB", "Input"), ("PM", "PMInput"), ("KS", "ST"), ("KS", "KSA"), ("ST", "STD"), ("PM", "PMA"), ("KS", "KSI")]


def _random_op(rng, w):
    n = len(w.objs)
    r = rng.random()
    if n == 0 or (n < 6 and r < 0.12):
        m, s = rng.choice(_VALID) if rng.random() < 0.75 else (rng.choice(_MODELS), rng.choice(_SHAPE_NAMES))
        c = rng.choice(["JB1", "WX1", "MW1"] if m == "PM" and rng.random() < 0.8 else _COSTS)
        return {"op": "p_new", "ppid": rng.choice([1, 2, 3, 4, rng.randint(5, 10 ** 6)]), "m": m,
                "vt": rng.choice(_VTYPES), "c": c, "shape": s}
    h = rng.randint(1, n)
    if r < 0.22:
        return {"op": "p_cost", "h": h, "c": rng.choice(_COSTS)}
    if r < 0.30:
        return {"op": "p_model", "h": h, "m": rng.choice(_MODELS)}
    if r < 0.36:
        return {"op": "p_vtype", "h": h, "vt": rng.choice(_VTYPES)}
    if r < 0.46:
        cur = str(w.objs[h - 1].vehicle_model.name)
        good = [s for (m, s) in _VALID if m == cur]
        return {"op": "p_traj", "h": h, "shape": rng.choice(good) if rng.random() < 0.6 else rng.choice(_SHAPE_NAMES)}
    if r < 0.50:
        return {"op": "p_ppid", "h": h, "ppid": rng.choice([1, 2, 3, 4, rng.randint(5, 10 ** 6)])}
    if r < 0.53:
        return {"op": "p_get", "h": h}
    if w.sol is None or r < 0.60:
        k = rng.choice([0, 1, 1, 2, 2, 3, 4])
        q = [rng.randint(1, n) for _ in range(k)] if rng.random() < 0.3 else rng.sample(range(1, n + 1), min(k, n))
        return {"op": "s_new" if (w.sol is None or rng.random() < 0.4) else "s_set", "scen": rng.choice(sorted(_SCEN)),
                "q": q}
    if r < 0.64:
        return {"op": "s_scen", "scen": rng.choice(sorted(_SCEN))}
    if r < 0.70:
        return {"op": "s_ct", "ct": rng.choice(_CT_TOKENS)}
    if w.writer is None or r < 0.76:
        return {"op": "w_new"}
    if r < 0.82:
        return {"op": "w_dump", "pretty": rng.randint(0, 1)}
    if r < 0.94 or w.root is None:
        return {"op": "w_write", "dir": rng.choice(_DIRS if rng.random() < 0.5 else ["root", "sub", "default"]),
                "fname": rng.choice(sorted(_FILES)), "ow": rng.randint(0, 1), "pretty": 1 if rng.random() < 0.7 else 0}
    return {"op": "r_both", "file": rng.choice([f["n"] for f in w.files()])}


def execute(case):
    use_repo()
    kind = case["kind"]
    if kind == "tables":
        return {"ev": _run_tables()}
    if kind == "st_type":
        return {"ev": _run_st_type(case)}
    if kind == "valid_vm":
        return {"ev": _run_valid_vm(case)}
    if kind == "r_bad":
        return {"ev": _run_r_bad(case)}
    if kind == "date":
        return {"ev": _run_date()}
    w = _World()
    try:
        if kind == "ctor":
            w.p_op({"op": "p_new", "ppid": 1, "m": case["m"], "vt": "BMW_320i", "c": case["c"], "shape": case["shape"]})
        elif kind == "ct":
            w.p_op({"op": "p_new", "ppid": 1, "m": "KS", "vt": "BMW_320i", "c": "JB1", "shape": "KS"})
            w.s_op({"op": "s_new", "scen": "T", "q": [1]})
            w.s_op({"op": "s_ct", "ct": "posfloat"})
            w.s_op({"op": "s_ct", "ct": case["ct"]})
        elif kind == "random":
            rng = random.Random(case["seed"])
            for _ in range(case["len"]):
                w.run(_random_op(rng, w))
        else:
            for o in case["pool"]:
                w.p_op(dict(o, op="p_new"))
            if kind == "fs":
                w.s_op({"op": "s_new", "scen": "T", "q": [1]})
                w.sandbox()
            for a in case["ops"]:
                w.run(a)
    finally:
        w.close()
    return {"ev": w.ev}


def summarize(cases, traces):
    by = {}
    for tr in traces:
        for e in tr["ev"]:
            by[e["op"]] = by.get(e["op"], 0) + 1
    return {"events_by_op": by}


def corrupt(trace, rng):
    """Corrupt ONE logged field so that the contract must reject exactly that event: a vehicle id that does not follow
    from model and type, a benchmark id / id list that does not follow from the contained objects, a foreign file in the
    logged sandbox, a second reader answer that differs from the first, an impossible table answer."""
    elig = [i for i, e in enumerate(trace["ev"])
            if (e["op"].startswith("p_") and e.get("res") == "ok") or
            (e["op"] in ("s_new", "s_set", "s_scen", "s_obs") and e.get("res", "ok") == "ok") or
            e["op"] in ("w_dump", "w_write", "r_both", "st_type", "valid_vm", "r_bad", "enum", "sup_costs", "fields")]
    if not elig:
        return None
    e = trace["ev"][rng.choice(elig)]
    op = e["op"]
    if op.startswith("p_"):
        e["obs"]["vid"] = e["obs"]["vid"] + "9"
    elif op.startswith("s_"):
        e["view"]["ppids"] = e["view"]["ppids"] + [424242]
    elif op == "w_dump":
        e["doc"]["bid"] = e["doc"]["bid"] + "x"
        e["res"] = "ok"
    elif op == "w_write":
        e["files"] = e["files"] + [{"n": "zzz/corrupt.xml", "k": "garbage", "bid": "", "tr": []}]
    elif op == "r_both":
        e["b"] = dict(e["b"], res="exc:Corrupted")
    elif op == "st_type":
        e["res"] = "exc:Corrupted"
    elif op == "valid_vm":
        e["res"] = 1 - e["res"]
    elif op == "r_bad":
        e["b"] = "exc:Corrupted"
    elif op == "enum":
        e["members"] = e["members"][:-1]
    elif op == "sup_costs":
        e["costs"] = e["costs"][:-1]
    else:
        e["fields"] = e["fields"][:-1]
    return trace
