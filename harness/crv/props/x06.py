"""X06 (extended coverage) - the attribute algebra of the State classes and validity.py (spec: StateAlgebra.tla).

commonroad/scenario/state.py beyond equality / hash (C12) and translate_rotate (C05): for every concrete class the
declared attributes, `attributes`, `used_attributes`, `has_value`, `is_uncertain_position/orientation`,
`fill_with_defaults`, `convert_state_to_state`, CustomState.add_attribute / set_value / setattr, str(), __array__, the
derived properties PMState.orientation and ExtendedPMState.velocity_y on an exact grid, which state lists a Trajectory
accepts, SignalState (slots) and MetaInformationState (dict setters); commonroad/common/validity.py over a token
universe of inputs (python / numpy scalars of several types, nan, inf, strings, None, lists, arrays of the wrong
shape / dtype)."""
import json
import math
import random
import re

from crv import graph, tlc
from crv.core import use_repo

PROPERTY = "X06"
MODULES = ["StateAlgebra", "MC_StateAlgebra", "Trace_StateAlgebra"]
TRACE = ("Trace_StateAlgebra", "Trace_StateAlgebra.cfg")
EXHAUSTIVE = True
RULE = ("TLC explores the implementation-shaped model exhaustively: the state-object machine (new / setattr / "
        "add_attribute / set_value / fill_with_defaults / convert_state_to_state + 6 queries) over 5 classes (7 in the "
        "thorough tier) with 2-4 values per attribute, SignalState and MetaInformationState machines, and the value-like "
        "domains (Pythagorean directions up to 12 (24), trajectory state lists up to length 2 over 36 state "
        "descriptors, every predicate of validity.py over ~230 input tokens x bounds / lengths); it checks that the "
        "contract accepts every step plus the laws of the contract operators (fill idempotent and never overwriting, "
        "conversion idempotent / composable / round trips through richer classes, sign predicates exclusive, interval "
        "monotone, polyline => vertices) and dumps the labelled state graph and the cases. A transition cover of the "
        "graph (every edge once, walks from the absent object) and every case are executed on the real classes / "
        "functions, plus seeded random histories and inputs beyond TLC's bounds (all 14 state classes incl. MBState, "
        "values up to 1000, random vectors / matrices / bounds). TLC validates every logged call against "
        "StateAlgebra.tla. distinct_nontrivial = distinct walks / batches of TLC cases / random seeds.")
ASSUMPTIONS = ["contract read from docstrings, type annotations, assert messages and the library's unit tests; where they "
               "are silent both behaviours are accepted in the spec (order of the attribute list, CustomState without "
               "time_step, add_attribute of an existing attribute, setattr of a derived property or undeclared name on a "
               "dataclass state, has_value of a derived property or a method name, a plain Interval as orientation, "
               "conversion deriving heading / lateral velocity or writing None over a preset target value, __array__ of "
               "states with unset / uncertain values, booleans / Fractions / nan / inf / 0-d arrays as numbers, lists "
               "where arrays are expected, empty vectors, object / boolean arrays, nan / inf / boolean interval bounds)",
               "values live on exact grids: attribute values are integers stored as float / int, positions integer "
               "points, directions with integral norm, validity inputs n/4 and n*pi/4 moved by at most one floating "
               "point neighbour; the driver only tokenises (classifies a float against the grid within 1e-9)",
               "a predicate of validity.py that raises anything but its documented AssertionError (invalid bound / "
               "length argument) is reported (clause X06.Total): the functions are documented as returning True / False"]


# ---- design-level half -------------------------------------------------------------------------------

def model_check(ctx):
    ctx.mc("MC_StateAlgebra", "MC_StateAlgebra_t.cfg" if ctx.thorough else "MC_StateAlgebra.cfg", coverage=True,
           timeout=3000)
    # deviation constants: two conceivable defects and the six shipped behaviours reported as findings
    for i, name in ((1, "PropStateRefines"), (2, "PropStateRefines"), (3, "PropStateRefines"),
                    (4, "InvValidityRefines"), (5, "InvValidityRefines"), (6, "InvValidityRefines"),
                    (7, "InvValidityRefines"), (8, "PropStateRefines")):
        ctx.mc_expect("MC_StateAlgebra", "DEV_StateAlgebra_%d.cfg" % i, name, workers=1)


_ARG_KEYS = ("op", "cls", "kw", "n", "v", "tcls", "pre")
_DOMS = {"so": "", "sg": "", "mi": ""}


def cases(ctx):
    cfg = "GEN_StateAlgebra_t.cfg" if ctx.thorough else "GEN_StateAlgebra.cfg"
    r = tlc.run_tlc("MC_StateAlgebra", cfg, "x06_gen", workers=1, timeout=3000)
    if not r["ok"]:
        raise tlc.MachineryError("GEN failed: " + r["out"][-2000:])
    g = graph.parse_edges(tlc.tla_unquote(p) for p in tlc.printed_tuples(r["out"], "EDGE"))
    cs = []
    n_edges = sum(len(v) for v in g.values())
    n_walks = 0
    for d in _DOMS:
        sub = {k: v for k, v in g.items() if json.loads(k)["d"] == d}
        init = json.dumps({"d": d, "cls": "", "at": []}, sort_keys=True)
        if init not in sub:
            raise tlc.MachineryError("initial state of domain %s not in the dumped graph" % d)
        for w in graph.cover_walks(sub, init, max_len=40, rng=ctx.rng):
            cs.append({"src": "walk", "kind": d, "ops": [{k: a[k] for k in _ARG_KEYS if k in a} for a in w]})
            n_walks += 1
    by_dom = {"dv": [], "tj": [], "vd": []}
    for p in tlc.printed_tuples(r["out"], "CASE"):
        c = json.loads(tlc.tla_unquote(p))
        by_dom[c["dom"]].append(c["c"])
    n_cases = {k: len(v) for k, v in by_dom.items()}
    if not all(n_cases.values()) or not n_walks:
        raise tlc.MachineryError("GEN produced no cases: %r\n%s" % (n_cases, r["out"][-2000:]))
    for d, items in by_dom.items():
        for i in range(0, len(items), 40):
            cs.append({"src": "tlc", "kind": d, "items": items[i:i + 40]})
    ctx.mc_runs.append({"module": "MC_StateAlgebra", "cfg": cfg, "distinct_states": r["distinct"],
                        "states_generated": r["generated"], "depth": r["depth"], "wall_s": r["wall_s"],
                        "verdict": "dumped %d labelled edges -> %d covering walks; cases: %r" % (n_edges, n_walks, n_cases)})
    ctx.extra["graph_edges"] = n_edges
    ctx.extra["tlc_cases"] = n_cases
    rng = ctx.rng
    n = 1500 if ctx.thorough else 250
    for _ in range(n):
        cs.append({"src": "random", "kind": "so", "seed": rng.randrange(1 << 30), "len": rng.randint(10, 40)})
    for k in ("sg", "mi", "dv", "tj", "vd"):
        for _ in range(n // 5 if k in ("sg", "mi") else n // 2):
            cs.append({"src": "random", "kind": k, "seed": rng.randrange(1 << 30), "len": rng.randint(10, 40)})
    return cs


def nontrivial(case):
    if case["src"] == "walk":
        return json.dumps(case["ops"], sort_keys=True)
    if case["src"] == "tlc":
        return json.dumps(case["items"], sort_keys=True)
    return (case["kind"], case["seed"])


# ---- the class table as the LIBRARY declares it (used to build inputs, never to judge) -----------------

_CLASSES = ["InitialState", "PMState", "ExtendedPMState", "KSState", "KSTState", "STState", "STDState", "MBState",
            "LongitudinalState", "LateralState", "InputState", "PMInputState", "LKSInputState", "CustomState"]
_CUSTOM_NAMES = ["time_step", "velocity", "hitch", "position", "orientation", "velocity_y", "slip_angle", "my_attr"]
_MEMBERS = ["attributes", "used_attributes", "has_value", "draw", "fill_with_defaults", "translate_rotate"]
_HEADINGS = {}


def _cls(name):
    import commonroad.scenario.state as S
    return getattr(S, name)


def _headings():
    if not _HEADINGS:
        for a in range(-13, 14):
            for b in range(-13, 14):
                if (a, b) != (0, 0) and math.gcd(a, b) == 1:
                    _HEADINGS[(a, b)] = math.atan2(b, a)
    return _HEADINGS


def _nearint(x):
    return abs(x - round(x)) <= 1e-9 and abs(x) < 2 ** 30


def _val(tok):
    """value token -> python value (gamma)"""
    import numpy as np
    from commonroad.common.util import AngleInterval, Interval
    from commonroad.geometry.shape import Rectangle
    k, a = tok["k"], tok["a"]
    if k == "N":
        return None
    if k == "f":
        return float(a[0])
    if k == "i":
        return int(a[0])
    if k == "b":
        return bool(a[0])
    if k == "P":
        return np.array([float(a[0]), float(a[1])])
    if k == "R":
        return Rectangle(float(a[0]), float(a[1]), np.array([float(a[2]), float(a[3])]))
    if k == "I":
        return Interval(float(a[0]), float(a[1]))
    if k == "A":
        return AngleInterval(float(a[0]), float(a[1]))
    if k == "D":
        return {"id": int(a[0])}
    if k == "?":
        return ["no", "dict"]
    raise tlc.MachineryError("unknown value token %r" % (tok,))


def _tok(v):
    """python value -> value token (projection; floats are classified against the integer grid within 1e-9)"""
    import numpy as np
    from commonroad.common.util import AngleInterval, Interval
    from commonroad.geometry.shape import Rectangle
    if v is None:
        return {"k": "N", "a": []}
    if isinstance(v, (bool, np.bool_)):
        return {"k": "b", "a": [int(v)]}
    if type(v) is int:
        return {"k": "i", "a": [v]} if abs(v) < 2 ** 30 else {"k": "?", "a": []}
    if type(v) is float:
        if _nearint(v):
            return {"k": "f", "a": [int(round(v))]}
        for (a, b), h in _headings().items():
            if abs(v - h) <= 1e-9:
                return {"k": "H", "a": [a, b]}
        return {"k": "?", "a": []}
    if isinstance(v, np.ndarray) and v.shape == (2,) and v.dtype.kind == "f" and all(_nearint(float(x)) for x in v):
        return {"k": "P", "a": [int(round(float(v[0]))), int(round(float(v[1])))]}
    if isinstance(v, Rectangle):
        q = [v.length, v.width, v.center[0], v.center[1]]
        if all(_nearint(float(x)) for x in q):
            return {"k": "R", "a": [int(round(float(x))) for x in q]}
    if isinstance(v, Interval) and _nearint(float(v.start)) and _nearint(float(v.end)):
        return {"k": "A" if isinstance(v, AngleInterval) else "I", "a": [int(round(v.start)), int(round(v.end))]}
    if isinstance(v, dict) and set(v) == {"id"} and type(v["id"]) is int:
        return {"k": "D", "a": [v["id"]]}
    return {"k": "?", "a": []}


def _snap(obj):
    return [{"n": n, "v": _tok(v)} for n, v in vars(obj).items()] if obj is not None else []


def _kw(kw):
    return {a["n"]: _val(a["v"]) for a in kw}


def _exc(ex):
    return "exc:" + type(ex).__name__


# ---- the state object machine -----------------------------------------------------------------------------

def _so_op(obj, a):
    import dataclasses
    import numpy as np
    op = a["op"]
    e = {"op": op}
    cname = type(obj).__name__ if obj is not None else ""
    declared = [f.name for f in dataclasses.fields(obj)] if obj is not None else []
    if op == "new":
        kw = a["kw"]
        names = [x["n"] for x in kw]
        e.update(cls=a["cls"], kw=kw)
        if a["cls"] == "CustomState":
            shape = "custom;" + ("empty" if not kw else ("no-time_step" if "time_step" not in names else "time_step+%s" %
                                                        ("others" if len(kw) > 1 else "nothing")))
        else:
            known = {f.name for f in dataclasses.fields(_cls(a["cls"]))}
            shape = "dataclass;" + ("declared" if set(names) <= known else "undeclared")
        e["sig"] = "new[%s]" % shape
        try:
            obj = _cls(a["cls"])(**_kw(kw))
            e["res"] = "ok"
        except Exception as ex:
            obj, e["res"] = None, _exc(ex)
    elif op == "set":
        e.update(n=a["n"], v=a["v"])
        kind = "custom" if cname == "CustomState" else ("attribute" if a["n"] in vars(obj) else (
            "derived-property" if isinstance(getattr(type(obj), a["n"], None), property) else "undeclared"))
        e["sig"] = "setattr[%s]" % kind
        try:
            setattr(obj, a["n"], _val(a["v"]))
            e["res"] = "ok"
        except Exception as ex:
            e["res"] = _exc(ex)
    elif op == "add_attr":
        e.update(n=a["n"], sig="add_attribute[%s]" % ("existing" if a["n"] in vars(obj) else "new"))
        try:
            obj.add_attribute(a["n"])
            e["res"] = "ok"
        except Exception as ex:
            e["res"] = _exc(ex)
    elif op == "set_value":
        e.update(n=a["n"], v=a["v"], sig="set_value[%s]" % ("attribute" if a["n"] in vars(obj) else "unknown"))
        try:
            obj.set_value(a["n"], _val(a["v"]))
            e["res"] = "ok"
        except Exception as ex:
            e["res"] = _exc(ex)
    elif op == "fill":
        ts = vars(obj).get("time_step", "absent")
        e["sig"] = "fill_with_defaults[time_step %s]" % ("absent" if isinstance(ts, str) else ("unset" if ts is None else "set"))
        try:
            obj.fill_with_defaults()
            e["res"] = "ok"
        except Exception as ex:
            e["res"] = _exc(ex)
    elif op == "conv":
        e.update(tcls=a["tcls"], pre=a["pre"], src=[],
                 sig="convert[%s->dataclass%s]" % ("custom" if cname == "CustomState" else "dataclass",
                                                  ";preset target" if a["pre"] else ""))
        try:
            target = _cls(a["tcls"])(**_kw(a["pre"]))
            r = obj.convert_state_to_state(target)
            e["res"] = "ok"
            e["src"] = _snap(obj)
            obj = r
        except Exception as ex:
            e["res"] = _exc(ex)
            e["src"] = _snap(obj)
    elif op == "attrs":
        e.update(attrs=[], used=[], sig="attributes")
        try:
            e["attrs"], e["used"] = [str(x) for x in obj.attributes], [str(x) for x in obj.used_attributes]
            e["res"] = "ok"
        except Exception as ex:
            e["res"] = _exc(ex)
    elif op == "has":
        n = a["n"]
        kind = "attribute" if n in vars(obj) else ("derived-property" if isinstance(getattr(type(obj), n, None), property)
                                                   and n not in _MEMBERS else ("member" if n in _MEMBERS else "unknown"))
        e.update(n=n, val=0, sig="has_value[%s]" % kind)
        try:
            e["val"] = 1 if obj.has_value(n) else 0
            e["res"] = "ok"
        except Exception as ex:
            e["res"] = _exc(ex)
    elif op == "unc":
        e.update(up=0, uo=0, sig="is_uncertain")
        try:
            e["up"], e["uo"] = (1 if obj.is_uncertain_position else 0), (1 if obj.is_uncertain_orientation else 0)
            e["res"] = "ok"
        except Exception as ex:
            e["res"] = _exc(ex)
    elif op == "derived":
        e.update(n=a["n"], sig="derived[%s.%s]" % (cname, a["n"]))
        e["def"] = 0
        try:
            e["def"] = 0 if getattr(obj, a["n"]) is None else 1
            e["res"] = "ok"
        except Exception as ex:
            e["res"] = _exc(ex)
    elif op == "str":
        e.update(hascls=0, listed=[], sig="str[%s]" % ("custom" if cname == "CustomState" else "dataclass"))
        try:
            s = str(obj)
            e["hascls"] = 1 if cname in s else 0
            cand = sorted(set(vars(obj)) | set(declared) | set(_CUSTOM_NAMES) | {"foo"})
            e["listed"] = [n for n in cand if re.search(r"(?<![\w.])%s=" % re.escape(n), s)]
            e["res"] = "ok"
        except Exception as ex:
            e["res"] = _exc(ex)
    elif op == "array":
        e.update(vals=[], sig="__array__")
        try:
            arr = np.array(obj)
            vals = [float(x) for x in arr.tolist()] if arr.dtype.kind in "fiu" and arr.ndim == 1 else None
            if vals is None or not all(_nearint(x) for x in vals):
                e["res"] = "ok:opaque"
            else:
                e["vals"], e["res"] = [int(round(x)) for x in vals], "ok"
        except Exception as ex:
            e["res"] = _exc(ex)
    else:
        raise tlc.MachineryError("unknown op " + op)
    e["post"] = _snap(obj)
    return obj, e


def _rand_val(rng, name):
    r = rng.random()
    if r < 0.2:
        return {"k": "N", "a": []}
    if name == "position":
        return {"k": "P", "a": [rng.randint(-1000, 1000), rng.randint(-1000, 1000)]} if r < 0.75 else \
            {"k": "R", "a": [rng.randint(1, 9), rng.randint(1, 9), rng.randint(-50, 50), rng.randint(-50, 50)]}
    if name == "time_step":
        return {"k": "i", "a": [rng.randint(0, 1000)]} if r < 0.85 else {"k": "I", "a": [rng.randint(0, 5), rng.randint(5, 9)]}
    if name == "orientation" and r > 0.8:
        return {"k": "A", "a": [rng.randint(-3, 0), rng.randint(0, 3)]} if r < 0.93 else {"k": "I", "a": [0, 1]}
    if r > 0.9 and name not in ("orientation",):
        return {"k": "I", "a": [rng.randint(-9, 0), rng.randint(0, 9)]}
    return {"k": "f", "a": [rng.randint(-1000, 1000)]} if rng.random() < 0.9 else {"k": "i", "a": [rng.randint(-9, 9)]}


def _so_random_op(rng, obj):
    import dataclasses
    if obj is None:
        c = rng.choice(_CLASSES)
        if c == "CustomState":
            names = rng.sample(_CUSTOM_NAMES[1:], rng.randint(0, 4))
            if rng.random() < 0.85:
                names = ["time_step"] + names
            rng.shuffle(names)
            return {"op": "new", "cls": c, "kw": [{"n": n, "v": _rand_val(rng, n)} for n in names]}
        fs = [f.name for f in dataclasses.fields(_cls(c))]
        names = rng.sample(fs, rng.randint(0, min(len(fs), 6)))
        if rng.random() < 0.08:
            names.append("bogus")
        return {"op": "new", "cls": c, "kw": [{"n": n, "v": _rand_val(rng, n)} for n in names]}
    cname = type(obj).__name__
    present = list(vars(obj))
    props = [n for n in ("orientation", "velocity_y") if isinstance(getattr(type(obj), n, None), property)]
    pool = present + props + ["foo", "nonexistent"] + rng.sample(_CUSTOM_NAMES, 2)
    ops = ["set"] * 6 + ["fill"] + ["conv"] * 3 + ["attrs", "unc", "str", "array"] + ["has"] * 4
    if cname == "CustomState":
        ops += ["add_attr"] * 3 + ["set_value"] * 4
    if props:
        ops += ["derived"] * 2
    op = rng.choice(ops)
    if op in ("set", "set_value"):
        n = rng.choice(pool)
        return {"op": op, "n": n, "v": _rand_val(rng, n)}
    if op == "add_attr":
        return {"op": op, "n": rng.choice(pool)}
    if op == "has":
        return {"op": op, "n": rng.choice(pool + _MEMBERS[:4])}
    if op == "derived":
        return {"op": op, "n": rng.choice(props)}
    if op == "conv":
        t = rng.choice(_CLASSES[:-1])
        fs = [f.name for f in dataclasses.fields(_cls(t))]
        pre = [{"n": n, "v": _rand_val(rng, n)} for n in rng.sample(fs, rng.randint(0, 2))] if rng.random() < 0.4 else []
        return {"op": op, "tcls": t, "pre": pre}
    return {"op": op}


def _run_so(case):
    ev, obj = [], None
    rng = random.Random(case["seed"]) if case["src"] == "random" else None
    n = case["len"] if rng else len(case["ops"])
    for k in range(n):
        a = _so_random_op(rng, obj) if rng else case["ops"][k]
        if obj is None and a["op"] != "new":
            continue
        if a["op"] in ("add_attr", "set_value") and type(obj).__name__ != "CustomState":
            continue
        obj, e = _so_op(None if a["op"] == "new" else obj, a)
        ev.append(e)
    return ev


# ---- SignalState / MetaInformationState --------------------------------------------------------------------

_SLOTS = ["horn", "indicator_left", "indicator_right", "braking_lights", "hazard_warning_lights",
          "flashing_blue_lights", "time_step"]
_META = ["meta_data_str", "meta_data_int", "meta_data_float", "meta_data_bool"]


def _gsnap(obj):
    return [{"n": n, "v": _tok(getattr(obj, n))} for n in _SLOTS if hasattr(obj, n)] if obj is not None else []


def _msnap(obj):
    return [{"n": n, "v": _tok(getattr(obj, n))} for n in _META] if obj is not None else []


def _aux_op(obj, a):
    from commonroad.scenario.state import MetaInformationState, SignalState
    op = a["op"]
    e = {"op": op}
    try:
        if op == "g_new":
            e.update(kw=a["kw"], sig="SignalState[%s]" % ("slots" if all(x["n"] in _SLOTS for x in a["kw"]) else "unknown element"))
            obj = None
            obj = SignalState(**_kw(a["kw"]))
        elif op == "g_set":
            e.update(n=a["n"], v=a["v"], sig="SignalState.set[%s]" % ("slot" if a["n"] in _SLOTS else "unknown element"))
            setattr(obj, a["n"], _val(a["v"]))
        elif op == "g_get":
            e.update(n=a["n"], v={"k": "N", "a": []}, sig="SignalState.get[%s]" % ("set" if hasattr(obj, a["n"]) else "unset"))
            e["v"] = _tok(getattr(obj, a["n"]))
        elif op == "m_new":
            e.update(kw=a["kw"], sig="MetaInformationState()")
            obj = None
            obj = MetaInformationState(**_kw(a["kw"]))
        elif op == "m_set":
            e.update(n=a["n"], v=a["v"], sig="MetaInformationState.set[%s]" % ("dict" if a["v"]["k"] == "D" else "no dict"))
            setattr(obj, a["n"], _val(a["v"]))
        else:
            raise tlc.MachineryError("unknown op " + op)
        e["res"] = "ok"
    except tlc.MachineryError:
        raise
    except Exception as ex:
        e["res"] = _exc(ex)
    e["post"] = _gsnap(obj) if op.startswith("g_") else _msnap(obj)
    return obj, e


def _aux_random_op(rng, obj, kind):
    if kind == "sg":
        names = _SLOTS + ["foo", "siren"]
        val = lambda n: {"k": "i", "a": [rng.randint(0, 99)]} if n == "time_step" else {"k": "b", "a": [rng.randint(0, 1)]}
        if obj is None:
            ns = rng.sample(_SLOTS, rng.randint(0, 7)) + (["siren"] if rng.random() < 0.15 else [])
            return {"op": "g_new", "kw": [{"n": n, "v": val(n)} for n in ns]}
        n = rng.choice(names)
        return {"op": "g_set", "n": n, "v": val(n)} if rng.random() < 0.5 else {"op": "g_get", "n": n}
    val = lambda: rng.choice([{"k": "D", "a": [rng.randint(0, 99)]}] * 3 + [{"k": "N", "a": []}, {"k": "?", "a": []}])
    if obj is None:
        return {"op": "m_new", "kw": [{"n": n, "v": val()} for n in rng.sample(_META, rng.randint(0, 4))]}
    return {"op": "m_set", "n": rng.choice(_META), "v": val()}


def _run_aux(case):
    ev, obj = [], None
    rng = random.Random(case["seed"]) if case["src"] == "random" else None
    n = case["len"] if rng else len(case["ops"])
    for k in range(n):
        a = _aux_random_op(rng, obj, case["kind"]) if rng else case["ops"][k]
        if obj is None and a["op"] not in ("g_new", "m_new"):
            continue
        obj, e = _aux_op(obj, a)
        ev.append(e)
    return ev


# ---- derived properties on the exact grid ---------------------------------------------------------------

def _proj(x):
    return (int(round(x)), 1) if _nearint(x) else (0, 0)


def _dv_event(c, K):
    from commonroad import TWO_PI
    from commonroad.scenario.state import ExtendedPMState, PMState
    if c["kind"] == "pm":
        e = {"op": "d_pm", "vx": c["x"], "vy": c["y"], "K": K, "ck": 0, "sk": 0, "exact": 0, "valid": 0,
             "sig": "PMState.orientation[%s]" % ("zero velocity" if c["x"] == 0 == c["y"] else
                                                 ("axis" if 0 in (c["x"], c["y"]) else "oblique"))}
        try:
            o = PMState(time_step=0, velocity=float(c["x"]), velocity_y=float(c["y"])).orientation
            (e["ck"], a), (e["sk"], b) = _proj(K * math.cos(o)), _proj(K * math.sin(o))
            e["exact"], e["valid"] = a * b, 1 if -TWO_PI <= o <= TWO_PI else 0
            e["res"] = "ok"
        except Exception as ex:
            e["res"] = _exc(ex)
        return e
    e = {"op": "d_epm", "v": c["v"], "dx": c["x"], "dy": c["y"], "K": K, "vyK": 0, "exact": 0,
         "sig": "ExtendedPMState.velocity_y[%s]" % ("axis" if 0 in (c["x"], c["y"]) else "oblique")}
    try:
        s = ExtendedPMState(time_step=0, velocity=float(c["v"]), orientation=math.atan2(c["y"], c["x"]))
        e["vyK"], e["exact"] = _proj(K * s.velocity_y)
        e["res"] = "ok"
    except Exception as ex:
        e["res"] = _exc(ex)
    return e


_TRIPLES = [(3, 4, 5), (5, 12, 13), (8, 15, 17), (7, 24, 25), (20, 21, 29), (9, 40, 41), (1, 0, 1), (12, 35, 37)]


def _run_dv(case):
    if case["src"] == "tlc":
        return [_dv_event(c, 65) for c in case["items"]]
    rng = random.Random(case["seed"])
    ev = []
    for _ in range(case["len"]):
        a, b, n = rng.choice(_TRIPLES)
        m = rng.randint(1, 30)
        if rng.random() < 0.5:
            a, b = b, a
        x, y = a * m * rng.choice([-1, 1]), b * m * rng.choice([-1, 1])
        ev.append(_dv_event({"kind": rng.choice(["pm", "epm"]), "x": x, "y": y, "v": rng.randint(-40, 40)},
                            n * m * rng.choice([1, 2, 10])))
    return ev


# ---- which state lists a Trajectory accepts ---------------------------------------------------------------

def _build(d):
    import numpy as np
    from commonroad.scenario.state import SignalState
    if d["cls"] == "SignalState":
        return SignalState(time_step=_val(d["ts"]), horn=True)
    if d["cls"] == "dict":
        return {"time_step": _val(d["ts"])}
    kw = {n: (np.array([1.0, 2.0]) if n == "position" else 1.0) for n in d["used"]}
    return _cls(d["cls"])(time_step=_val(d["ts"]), **kw)


def _tj_event(c):
    from commonroad.scenario.trajectory import Trajectory
    classes = sorted({d["cls"] for d in c["ds"]})
    if c["kind"] == "new":
        e = {"op": "tj_new", "t0": c["t0"], "ds": c["ds"],
             "sig": "Trajectory[%s]" % ("empty" if not c["ds"] else ("one class" if len(classes) == 1 else "mixed classes"))}
        try:
            Trajectory(int(c["t0"]), [_build(d) for d in c["ds"]])
            e["res"] = "ok"
        except Exception as ex:
            e["res"] = _exc(ex)
        return e
    e = {"op": "tj_append", "ds": c["ds"], "d": c["d"],
         "sig": "append_state[%s]" % ("same class" if c["d"]["cls"] in classes else "other class")}
    try:
        tr = Trajectory(int(c["ds"][0]["ts"]["a"][0]), [_build(d) for d in c["ds"]])
    except Exception as ex:      # the base list is valid: log the rejected constructor call instead (the spec judges it)
        return {"op": "tj_new", "t0": int(c["ds"][0]["ts"]["a"][0]), "ds": c["ds"], "res": _exc(ex),
                "sig": "Trajectory[base of an append case]"}
    try:
        tr.append_state(_build(c["d"]))
        e["res"] = "ok"
    except Exception as ex:
        e["res"] = _exc(ex)
    return e


def _rand_desc(rng, t, used_pool):
    import dataclasses
    r = rng.random()
    cls = rng.choice(_CLASSES) if r < 0.9 else rng.choice(["SignalState", "dict"])
    if cls == "CustomState" or cls in ("SignalState", "dict"):
        fs = _CUSTOM_NAMES[1:]
    else:
        fs = [f.name for f in dataclasses.fields(_cls(cls))][1:]
    used = [n for n in used_pool if n in fs] if rng.random() < 0.8 else rng.sample(fs, rng.randint(0, min(3, len(fs))))
    q = rng.random()
    ts = {"k": "i", "a": [t]} if q < 0.8 else rng.choice([{"k": "f", "a": [t]}, {"k": "N", "a": []}, {"k": "I", "a": [t, t + 1]},
                                                      {"k": "i", "a": [-t - 1]}, {"k": "i", "a": [t + 1]}])
    return {"cls": cls, "ts": ts, "used": used}


def _run_tj(case):
    if case["src"] == "tlc":
        return [_tj_event(c) for c in case["items"]]
    rng = random.Random(case["seed"])
    ev = []
    for _ in range(case["len"]):
        pool = rng.sample(["position", "velocity", "orientation", "acceleration"], rng.randint(0, 3))
        t0 = rng.choice([0, 1, 7, rng.randint(0, 10 ** 5)])
        ds = [_rand_desc(rng, t0 + i, pool) for i in range(rng.randint(0, 5))]
        ev.append(_tj_event({"kind": "new", "t0": t0 if rng.random() < 0.9 else t0 + 1, "ds": ds}))
        if ev[-1]["res"] == "ok" and ds and all(d["ts"]["k"] == "i" for d in ds):
            d = _rand_desc(rng, t0 + len(ds) + rng.choice([0, 0, 0, -1, -len(ds), 1]), pool)
            ev.append(_tj_event({"kind": "append", "ds": ds, "d": d}))
    return ev


# ---- validity.py ---------------------------------------------------------------------------------------------

def _num(g, n, u):
    import numpy as np
    if g == 2:
        return float("nan") if n == 0 else (float("inf") if n > 0 else float("-inf"))
    if g == 0:
        return n / 4.0
    x = n * math.pi / 4.0
    for _ in range(abs(u)):
        x = float(np.nextafter(x, math.inf if u > 0 else -math.inf))
    return x


def _input(x):
    """input token -> python object (gamma)"""
    import fractions
    import numpy as np
    t = x["t"]
    if t == "s":
        k, v = x["k"], _num(x["g"], x["n"], x["u"])
        if k in ("int", "np.int64", "np.int32", "np.uint8", "bool", "np.bool_"):
            if x["g"] != 0 or x["n"] % 4:
                raise tlc.MachineryError("integral kind with a non-integral value: %r" % (x,))
            i = x["n"] // 4
            return {"int": int, "np.int64": np.int64, "np.int32": np.int32, "np.uint8": np.uint8, "bool": bool,
                    "np.bool_": np.bool_}[k](i)
        if k == "float":
            return v
        if k in ("np.float64", "np.float32"):
            return getattr(np, k[3:])(v)
        if k == "Fraction":
            return fractions.Fraction(x["n"], 4)
        if k == "complex":
            return complex(v, 1.0)
        if k == "np.complex128":
            return np.complex128(complex(v, 1.0))
        raise tlc.MachineryError("unknown scalar kind %r" % (x,))
    if t == "x":
        return {"str": "1.0", "None": None, "dict": {}}[x["k"]]
    if t == "v":
        vals = [_num(*el) for el in x["e"]]
        if x["k"] == "list":
            return vals
        if x["k"] == "tuple":
            return tuple(vals)
        d = x["d"]
        if d == "f8":
            return np.array(vals, dtype=float)
        if d == "f4":
            return np.array(vals, dtype=np.float32)
        if d in ("i8", "i4"):
            return np.array([int(v) for v in vals], dtype=np.int64 if d == "i8" else np.int32)
        if d == "b1":
            return np.array([bool(v) for v in vals], dtype=bool)
        if d == "O":
            return np.array([int(v) for v in vals] + [None], dtype=object)[:-1]
        return np.array([str(v) for v in vals], dtype=str)
    if t == "m":
        r, c, d = x["r"], x["c"], x["d"]
        rows = [[float(i * c + j + 1) for j in range(c)] for i in range(r)]
        if x["k"] == "list":
            return rows
        if d in ("f8", "f4"):
            m = np.array(rows, dtype=float if d == "f8" else np.float32).reshape(r, c)
            if x["nan"]:
                m[0, 0] = float("nan")
            return m
        if d in ("i8", "i4"):
            return np.array(rows, dtype=np.int64 if d == "i8" else np.int32).reshape(r, c)
        if d == "b1":
            return np.ones((r, c), dtype=bool)
        if d == "O":
            m = np.empty((r, c), dtype=object)
            for i in range(r):
                for j in range(c):
                    m[i, j] = i * c + j + 1
            return m
        return np.array([[str(v) for v in row] for row in rows], dtype=str).reshape(r, c)
    if t == "nd":
        return np.array(1.0) if x["dim"] == 0 else np.ones((2, 2, 2))
    raise tlc.MachineryError("unknown input token %r" % (x,))


def _xclass(x):
    t = x["t"]
    if t == "s":
        k = x["k"]
        fam = "integer scalar" if k in ("int", "np.int64", "np.int32", "np.uint8") else (
            "float scalar" if k in ("float", "np.float64", "np.float32") else ("boolean" if k in ("bool", "np.bool_") else k))
        return fam + ({0: ";nan", 1: ";inf", -1: ";-inf"}[x["n"]] if x["g"] == 2 else "")
    if t == "x":
        return x["k"]
    if t == "v":
        return "%s;%s;%s" % (x["k"], x["d"], "empty" if not x["e"] else "1-D")
    if t == "m":
        return "%s;%s;2-D" % (x["k"], x["d"])
    return "%d-D array" % x["dim"]


def _vd_event(c):
    import commonroad.common.validity as V
    fn = c["fn"]
    e = {"op": "v", "fn": fn, "x": c["x"], "lo": c["lo"], "hi": c["hi"], "len": c["len"],
         "sig": "%s[%s]" % (fn, _xclass(c["x"]))}
    x = _input(c["x"])
    try:
        if fn in ("is_in_interval", "is_valid_velocity", "is_valid_acceleration"):
            r = getattr(V, fn)(x, _input(c["lo"]), _input(c["hi"]))
        elif fn in ("is_real_number_vector", "is_list_of_numbers", "is_valid_polyline", "is_valid_array_of_vertices",
                    "is_valid_list_of_vertices"):
            r = getattr(V, fn)(x, None if c["len"] == -1 else c["len"])
        else:
            r = getattr(V, fn)(x)
        import numpy as np
        e["res"] = ("T" if r else "F") if isinstance(r, (bool, np.bool_)) else "X"
    except AssertionError:
        e["res"] = "A"
    except Exception:
        e["res"] = "X"
    return e


def _vt_event():
    from commonroad.common.validity import ValidTypes

    def names(t):
        return [x.__name__ for x in (t if isinstance(t, tuple) else (t,))]
    return {"op": "vt", "sig": "ValidTypes", "types": {k: names(getattr(ValidTypes, k))
                                                        for k in ("NUMBERS", "INT_NUMBERS", "LISTS", "ARRAY")}}


_NONE_TOK = {"t": "x", "k": "None"}
_UNARY = ["is_real_number", "is_integer_number", "is_natural_number", "is_positive", "is_negative", "is_valid_length",
          "is_valid_orientation"]


def _rand_scalar(rng, bound=False):
    k = rng.choice(["int", "float", "float", "np.float64", "np.float32", "np.int64", "np.int32", "np.uint8"] +
                   ([] if bound else ["bool", "np.bool_", "Fraction", "complex", "np.complex128"]))
    if k in ("int", "np.int64", "np.int32"):
        # integer bounds stay non-negative: numpy >= 2 refuses to compare a negative python int with an unsigned scalar
        return {"t": "s", "k": k, "g": 0, "n": 4 * rng.randint(0 if bound else -10, 10), "u": 0}
    if k == "np.uint8":
        return {"t": "s", "k": k, "g": 0, "n": 4 * rng.randint(0, 10), "u": 0}
    if k in ("bool", "np.bool_"):
        return {"t": "s", "k": k, "g": 0, "n": 4 * rng.randint(0, 1), "u": 0}
    r = rng.random()
    if k in ("float", "np.float64") and r < 0.35:
        return {"t": "s", "k": k, "g": 1, "n": rng.choice([-9, -8, -8, -4, -1, 1, 4, 8, 8, 9]), "u": rng.randint(-1, 1)}
    if k in ("float", "np.float64", "np.float32") and r < 0.45 and not bound:
        return {"t": "s", "k": k, "g": 2, "n": rng.randint(-1, 1), "u": 0}
    return {"t": "s", "k": k, "g": 0, "n": rng.randint(-40, 40), "u": 0}


def _rand_el(rng):
    r = rng.random()
    if r < 0.7:
        return [0, rng.randint(-40, 40), 0]
    if r < 0.95:
        return [1, rng.choice([-9, -8, -4, 4, 8, 9]), rng.randint(-1, 1)]
    return [2, rng.randint(-1, 1), 0]


def _rand_input(rng):
    r = rng.random()
    if r < 0.4:
        return _rand_scalar(rng)
    if r < 0.47:
        return {"t": "x", "k": rng.choice(["str", "None", "dict"])}
    if r < 0.75:
        k = rng.choice(["array", "array", "array", "list", "tuple"])
        d = rng.choice(["f8", "f8", "f8", "f4", "i8", "i4", "b1", "O", "U"]) if k == "array" else "f8"
        e = [_rand_el(rng) for _ in range(rng.randint(0, 6))]
        if d != "f8":
            e = [[0, 4 * rng.randint(-9, 9), 0] for _ in e]
        if d == "f4":
            e = [[0, rng.randint(-40, 40), 0] for _ in e]
        return {"t": "v", "k": k, "d": d, "e": e}
    if r < 0.95:
        k = rng.choice(["array", "array", "list"])
        return {"t": "m", "k": k, "d": rng.choice(["f8", "f8", "f4", "i8", "i4", "b1", "O", "U"]) if k == "array" else "f8",
                "r": rng.randint(0, 6), "c": rng.randint(1, 5), "nan": 0}
    return {"t": "nd", "dim": rng.choice([0, 3])}


def _run_vd(case):
    if case["src"] == "tlc":
        return [_vd_event(c) for c in case["items"]] + [_vt_event()]
    rng = random.Random(case["seed"])
    ev = []
    for _ in range(case["len"]):
        r = rng.random()
        c = {"x": _rand_input(rng), "lo": _NONE_TOK, "hi": _NONE_TOK, "len": -1}
        if r < 0.35:
            c["fn"] = rng.choice(_UNARY)
        elif r < 0.5:
            c.update(fn=rng.choice(["is_real_number_vector", "is_list_of_numbers"]), len=rng.choice([-1, -1, 0, 1, 2, 3, 6]))
        elif r < 0.7:
            c.update(fn=rng.choice(["is_valid_polyline", "is_valid_array_of_vertices", "is_valid_list_of_vertices"]),
                     len=rng.choice([-1, -1, -1, 0, -2, 1, 2, 3, 6]))
            if rng.random() < 0.7 and c["x"]["t"] != "m":
                c["x"] = {"t": "m", "k": "array" if "list" not in c["fn"] else "list", "d": "f8", "r": rng.randint(0, 6),
                          "c": rng.randint(1, 4), "nan": 0}
        else:
            c["fn"] = rng.choice(["is_in_interval", "is_in_interval", "is_valid_velocity", "is_valid_acceleration"])
            for b in ("lo", "hi"):
                q = rng.random()
                c[b] = _NONE_TOK if q < 0.25 else ({"t": "x", "k": "str"} if q < 0.3 else _rand_scalar(rng, bound=True))
        if c["x"]["t"] == "m" and c["x"]["r"] == 0 and c["x"]["k"] == "list":
            c["x"]["r"] = 1
        ev.append(_vd_event(c))
    return ev


def execute(case):
    use_repo()
    k = case["kind"]
    if k == "so":
        return {"ev": _run_so(case)}
    if k in ("sg", "mi"):
        return {"ev": _run_aux(case)}
    if k == "dv":
        return {"ev": _run_dv(case)}
    if k == "tj":
        return {"ev": _run_tj(case)}
    return {"ev": _run_vd(case)}


def summarize(cases, traces):
    by = {}
    for tr in traces:
        for e in tr["ev"]:
            key = e["op"] if e["op"] != "v" else "v:" + e["fn"]
            by[key] = by.get(key, 0) + 1
    return {"events_by_op": by}


def corrupt(trace, rng):
    """Corrupt ONE logged field so that the contract must reject exactly that event: a foreign attribute in the logged
    contents after a call, a flipped acceptance verdict of Trajectory, a shifted projection of a derived heading, or a
    flipped answer of a unary validity predicate on an input that is no number at all."""
    elig = []
    for i, e in enumerate(trace["ev"]):
        op = e["op"]
        if op in ("set", "fill", "conv", "attrs", "has", "unc", "str", "set_value", "g_set", "g_get", "m_set", "m_new") \
                and e["res"] == "ok":
            elig.append(i)
        elif op in ("tj_new",) or (op in ("d_pm", "d_epm") and e["res"] == "ok" and (e.get("vx", 1), e.get("vy", 1)) != (0, 0)):
            elig.append(i)
        elif op == "v" and e["fn"] in _UNARY and e["x"]["t"] == "x" and e["res"] == "F":
            elig.append(i)
    if not elig:
        return None
    e = trace["ev"][rng.choice(elig)]
    op = e["op"]
    if "post" in e:
        e["post"] = e["post"] + [{"n": "zzz_foreign", "v": {"k": "f", "a": [1]}}]
    elif op == "tj_new":
        e["res"] = "exc:flipped" if e["res"] == "ok" else "ok"
    elif op == "d_pm":
        e["ck"] += 1
    elif op == "d_epm":
        e["vyK"] += 1
    else:
        e["res"] = "T"
    return trace
