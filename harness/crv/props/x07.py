"""X07 (extended coverage) - areas and scenario meta data (spec: AreasMeta.tla, MC_AreasMeta.tla).

(a) Area / AreaBorder in a LaneletNetwork and in a Scenario: add_area / remove_area / find_area_by_id / areas /
remove_lanelet / translate_rotate / create_from_lanelet_network / Scenario.add_objects / generate_object_id /
erase_lanelet_network as a state machine over the references Lanelet.adjacent_areas and AreaBorder.adjacent, plus the
validating setters of Area, AreaBorder and Lanelet.adjacent_areas.
(b) Scenario meta data: constructor / attribute assignment / convert_to_2d on two live Scenario objects (defaults per
object), the argument checks of the ScenarioID constructor, defaults and setters of GeoTransformation / Location /
Environment / Time, the enum tables."""
import inspect
import json
import random

from crv import graph, tlc
from crv.core import use_repo

PROPERTY = "X07"
MODULES = ["AreasMeta", "MC_AreasMeta", "Trace_AreasMeta"]
TRACE = ("Trace_AreasMeta", "Trace_AreasMeta.cfg")
EXHAUSTIVE = True
RULE = ("TLC explores the implementation-shaped model exhaustively: a lanelet network over 2 lanelets (3 in the thorough "
        "tier) and three area tokens on two ids (one id twice with different content), every public mutator / query as "
        "an action (add_lanelet, remove_lanelet, add_area with four lanelet_ids choices, remove_area, find_area_by_id, "
        "areas, create_from_lanelet_network for every subset of lanelets x cleanup_ids, translate_rotate with three rigid "
        "motions, Scenario.add_objects(network), add_objects(Area), generate_object_id, erase_lanelet_network); two "
        "Scenario objects with constructor / attribute assignment / convert_to_2d / str; 752 ScenarioID argument "
        "tuples; every row of the setter table; every (class, given-arguments) combination of the four holder classes. "
        "It checks that the contract accepts every step, the referential-integrity invariant and the laws of the "
        "contract operators, then dumps the labelled state graph of the SHIPPED behaviour with ill-formed inputs "
        "allowed; a transition cover of that graph (every edge once, walks from the empty network / no scenario) is "
        "executed on real LaneletNetwork / Scenario objects, the value-like cases on fresh objects, plus seeded random "
        "histories beyond TLC's bounds (8 lanelets, area ids up to 10^6, all plain attributes, random id numbers).  TLC "
        "validates every logged call against AreasMeta.tla.  distinct_nontrivial = distinct walks / value cases / seeds.")
ASSUMPTIONS = ["contract read from the docstrings, the messages of the argument asserts and scenario_tags.proto; where they "
               "are silent both behaviours are accepted (removing / finding an absent or negative id, an area no remaining "
               "lanelet refers to in a cut-out, border references in a cut-out with cleanup_ids=False, values of another "
               "type in plain attributes, bool / nan / inf / negative / zero dt, bool ids, one-point polylines, empty map "
               "name, empty prediction list, Time values outside the documented ranges, GeoTransformation arguments that "
               "are absent: None or the identity transformation)",
               "generate_object_id must avoid the ids of the areas that entered the scenario inside a LaneletNetwork handed "
               "to add_objects; areas added later through scenario.lanelet_network.add_area are outside the clause",
               "a cut-out of a network in which a remaining lanelet refers to an absent area may raise (ill-formed input)",
               "objects are identified by identity / content markers; positions are logged on the integer grid (rigid "
               "motions by integer vectors and quarter turns); the expected answer is computed by TLC from AreasMeta.tla"]

_NET_ARGS = ("op", "i", "aa0", "pos", "a", "bd0", "ids", "t", "keep", "cleanup")
_META_ARGS = ("op", "o", "given", "f", "tok")


# ---- design-level half -------------------------------------------------------------------------------

def model_check(ctx):
    ctx.mc("MC_AreasMeta", "MC_AreasMeta_t.cfg" if ctx.thorough else "MC_AreasMeta.cfg", coverage=True, timeout=1800)
    for k, name in ((1, "PropNetRefines"), (2, "PropNetRefines"), (3, "PropNetRefines"), (4, "PropNetRefines"),
                    (5, "PropNetRefines"), (6, "PropNetRefines"), (7, "PropMetaRefines"), (8, "InvSidImpl"),
                    (9, "InvSetterImpl"), (10, "InvNoDangling"), (11, "PropMetaIsolated")):
        ctx.mc_expect("MC_AreasMeta", "DEV_AreasMeta_%d.cfg" % k, name)


def cases(ctx):
    cs = []
    n_edges = 0
    for cfg in (("GEN_AreasMeta_t.cfg", "GEN_AreasMeta_t3.cfg") if ctx.thorough else ("GEN_AreasMeta.cfg",)):
        r = tlc.run_tlc("MC_AreasMeta", cfg, "x07_gen", workers=1, timeout=3000)
        if r["rc"] != 0 and "No error has been found" not in r["out"]:
            raise tlc.MachineryError("GEN failed: " + r["out"][-2000:])
        g = graph.parse_edges(tlc.tla_unquote(p) for p in tlc.printed_tuples(r["out"], "EDGE"))
        n_e = sum(len(v) for v in g.values())
        n_walks = 0
        for d in ("refs", "move", "scen", "meta"):
            sub = {k: v for k, v in g.items() if json.loads(k)["d"] == d}
            if not sub:
                continue
            inits = [k for k in sub if _is_init(json.loads(k))]
            if len(inits) != 1:
                raise tlc.MachineryError("initial state of domain %s not in the dumped graph" % d)
            keys = _META_ARGS if d == "meta" else _NET_ARGS
            for w in graph.cover_walks(sub, inits[0], max_len=30, rng=ctx.rng):
                cs.append({"src": "walk", "kind": "meta" if d == "meta" else "net", "dom": d,
                           "ops": [{k: a[k] for k in keys if k in a} for a in w]})
                n_walks += 1
        n_val = 0
        for p in tlc.printed_tuples(r["out"], "CASE"):
            c = json.loads(tlc.tla_unquote(p))
            c["src"] = "tlc"
            cs.append(c)
            n_val += 1
        if not n_walks or (not n_val and cfg != "GEN_AreasMeta_t3.cfg"):
            raise tlc.MachineryError("GEN produced no cases:\n" + r["out"][-2000:])
        ctx.mc_runs.append({"module": "MC_AreasMeta", "cfg": cfg, "distinct_states": r["distinct"],
                            "states_generated": r["generated"], "depth": r["depth"], "wall_s": r["wall_s"],
                            "verdict": "dumped %d labelled edges -> %d covering walks; %d value cases" % (n_e, n_walks, n_val)})
        n_edges += n_e
        del r, g
    ctx.extra["graph_edges"] = n_edges
    # seeded random cases beyond TLC's bounds
    rng = ctx.rng
    n = 1500 if ctx.thorough else 250
    for _ in range(n):
        cs.append({"src": "random", "kind": "net", "seed": rng.randrange(1 << 30), "len": rng.randint(15, 60)})
        cs.append({"src": "random", "kind": "meta", "seed": rng.randrange(1 << 30), "len": rng.randint(8, 30)})
    for _ in range(2 * n):
        cs.append(_random_sid(rng))
        cs.append(_random_holder(rng))
    return cs


def _is_init(k):
    if k["d"] == "meta":
        return k["A"]["live"] == 0 and k["B"]["live"] == 0 and k["df"] == 0
    return not k["L"] and not k["A"] and k["h"] == "net" and not k["g"] and k["mv"] == 0 and k["c"] == 0


def nontrivial(case):
    if case["src"] == "walk":
        return json.dumps(case["ops"], sort_keys=True)
    if case["src"] == "random" and "seed" in case:
        return (case["kind"], case["seed"])
    return json.dumps({k: v for k, v in case.items() if k != "src"}, sort_keys=True)


def _exc(ex):
    n = type(ex).__name__
    return n if n in ("ValueError", "KeyError", "AssertionError", "TypeError", "AttributeError") else "exc"


# ---- network with areas ----------------------------------------------------------------------------------

def _lanelet(i, aa0, pos):
    import numpy as np
    from commonroad.scenario.lanelet import Lanelet, LaneletType
    x, y = float(pos[0]), float(pos[1])
    types = list(LaneletType)
    kw = {"lanelet_type": {types[i % len(types)]}}
    if aa0:
        kw["adjacent_areas"] = set(int(a) for a in aa0)
    return Lanelet(np.array([[x, y + 1.0], [x + 5.0, y + 1.0]]), np.array([[x, y], [x + 5.0, y]]),
                   np.array([[x, y - 1.0], [x + 5.0, y - 1.0]]), int(i), **kw)


_TAGS = None


def _tag_types():
    global _TAGS
    if _TAGS is None:
        from commonroad.scenario.area import AreaType
        _TAGS = [{AreaType.PARKING}, {AreaType.BUS_STOP}, {AreaType.RESTRICTED, AreaType.BORDER}]
    return _TAGS


def _area(a, bd0, pos):
    """Area with two borders: the first lists every adjacent lanelet, the second the last one again (or None)."""
    import numpy as np
    from commonroad.scenario.area import Area, AreaBorder
    aid, tag = int(a[0]), int(a[1])
    x, y = float(pos[0]), float(pos[1])
    bd0 = [int(v) for v in bd0]
    b1 = AreaBorder(aid * 10 + 1, np.array([[x, y], [x + 2.0, y]]), list(bd0))
    b2 = AreaBorder(aid * 10 + 2, np.array([[x + 2.0, y], [x + 2.0, y + 2.0]]), bd0[-1:] if bd0 else None)
    return Area(aid, [b1, b2], set(_tag_types()[tag % 3]))


def _tag_of(area):
    for k, t in enumerate(_tag_types()):
        if area.area_types == t:
            return k
    return 9


def _grid(v):
    r = int(round(float(v)))
    return r, abs(float(v) - r) <= 1e-9


def _snapshot(net):
    exact = 1
    L = sorted(int(la.lanelet_id) for la in net.lanelets)
    A, aa, bd, ap, lp = [], [], set(), [], []
    for la in net.lanelets:
        for a in la.adjacent_areas:
            aa.append([int(la.lanelet_id), int(a)])
        x, ex = _grid(la.center_vertices[0][0])
        y, ey = _grid(la.center_vertices[0][1])
        exact &= int(ex and ey)
        lp.append([int(la.lanelet_id), x, y])
    for ar in net.areas:
        A.append([int(ar.area_id), _tag_of(ar)])
        for b in ar.border or []:
            for l in (b.adjacent or []):
                bd.add((int(ar.area_id), int(l)))
        if ar.border:
            x, ex = _grid(ar.border[0].border_vertices[0][0])
            y, ey = _grid(ar.border[0].border_vertices[0][1])
            exact &= int(ex and ey)
            ap.append([int(ar.area_id), x, y])
    return {"L": L, "A": sorted(A), "aa": sorted(aa), "bd": sorted(list(p) for p in bd), "ap": sorted(ap),
            "lp": sorted(lp)}, exact


class _Net:
    def __init__(self):
        from commonroad.scenario.lanelet import LaneletNetwork
        self.net = LaneletNetwork()
        self.sc = None
        self.added = {}                       # area id -> object handed to add_area (identity of find_area_by_id)

    def cur(self):
        return self.sc.lanelet_network if self.sc is not None else self.net


def _net_op(st, a):
    import math
    import numpy as np
    from commonroad.scenario.lanelet import LaneletNetwork, LaneletType
    from commonroad.scenario.scenario import Scenario
    op = a["op"]
    e = {"op": op}
    net = st.cur()
    host = "scen" if st.sc is not None else "net"
    if op == "n_add_lanelet":
        i = int(a["i"])
        e.update(i=i, aa0=[int(v) for v in a["aa0"]], pos=[int(a["pos"][0]), int(a["pos"][1])], via=host)
        present = net.find_lanelet_by_id(i) is not None
        e["sig"] = "add_lanelet[%s;%s;%s]" % (host, "used-id" if present else "fresh-id", "with-area-refs" if e["aa0"] else "plain")
        la = _lanelet(i, e["aa0"], e["pos"])
        try:
            if host == "net":
                e["res"] = "T" if net.add_lanelet(la) else "F"
            else:
                st.sc.add_objects(la)
                e["res"] = "ok"
        except Exception as ex:
            e["res"] = _exc(ex)
    elif op == "n_remove_lanelet":
        i = int(a["i"])
        la = net.find_lanelet_by_id(i)
        via = "scen" if (host == "scen" and la is not None) else "net"
        refd = any(i in (b.adjacent or []) for ar in net.areas for b in (ar.border or []))
        e.update(i=i, via=via, sig="remove_lanelet[%s;%s;%s]" % (via, "present" if la is not None else "absent",
                                                                 "border-refers-to-it" if refd else "unreferenced"))
        try:
            if via == "scen":
                st.sc.remove_lanelet(la)
            else:
                net.remove_lanelet(i)
            e["res"] = "ok"
        except Exception as ex:
            e["res"] = _exc(ex)
    elif op in ("n_add_area", "s_add_area"):
        aid = int(a["a"][0])
        e.update(a=[aid, int(a["a"][1])], bd0=[int(v) for v in a["bd0"]], ids=[int(v) for v in a["ids"]],
                 pos=[int(a["pos"][0]), int(a["pos"][1])])
        present = net.find_area_by_id(aid) is not None
        ar = _area(e["a"], e["bd0"], e["pos"])
        if op == "n_add_area":
            known = {int(la.lanelet_id) for la in net.lanelets}
            e["sig"] = "add_area[%s;%s]" % ("used-id" if present else "fresh-id",
                                            "no-lanelet-ids" if not e["ids"] else
                                            ("existing-lanelets" if set(e["ids"]) <= known else "some-absent-lanelet"))
            try:
                ok = net.add_area(ar, set(e["ids"]))
                e["res"] = "T" if ok else "F"
                if ok:
                    st.added[aid] = ar
            except Exception as ex:
                e["res"] = _exc(ex)
        else:
            e["sig"] = "scenario.add_objects[Area]"
            try:
                st.sc.add_objects(ar, set(e["ids"]))
                e["res"] = "ok"
                st.added[aid] = ar
            except Exception as ex:
                e["res"] = _exc(ex)
    elif op == "n_remove_area":
        i = int(a["i"])
        present = net.find_area_by_id(i) is not None if i >= 0 else False
        refd = any(i in la.adjacent_areas for la in net.lanelets)
        e.update(i=i, sig="remove_area[%s;%s]" % ("present" if present else "absent",
                                                   "lanelet-refers-to-it" if refd else "unreferenced"))
        try:
            net.remove_area(i)
            e["res"] = "ok"
        except Exception as ex:
            e["res"] = _exc(ex)
    elif op == "n_find_area":
        i = int(a["i"])
        e.update(i=i, found=[], same=0, sig="find_area[%s]" % ("negative" if i < 0 else "id"))
        try:
            r = net.find_area_by_id(i)
            e["res"] = "ok"
            if r is not None:
                e["found"] = [int(r.area_id), _tag_of(r)]
                e["same"] = 1 if r is st.added.get(int(r.area_id)) else 0
        except Exception as ex:
            e["res"] = _exc(ex)
    elif op == "n_areas":
        e.update(list=[], sig="areas")
        try:
            e["list"] = [[int(x.area_id), _tag_of(x)] for x in net.areas]
            e["res"] = "ok"
        except Exception as ex:
            e["res"] = _exc(ex)
    elif op == "n_translate_rotate":
        t = [int(v) for v in a["t"]]
        e.update(t=t, exact=1, sig="translate_rotate[%s]" % ("with-areas" if net.areas else "no-areas"))
        try:
            net.translate_rotate(np.array([float(t[0]), float(t[1])]), (t[2] % 4) * math.pi / 2.0 if t[2] % 4 < 3 else -math.pi / 2.0)
            e["res"] = "ok"
        except Exception as ex:
            e["res"] = _exc(ex)
    elif op == "n_cut":
        keep = [int(v) for v in a["keep"]]
        cleanup = int(a["cleanup"])
        present = {int(la.lanelet_id): la for la in net.lanelets}
        types = list(LaneletType)
        excl = {types[i % len(types)] for i in present if i not in keep}
        dang = any(x not in {int(ar.area_id) for ar in net.areas} for i in keep if i in present for x in present[i].adjacent_areas)
        e.update(keep=keep, cleanup=cleanup, shared=0, cut={"L": [], "A": [], "aa": [], "bd": [], "ap": [], "lp": []},
                 sig="cut[%s;cleanup=%d;%s]" % ("all" if not excl else "subset", cleanup,
                                                 "dangling-area-ref" if dang else "well-formed"))
        try:
            new = LaneletNetwork.create_from_lanelet_network(net, exclude_lanelet_types=excl, cleanup_ids=bool(cleanup))
            e["res"] = "ok"
            e["cut"] = _snapshot(new)[0]
            old = {id(x) for ar in net.areas for x in [ar] + list(ar.border or [])}
            e["shared"] = sum(1 for ar in new.areas for x in [ar] + list(ar.border or []) if id(x) in old)
        except Exception as ex:
            e["res"] = _exc(ex)
    elif op == "s_adopt":
        e["sig"] = "scenario.add_objects[network %s]" % ("with-areas" if net.areas else "no-areas")
        try:
            sc = Scenario(0.1)
            sc.add_objects(net)
            st.sc = sc
            e["res"] = "ok"
        except Exception as ex:
            e["res"] = _exc(ex)
    elif op == "s_gen":
        e.update(id=0, sig="generate_object_id")
        try:
            e["id"] = int(st.sc.generate_object_id())
            e["res"] = "ok"
        except Exception as ex:
            e["res"] = _exc(ex)
    elif op == "s_erase":
        e["sig"] = "erase_lanelet_network"
        try:
            st.sc.erase_lanelet_network()
            e["res"] = "ok"
        except Exception as ex:
            e["res"] = _exc(ex)
    else:
        raise tlc.MachineryError("unknown op " + op)
    e["post"], exact = _snapshot(st.cur())
    if op == "n_translate_rotate":
        e["exact"] = exact
    st.added = {k: v for k, v in st.added.items() if st.cur().find_area_by_id(k) is v}
    return e


def _net_random_op(rng, st, big):
    net = st.cur()
    L = [int(la.lanelet_id) for la in net.lanelets]
    A = [int(ar.area_id) for ar in net.areas]
    pool = [20, 21, 22, big, big + 1]
    ops = ["n_add_lanelet"] * 4 + ["n_add_area"] * 5 + ["n_remove_lanelet"] * 3 + ["n_remove_area"] * 3 + \
          ["n_find_area", "n_areas", "n_translate_rotate"] + ["n_cut"] * 3
    if st.sc is None:
        ops += ["s_adopt"]
    else:
        ops += ["s_gen"] * 3 + ["s_add_area", "s_erase"]
    op = rng.choice(ops)
    if op == "n_add_lanelet":
        i = rng.randint(1, 8)
        aa0 = sorted(rng.sample(pool, rng.choice([0, 0, 1, 2]))) if rng.random() < 0.5 else []
        if aa0 and rng.random() < 0.7:
            aa0 = [x for x in aa0 if x in A]
        return {"op": op, "i": i, "aa0": aa0, "pos": [10 * i, rng.randint(-3, 3)]}
    if op == "n_remove_lanelet":
        return {"op": op, "i": rng.choice(L) if L and rng.random() < 0.8 else rng.randint(1, 9)}
    if op in ("n_add_area", "s_add_area"):
        aid = rng.choice(pool)
        bd0 = sorted(rng.sample(range(1, 10), rng.choice([0, 1, 2, 3])))
        if rng.random() < 0.6:
            bd0 = [x for x in bd0 if x in L]
        ids = sorted(rng.sample(range(1, 10), rng.choice([0, 1, 2, 3])))
        return {"op": op, "a": [aid, rng.randint(0, 2)], "bd0": bd0, "ids": ids, "pos": [rng.randint(-9, 9), rng.randint(-9, 9)]}
    if op == "n_remove_area":
        return {"op": op, "i": rng.choice(A) if A and rng.random() < 0.8 else rng.choice(pool)}
    if op == "n_find_area":
        return {"op": op, "i": rng.choice(A + pool + [-1])}
    if op == "n_translate_rotate":
        return {"op": op, "t": [rng.randint(-5, 5), rng.randint(-5, 5), rng.randint(0, 3)]}
    if op == "n_cut":
        return {"op": op, "keep": sorted(x for x in L if rng.random() < 0.6), "cleanup": rng.randint(0, 1)}
    return {"op": op}


def _run_net(case):
    st = _Net()
    ev = []
    rng = random.Random(case["seed"]) if case["src"] == "random" else None
    big = rng.choice([23, 1000, 10 ** 6]) if rng else 0
    n = case["len"] if rng else len(case["ops"])
    for k in range(n):
        a = _net_random_op(rng, st, big) if rng else case["ops"][k]
        if a["op"] in ("s_gen", "s_erase", "s_add_area") and st.sc is None:
            continue
        if a["op"] == "s_adopt" and st.sc is not None:
            continue
        ev.append(_net_op(st, a))
    return ev


# ---- validating setters ------------------------------------------------------------------------------------

def _run_setter(case):
    import numpy as np
    from commonroad.common.common_lanelet import LineMarking
    from commonroad.scenario.area import Area, AreaBorder, AreaType
    cls, attr, tok = case["cls"], case["attr"], case["tok"]
    border = AreaBorder(11, np.array([[0.0, 0.0], [1.0, 0.0]]), [1], LineMarking.DASHED)
    if cls == "Area":
        obj = Area(1, [border], {AreaType.PARKING})
    elif cls == "AreaBorder":
        obj = border
    else:
        obj = _lanelet(1, [4], [0, 0])
    vals = {
        ("area_id", "int"): 5, ("area_id", "str"): "5", ("area_id", "float"): 5.5, ("area_id", "None"): None, ("area_id", "bool"): True,
        ("area_border_id", "int"): 5, ("area_border_id", "str"): "5", ("area_border_id", "None"): None, ("area_border_id", "bool"): True,
        ("border", "borders"): [AreaBorder(12, np.array([[0.0, 0.0], [0.0, 1.0]]))], ("border", "empty-list"): [],
        ("border", "list-of-int"): [1, 2], ("border", "tuple"): (border,), ("border", "None"): None,
        ("area_types", "types"): {AreaType.BUS_STOP, AreaType.BORDER}, ("area_types", "empty-set"): set(),
        ("area_types", "set-of-str"): {"parking"}, ("area_types", "list"): [AreaType.PARKING], ("area_types", "None"): None,
        ("border_vertices", "poly2"): np.array([[0.0, 0.0], [2.0, 0.0], [2.0, 2.0]]),
        ("border_vertices", "poly3"): np.array([[0.0, 0.0, 0.0], [2.0, 0.0, 1.0]]),
        ("border_vertices", "flat"): np.array([0.0, 1.0]), ("border_vertices", "None"): None,
        ("border_vertices", "one-point"): np.array([[0.0, 0.0]]), ("border_vertices", "nested-list"): [[0.0, 0.0], [1.0, 0.0]],
        ("adjacent", "ints"): [2, 3], ("adjacent", "empty-list"): [], ("adjacent", "list-of-str"): ["2"], ("adjacent", "set"): {2},
        ("adjacent", "int"): 2, ("adjacent", "None"): None,
        ("line_marking", "marking"): LineMarking.SOLID, ("line_marking", "str"): "solid", ("line_marking", "None"): None,
        ("adjacent_areas", "set"): {7, 8}, ("adjacent_areas", "empty-set"): set(), ("adjacent_areas", "list"): [7],
        ("adjacent_areas", "None"): None,
    }
    if (attr, tok) not in vals:
        raise tlc.MachineryError("no value for setter row %r" % ((cls, attr, tok),))
    val = vals[(attr, tok)]
    init = getattr(obj, attr)
    e = {"op": "a_set", "cls": cls, "attr": attr, "tok": tok, "sig": "set %s.%s[%s]" % (cls, attr, tok)}
    try:
        setattr(obj, attr, val)
        e["res"] = "ok"
    except Exception as ex:
        e["res"] = _exc(ex)
    cur = getattr(obj, attr)
    e["now"] = tok if cur is val else ("init" if cur is init else "other")
    return [e]


# ---- scenario meta data ------------------------------------------------------------------------------------

_FIELDS = ("author", "tags", "affiliation", "source", "location")
_NOOBJ = {"live": 0, "dt": "-", "author": "-", "tags": "-", "affiliation": "-", "source": "-", "location": "-", "sid": ["-", 0]}


def _reset_default():
    """Test isolation: if the constructor's default scenario id is an object made at import, give it its original name
    (earlier cases in this worker process may have changed it)."""
    from commonroad.scenario.scenario import Scenario, ScenarioID
    d = inspect.signature(Scenario.__init__).parameters["scenario_id"].default
    if isinstance(d, ScenarioID):
        d.map_name = "Test"


class _Meta:
    def __init__(self):
        import numpy as np
        from commonroad.scenario.scenario import Location, Tag
        self.obj = {"A": None, "B": None}
        self.dt = {"float": 0.1, "int": 1, "npfloat": np.float64(0.5), "str": "0.1", "None": None, "list": [0.1],
                   "complex": 1 + 0j, "bool": True, "nan": float("nan"), "inf": float("inf"), "neg": -0.1, "zero": 0.0}
        self.plain = {"author": {"v1": "Alice", "v2": "Bob", "bad": 5},
                      "tags": {"v1": {Tag.URBAN}, "v2": {Tag.HIGHWAY, Tag.CRITICAL}, "bad": ["urban"]},
                      "affiliation": {"v1": "TUM", "v2": "KIT", "bad": 7},
                      "source": {"v1": "sumo", "v2": "real", "bad": 3.5},
                      "location": {"v1": Location(1, 48.0, 11.0), "v2": Location(2, 50.0, 8.0), "bad": "Munich"}}

    def sid_value(self, tok):
        from commonroad.scenario.scenario import ScenarioID
        if tok in ("uA", "uB"):
            return ScenarioID(country_id="DEU", map_name="AAA" if tok == "uA" else "BBB", map_id=1)
        return {"bad": "ZAM_Test-1", "None": None}[tok]

    def value(self, f, tok):
        if f == "dt":
            return self.dt[tok]
        if f == "sid":
            return self.sid_value(tok)
        return None if tok == "None" else self.plain[f][tok]

    def tok_dt(self, v):
        for k, x in self.dt.items():
            if type(v) is type(x) and (v is x or v == x or (k == "nan" and v != v)):
                return k
        return "other"

    def tok_plain(self, f, v):
        if v is None:
            return "None"
        for k, x in self.plain[f].items():
            if type(v) is type(x) and v == x:
                return k
        return "other"

    def tok_sid(self, v):
        from commonroad.scenario.scenario import ScenarioID
        if not isinstance(v, ScenarioID) or not isinstance(v.map_name, str):
            return ["other", 0]
        name, n = v.map_name, 0
        while name.endswith("2D"):
            name, n = name[:-2], n + 1
        return [{"Test": "def", "AAA": "uA", "BBB": "uB"}.get(name, "other"), n]

    def snap(self):
        out = {}
        for o in ("A", "B"):
            s = self.obj[o]
            if s is None:
                out[o] = dict(_NOOBJ)
                continue
            d = {"live": 1, "dt": self.tok_dt(s.dt), "sid": self.tok_sid(s.scenario_id)}
            for f in _FIELDS:
                d[f] = self.tok_plain(f, getattr(s, f))
            out[o] = d
        return out


def _meta_op(mt, a):
    from commonroad.scenario.scenario import Scenario
    op, o = a["op"], a["o"]
    e = {"op": op, "o": o}
    other = "B" if o == "A" else "A"
    oth = "other[%s]" % ("none" if mt.obj[other] is None else mt.tok_sid(mt.obj[other].scenario_id)[0])
    if op == "m_new":
        g = {k: a["given"].get(k, "-") for k in ("dt",) + _FIELDS + ("sid",)}
        e["given"] = g
        kw = {}
        for f in _FIELDS:
            if g[f] != "-":
                kw[f] = mt.value(f, g[f])
        if g["sid"] != "-":
            kw["scenario_id"] = mt.value("sid", g["sid"])
        e["sig"] = "Scenario(dt:%s;id:%s;attrs:%s)" % (
            "real" if g["dt"] in ("float", "int", "npfloat") else ("not-a-number" if g["dt"] in ("str", "None", "list", "complex") else "edge"),
            {"-": "default", "uA": "given", "uB": "given"}.get(g["sid"], "not-an-id"),
            "other-type" if any(g[f] == "bad" for f in _FIELDS) else "plain")
        try:
            mt.obj[o] = None
            mt.obj[o] = Scenario(mt.value("dt", g["dt"]), **kw)
            e["res"] = "ok"
        except Exception as ex:
            e["res"] = _exc(ex)
    elif op == "m_set":
        f, tok = a["f"], a["tok"]
        e.update(f=f, tok=tok, sig="scenario.%s=%s" % ("scenario_id" if f == "sid" else f, tok if f == "dt" or tok == "bad" else "value"))
        try:
            setattr(mt.obj[o], "scenario_id" if f == "sid" else f, mt.value(f, tok))
            e["res"] = "ok"
        except Exception as ex:
            e["res"] = _exc(ex)
    elif op == "m_to2d":
        e["sig"] = "convert_to_2d[id=%s];%s" % (mt.tok_sid(mt.obj[o].scenario_id)[0], oth)
        try:
            mt.obj[o].convert_to_2d()
            e["res"] = "ok"
        except Exception as ex:
            e["res"] = _exc(ex)
    elif op == "m_str":
        e["sig"] = "str(scenario)"
        try:
            str(mt.obj[o])
            e["res"] = "ok"
        except Exception as ex:
            e["res"] = _exc(ex)
    else:
        raise tlc.MachineryError("unknown op " + op)
    e["snap"] = mt.snap()
    return e


def _meta_random_op(rng, mt):
    o = rng.choice(["A", "A", "B"])
    if mt.obj[o] is None or rng.random() < 0.15:
        g = {"dt": rng.choice(["float"] * 6 + list(mt.dt))}
        for f in _FIELDS:
            g[f] = rng.choice(["-", "-", "None", "v1", "v2", "bad"])
        g["sid"] = rng.choice(["-", "-", "-", "u" + o, "u" + o, "bad", "None"])
        return {"op": "m_new", "o": o, "given": g}
    r = rng.random()
    if r < 0.5:
        f = rng.choice(("dt",) + _FIELDS + ("sid",))
        tok = rng.choice(list(mt.dt)) if f == "dt" else ("u" + o if f == "sid" else rng.choice(["None", "v1", "v2", "bad"]))
        return {"op": "m_set", "o": o, "f": f, "tok": tok}
    if r < 0.85 and mt.tok_sid(mt.obj[o].scenario_id)[1] < 6:
        return {"op": "m_to2d", "o": o}
    return {"op": "m_str", "o": o}


def _run_meta(case):
    _reset_default()
    mt = _Meta()
    ev = []
    rng = random.Random(case["seed"]) if case["src"] == "random" else None
    n = case["len"] if rng else len(case["ops"])
    for k in range(n):
        a = _meta_random_op(rng, mt) if rng else case["ops"][k]
        if a["op"] != "m_new" and mt.obj[a["o"]] is None:
            continue
        ev.append(_meta_op(mt, a))
    _reset_default()
    return ev


# ---- ScenarioID constructor ---------------------------------------------------------------------------------

_MAPS = {"Test": "Test", "seps": "A-b_c 1", "empty": "", "US101": "US101"}


def _random_sid(rng):
    def num():
        return rng.choice([0, 0, 1, 2, 7, -1, -5, 10 ** 6, rng.randint(1, 50)])
    pk = rng.choice(["none", "none", "int", "list"])
    pv = [] if pk == "none" else ([num()] if pk == "int" else [num() for _ in range(rng.randint(0, 4))])
    return {"src": "random", "kind": "sid", "coop": rng.randint(0, 1),
            "country": rng.choice(["-", "None", "ZAM", "DEU", "USA", "deu", "XYZ", "DE", "GERM"]),
            "map": rng.choice(["Test", "US101", "seps", "empty"]), "ver": rng.choice(["-", "-", "2018b", "2020a", "2019a", "2021"]),
            "map_id": rng.choice([1, 1, 3, 33, 0, -2, 10 ** 6]), "config": rng.choice([[], [], [num()]]),
            "beh": rng.choice(["None", "None", "S", "T", "P", "I", "X", "t"]), "pk": pk, "pv": pv}


def _run_sid(case):
    from commonroad.scenario.scenario import ScenarioID
    e = {"op": "i_new"}
    for k in ("coop", "country", "map", "ver", "map_id", "config", "beh", "pk", "pv"):
        e[k] = case[k]
    e["config"] = [int(v) for v in case["config"]]
    e["pv"] = [int(v) for v in case["pv"]]
    kw = {"cooperative": bool(case["coop"]), "map_name": _MAPS[case["map"]], "map_id": int(case["map_id"])}
    if case["country"] != "-":
        kw["country_id"] = None if case["country"] == "None" else case["country"]
    if case["ver"] != "-":
        kw["scenario_version"] = case["ver"]
    if e["config"]:
        kw["configuration_id"] = e["config"][0]
    if case["beh"] != "None":
        kw["obstacle_behavior"] = case["beh"]
    if case["pk"] == "int":
        kw["prediction_id"] = e["pv"][0]
    elif case["pk"] == "list":
        kw["prediction_id"] = list(e["pv"])
    zero = (e["config"] == [0]) or (0 in e["pv"])
    neg = case["map_id"] <= 0 or (e["config"] and e["config"][0] < 0) or any(v < 0 for v in e["pv"])
    shape = ("unsupported-version" if case["ver"] not in ("-", "2018b", "2020a") else
             "country-not-iso" if case["country"] not in ("-", "None", "ZAM", "DEU", "USA") else
             "negative-or-zero-map-id" if neg and case["map_id"] <= 0 else
             "negative-id" if neg else
             "unknown-behaviour" if case["beh"] not in ("None", "S", "T", "P", "I") else
             "prediction-without-behaviour" if case["pk"] != "none" and case["beh"] == "None" else
             "configuration-id-0" if e["config"] == [0] else
             "prediction-id-0" if 0 in e["pv"] else
             "empty-prediction-list" if case["pk"] == "list" and not e["pv"] else
             "name-" + case["map"] if case["map"] in ("seps", "empty") else "plain")
    e["sig"] = "ScenarioID[%s]" % shape
    e["out"] = {"country": "", "alnum": 0, "map_id": 0, "coop": 0}
    try:
        s = ScenarioID(**kw)
        e["res"] = "ok"
        name = s.map_name
        e["out"] = {"country": str(s.country_id), "alnum": 1 if isinstance(name, str) and name.isascii() and name.isalnum() else 0,
                    "map_id": int(s.map_id), "coop": 1 if s.cooperative else 0}
    except Exception as ex:
        e["res"] = _exc(ex)
    return [e]


# ---- GeoTransformation / Location / Environment / Time -------------------------------------------------------

_HFIELDS = {"GeoTransformation": ("geo_reference", "x_translation", "y_translation", "z_rotation", "scaling"),
            "Location": ("geo_name_id", "gps_latitude", "gps_longitude", "geo_transformation", "environment"),
            "Environment": ("time", "time_of_day", "weather", "underground"),
            "Time": ("hours", "minutes", "day", "month", "year")}


def _random_holder(rng):
    cls = rng.choice(sorted(_HFIELDS))
    n = len(_HFIELDS[cls])
    toks = ["-", "-", "None", "0", "1", "3", "-4", "12", "60", "999", "s", "g", "e", "t", "m"]
    given = [rng.choice(toks) for _ in range(n)]
    if cls == "Time":
        given[0] = rng.choice(["0", "10", "24", "25", "-1"])
        given[1] = rng.choice(["0", "30", "60", "61", "-1"])
        given[2] = rng.choice(["-", "None", "1", "15", "31", "32", "0"])
        given[3] = rng.choice(["-", "None", "1", "6", "12", "13", "0"])
    sets = [[rng.randint(1, n), rng.choice(toks[2:])] for _ in range(rng.randint(0, 6))]
    if cls == "Time":
        sets = [s for s in sets if s[0] > 4 or s[1] == "None"] + [[1, rng.choice(["5", "25"])], [4, rng.choice(["12", "13", "0"])]]
    return {"src": "random", "kind": "holder", "cls": cls, "given": given, "sets": sets}


def _run_holder(case):
    from commonroad.common.util import Time
    from commonroad.scenario.scenario import Environment, GeoTransformation, Location, TimeOfDay, Underground, Weather
    cls = case["cls"]
    fields = _HFIELDS[cls]
    ctor = {"GeoTransformation": GeoTransformation, "Location": Location, "Environment": Environment, "Time": Time}[cls]
    objs = {"s": "+proj=utm +zone=32", "g": GeoTransformation("+proj=utm", 1.0, 2.0, 0.5, 2.0), "e": Environment(Time(8, 15)),
            "t": Time(12, 30, 1, 2, 2020)}
    members = {"time_of_day": TimeOfDay.NIGHT, "weather": Weather.FOG, "underground": Underground.ICE}

    def val(i, tok):
        if tok == "None":
            return None
        if tok == "m":
            return members.get(fields[i - 1], Weather.FOG)
        if tok in objs:
            return objs[tok]
        return int(tok)

    def tok_of(i, v):
        if v is None:
            return "None"
        for k, x in objs.items():
            if v is x:
                return k
        if v is members.get(fields[i - 1], Weather.FOG):
            return "m"
        if isinstance(v, bool):
            return "other"
        if isinstance(v, (int, float)) and float(v) == int(v):
            return str(int(v))
        if isinstance(v, str):
            return v if v == "" else "other"
        return "other"

    def got(o):
        return [tok_of(i + 1, getattr(o, f)) for i, f in enumerate(fields)]
    given = list(case["given"])
    ev = []
    e = {"op": "h_new", "cls": cls, "given": given, "got": [],
         "sig": "%s(%s)" % (cls, "defaults" if all(g == "-" for g in given) else
                            ("with-None" if "None" in given else "values"))}
    obj = None
    try:
        obj = ctor(**{f: val(i + 1, g) for i, (f, g) in enumerate(zip(fields, given)) if g != "-"})
        e["res"] = "ok"
        e["got"] = got(obj)
    except Exception as ex:
        e["res"] = _exc(ex)
    ev.append(e)
    if obj is None:
        return ev
    for i, tok in case["sets"]:
        i = int(i)
        e = {"op": "h_set", "cls": cls, "i": i, "tok": tok, "sig": "%s.%s=%s" % (cls, fields[i - 1], "None" if tok == "None" else "value")}
        try:
            setattr(obj, fields[i - 1], val(i, tok))
            e["res"] = "ok"
        except Exception as ex:
            e["res"] = _exc(ex)
        e["got"] = got(obj)
        ev.append(e)
    return ev


# ---- enums ---------------------------------------------------------------------------------------------------

def _run_enum(case):
    from commonroad.scenario.area import AreaType
    from commonroad.scenario.scenario import Tag, TimeOfDay, Underground, Weather
    en = {"Tag": Tag, "TimeOfDay": TimeOfDay, "Weather": Weather, "Underground": Underground, "AreaType": AreaType}[case["enum"]]
    names = [m for m in en.__members__]                      # includes aliases, if any
    values = [str(en.__members__[m].value) for m in names]
    ev = [{"op": "e_table", "enum": case["enum"], "names": names, "values": values, "lower": [m.lower() for m in names],
           "sig": "enum table " + case["enum"]}]
    for v in values + ["nope", names[0], values[0].upper(), ""]:
        e = {"op": "e_lookup", "enum": case["enum"], "names": names, "values": values, "value": v,
             "sig": "enum lookup %s[%s]" % (case["enum"], "member" if v in values else "unknown")}
        try:
            e["res"] = en(v).name
        except Exception as ex:
            e["res"] = _exc(ex)
        ev.append(e)
    return ev


def execute(case):
    use_repo()
    k = case["kind"]
    if k == "net":
        return {"ev": _run_net(case)}
    if k == "meta":
        return {"ev": _run_meta(case)}
    if k == "setter":
        return {"ev": _run_setter(case)}
    if k == "sid":
        return {"ev": _run_sid(case)}
    if k == "holder":
        return {"ev": _run_holder(case)}
    if k == "enum":
        return {"ev": _run_enum(case)}
    raise tlc.MachineryError("unknown case kind %r" % k)


def summarize(cases, traces):
    by = {}
    for tr in traces:
        for e in tr["ev"]:
            by[e["op"]] = by.get(e["op"], 0) + 1
    return {"events_by_op": by}


def corrupt(trace, rng):
    """Corrupt ONE logged field so that the contract must reject exactly that event: a foreign lanelet in the logged
    network, a foreign author in the logged scenario, an impossible read-back token / field / member."""
    def elig(e):
        op = e["op"]
        if op.startswith("n_") or op.startswith("s_"):
            return True
        if op.startswith("m_") or op in ("h_new", "h_set"):
            return e["res"] == "ok"
        if op == "i_new":
            return e["res"] == "ok" and e["map"] != "empty" and not (e["pk"] == "list" and not e["pv"])
        return op in ("a_set", "e_table", "e_lookup")
    idx = [i for i, e in enumerate(trace["ev"]) if elig(e)]
    if not idx:
        return None
    e = trace["ev"][rng.choice(idx)]
    op = e["op"]
    if op.startswith("n_") or op.startswith("s_"):
        e["post"]["L"] = e["post"]["L"] + [999999]
    elif op.startswith("m_"):
        e["snap"][e["o"]]["author"] = "zzz"
    elif op == "a_set":
        e["now"] = "other"
    elif op == "i_new":
        e["res"] = "AssertionError"
    elif op in ("h_new", "h_set"):
        e["got"][0] = "zzz"
    elif op == "e_table":
        e["values"][0] = "zzz"
    else:
        e["res"] = "zzz"
    return trace
